#!/usr/bin/env python3
"""Systematic first-order mutation sweep over the functions the checks analyse.

For every function listed under coverage.functions_analysed in evidence/*.json, standard mutation
operators are applied one at a time (relational operator replacement, condition negation,
arithmetic operator replacement, constant replacement, statement deletion, break<->continue,
list-mutator replacement).  Each mutant is written into a scratch copy of /repo/topsim (mkdtemp,
removed afterwards) and the checks that analyse that function are run on it.  Mutants no check
reports are then run against the project's 30 passing tests.  Output: .mut/results.jsonl
(one record per mutant) and a summary on stdout.  This is a tool for finding blind spots of the
rules; it is not one of the registered checks.

usage: tools_mutsweep.py [--limit N] [--only Class.method ...] [--all-checks]
"""
import ast
import copy
import glob
import json
import os
import shutil
import subprocess
import sys
import tempfile
from concurrent.futures import ProcessPoolExecutor

REPO = '/repo'
OUT = '/verif/.mut'
PYTEST = ['/venv/bin/python', '-m', 'pytest', '-q', '-p', 'no:cacheprovider', '--timeout=900',
          '--continue-on-collection-errors']
ROR = {ast.Lt: ast.LtE, ast.LtE: ast.Lt, ast.Gt: ast.GtE, ast.GtE: ast.Gt, ast.Eq: ast.NotEq, ast.NotEq: ast.Eq,
       ast.In: ast.NotIn, ast.NotIn: ast.In, ast.Is: ast.IsNot, ast.IsNot: ast.Is}
AOR = {ast.Add: ast.Sub, ast.Sub: ast.Add, ast.Mult: ast.Div, ast.Div: ast.Mult}
MUT = {'append': 'remove', 'remove': 'append', 'extend': 'append', 'pop': 'append'}


def funcs_to_props():
    m = {}
    for f in glob.glob('/verif/evidence/C*.json'):
        e = json.load(open(f))
        for q in e['coverage'].get('functions_analysed', []):
            m.setdefault(q, set()).add(e['property_id'])
    return m


def is_logging(st):
    return isinstance(st, ast.Expr) and isinstance(st.value, ast.Call) and isinstance(st.value.func, ast.Attribute) \
        and isinstance(st.value.func.value, ast.Name) and st.value.func.value.id.lower() in ('logger', 'logging', 'log')


def sites(fn):
    """[(kind, path)] mutation sites inside function node fn; path = list of (field, index) steps"""
    out = []

    def rec(node, path):
        for field, val in ast.iter_fields(node):
            items = val if isinstance(val, list) else [val]
            for i, c in enumerate(items):
                if not isinstance(c, ast.AST):
                    continue
                p = path + [(field, i if isinstance(val, list) else None)]
                if isinstance(c, (ast.FunctionDef, ast.AsyncFunctionDef, ast.ClassDef, ast.Lambda)) and path:
                    continue
                if isinstance(c, ast.stmt) and is_logging(c):
                    continue
                if isinstance(c, ast.Expr) and isinstance(c.value, ast.Constant):
                    continue      # docstring
                if isinstance(c, ast.Compare) and len(c.ops) == 1 and type(c.ops[0]) in ROR:
                    out.append(('ROR', p))
                if isinstance(c, (ast.If, ast.While)) and not (isinstance(c.test, ast.Constant)):
                    out.append(('NEG', p))
                if isinstance(c, ast.BinOp) and type(c.op) in AOR:
                    out.append(('AOR', p))
                if isinstance(c, ast.AugAssign) and type(c.op) in AOR:
                    out.append(('AOR', p))
                if isinstance(c, ast.Constant) and (c.value is True or c.value is False or c.value in (0, 1)) \
                        and not isinstance(c.value, str):
                    out.append(('CON', p))
                if isinstance(c, (ast.Expr, ast.Assign, ast.AugAssign)) and isinstance(val, list) and len(val) > 1 \
                        and not any(isinstance(x, (ast.Yield, ast.YieldFrom)) for x in ast.walk(c)):
                    out.append(('SDL', p))
                if isinstance(c, (ast.Break, ast.Continue)):
                    out.append(('BRK', p))
                if isinstance(c, ast.Call) and isinstance(c.func, ast.Attribute) and c.func.attr in MUT and len(c.args) == 1:
                    out.append(('LMR', p))
                if isinstance(c, ast.BoolOp):
                    out.append(('LCR', p))
                rec(c, p)
    rec(fn, [])
    return out


def follow(node, path):
    parent = None
    for field, i in path:
        parent = (node, field, i)
        v = getattr(node, field)
        node = v[i] if i is not None else v
    return node, parent


def put(parent, new):
    node, field, i = parent
    if i is None:
        setattr(node, field, new)
    else:
        getattr(node, field)[i] = new


def mutate(tree, fpath, kind, path):
    """returns (description) after mutating tree in place; None when not applicable"""
    fn, _ = follow(tree, fpath)
    node, parent = follow(fn, path)
    before = ast.unparse(node)[:80].replace('\n', ' ')
    if kind == 'ROR':
        node.ops = [ROR[type(node.ops[0])]()]
    elif kind == 'NEG':
        node.test = ast.UnaryOp(op=ast.Not(), operand=node.test)
    elif kind == 'AOR':
        node.op = AOR[type(node.op)]()
    elif kind == 'CON':
        v = node.value
        put(parent, ast.copy_location(ast.Constant(value=(not v) if isinstance(v, bool) else (1 - v)), node))
    elif kind == 'SDL':
        put(parent, ast.copy_location(ast.Pass(), node))
    elif kind == 'BRK':
        put(parent, ast.copy_location(ast.Continue() if isinstance(node, ast.Break) else ast.Break(), node))
    elif kind == 'LMR':
        node.func.attr = MUT[node.func.attr]
    elif kind == 'LCR':
        node.op = ast.Or() if isinstance(node.op, ast.And) else ast.And()
    n2, _ = follow(fn, path)
    after = ast.unparse(n2)[:80].replace('\n', ' ')
    return '%s: `%s` -> `%s`' % (kind, before, after)


def run_one(job):
    rel, qual, fpath, kind, path, props, lineno = job
    tmp = tempfile.mkdtemp(prefix='ms_')
    rec = {'file': rel, 'function': qual, 'kind': kind, 'line': lineno, 'props': sorted(props)}
    try:
        shutil.copytree(REPO + '/topsim', tmp + '/topsim', ignore=shutil.ignore_patterns('__pycache__'))
        src = open(os.path.join(REPO, rel)).read()
        tree = ast.parse(src)
        try:
            rec['mutation'] = mutate(tree, fpath, kind, path)
            code = ast.unparse(tree)
            compile(code, rel, 'exec')
        except Exception as e:     # noqa
            rec['status'] = 'invalid'
            rec['error'] = repr(e)[:100]
            return rec
        open(os.path.join(tmp, rel), 'w').write(code)
        hits, errs = {}, []
        for p in sorted(props):
            r = subprocess.run(['/venv/bin/python', '-B', '-m', 'sa.cli', p, '--repo', tmp, '--no-evidence'],
                               cwd='/verif', capture_output=True, text=True)
            if r.returncode == 1:
                rule = next((l.strip().split(' at ')[0][5:] for l in r.stdout.splitlines() if l.strip().startswith('rule ')), '?')
                hits[p] = rule
            elif r.returncode == 2:
                errs.append(p)
        rec['reported_by'] = hits
        rec['analysis_error'] = errs
        if hits:
            rec['status'] = 'reported'
        elif errs:
            rec['status'] = 'analysis-error'
        else:
            # do the project's tests notice?
            shutil.copytree(REPO + '/test', tmp + '/test', ignore=shutil.ignore_patterns('__pycache__'))
            try:
                r = subprocess.run(PYTEST, cwd=tmp, capture_output=True, text=True, timeout=180)
                tail = (r.stdout.strip().splitlines() or ['?'])[-1]
            except subprocess.TimeoutExpired:
                tail = 'tests hang (timeout)'
            rec['pytest'] = tail[:80]
            rec['status'] = 'survived' if ' 30 passed' in tail and '3 failed' in tail else 'tests-notice'
        return rec
    finally:
        shutil.rmtree(tmp, ignore_errors=True)


def main():
    limit = None
    only = []
    allc = '--all-checks' in sys.argv
    a = sys.argv[1:]
    i = 0
    while i < len(a):
        if a[i] == '--limit':
            limit = int(a[i + 1]); i += 2
        elif a[i] == '--only':
            i += 1
            while i < len(a) and not a[i].startswith('--'):
                only.append(a[i]); i += 1
        else:
            i += 1
    f2p = funcs_to_props()
    allp = {'C%02d' % k for k in range(1, 20)}
    jobs = []
    for path in sorted(glob.glob(REPO + '/topsim/**/*.py', recursive=True)):
        rel = os.path.relpath(path, REPO)
        if '/utils/' in rel or '/recipes/' in rel or '__pycache__' in rel:
            continue
        tree = ast.parse(open(path).read())
        for ci, c in enumerate(tree.body):
            if not isinstance(c, ast.ClassDef):
                continue
            for bi, b in enumerate(c.body):
                if not isinstance(b, ast.FunctionDef):
                    continue
                qual = '%s.%s' % (c.name, b.name)
                if qual not in f2p or (only and qual not in only):
                    continue
                for kind, p in sites(b):
                    node, _ = follow(b, p)
                    jobs.append((rel, qual, [('body', ci), ('body', bi)], kind, p,
                                 allp if allc else f2p[qual], getattr(node, 'lineno', 0)))
    if limit:
        import random
        random.Random(1).shuffle(jobs)
        jobs = jobs[:limit]
    os.makedirs(OUT, exist_ok=True)
    print('%d mutants over %d functions' % (len(jobs), len({j[1] for j in jobs})), flush=True)
    tally = {}
    with open(OUT + '/results.jsonl', 'w') as out, ProcessPoolExecutor(max_workers=14) as ex:
        for k, rec in enumerate(ex.map(run_one, jobs, chunksize=4)):
            out.write(json.dumps(rec) + '\n')
            out.flush()
            tally[rec['status']] = tally.get(rec['status'], 0) + 1
            if (k + 1) % 100 == 0:
                print(k + 1, tally, flush=True)
    print('done', tally)


if __name__ == '__main__':
    main()
