"""
demo1 - C03, join task whose EARLIER-finishing predecessor has the LONGER
transfer.

Workflow (QueueProcessing and BatchProcessing, 4 identical machines,
bandwidth 10):

      0 --> 1 (long)  --(vol 10)--> 3
      0 --> 2 (short) --(vol 300)-> 3

Task 2 finishes long before task 1, but its output (300 / 10 = 30 steps) is
still in flight when task 1 finishes and task 3 is allocated.  Task 3 must
not start before aft(2) + 30.
"""
import sys, os, json, tempfile, shutil, logging

if len(sys.argv) != 2:
    print("usage: demo.py <path-to-tree>")
    sys.exit(2)
sys.path.insert(0, os.path.abspath(sys.argv[1]))
os.environ.setdefault("TQDM_DISABLE", "1")
logging.disable(logging.CRITICAL)

import simpy
from topsim.core.simulation import Simulation
from topsim.core.cluster import Cluster
from topsim.user.telescope import Telescope
from topsim.user.plan.batch_planning import BatchPlanning


def make_config(tmp, nodes, edges, machines, observations, wfname='wf.json'):
    """Write a workflow (node-link, key "edges") and a simulation config."""
    wf = {"header": {"time": False},
          "graph": {"directed": True, "multigraph": False, "graph": {},
                    "nodes": [dict(id=i, **attrs) for i, attrs in nodes.items()],
                    "edges": [dict(source=u, target=v, transfer_data=d)
                              for (u, v, d) in edges]}}
    with open(os.path.join(tmp, wfname), 'w') as f:
        json.dump(wf, f)
    cfg = {"instrument": {"telescope": {
               "total_arrays": 36, "max_ingest_resources": 1,
               "pipelines": {o['name']: {"workflow": wfname, "ingest_demand": 1}
                             for o in observations},
               "observations": observations}},
           "cluster": {"header": {}, "system": {"resources": machines,
                                               "system_bandwidth": 1.0}},
           "buffer": {"hot": {"capacity": 1000, "max_ingest_rate": 100},
                      "cold": {"capacity": 1000, "max_data_rate": 100}},
           "planning": "batch", "scheduling": "batch"}
    path = os.path.join(tmp, 'cfg.json')
    with open(path, 'w') as f:
        json.dump(cfg, f)
    return path


def run(cfgpath, sched, planning, runtime):
    """Run a simulation; return {task id: (task, machine, allocation time)}."""
    records = {}
    orig = Cluster.allocate_task_to_cluster

    def wrapped(self, task, machine, *args, **kwargs):
        ingest = kwargs.get('ingest', args[2] if len(args) > 2 else False)
        if not ingest:
            records[task.id] = (task, machine, self.env.now)
        return orig(self, task, machine, *args, **kwargs)

    Cluster.allocate_task_to_cluster = wrapped
    try:
        env = simpy.Environment()
        sim = Simulation(env=env, config=cfgpath, instrument=Telescope,
                         planning_model=planning, planning_algorithm='batch',
                         scheduling=sched, delay=None, timestamp=0)
        sim.start(runtime=runtime)
    finally:
        Cluster.allocate_task_to_cluster = orig
    return records


def check(records, expected_tasks):
    """C03: precedence + transfer wait + exact start, for every task."""
    errs = []
    if len(records) != expected_tasks:
        errs.append("only %d of %d tasks were allocated"
                    % (len(records), expected_tasks))
    for tid, (task, machine, talloc) in sorted(records.items()):
        if task.ast < 0 or task.aft < 0:
            errs.append("%s never started/finished" % tid)
            continue
        required = talloc
        for pid in task.pred:
            if pid not in records or records[pid][0].aft < 0:
                errs.append("%s allocated at %s although predecessor %s has "
                            "not finished" % (tid, talloc, pid))
                continue
            ptask, pmachine, _ = records[pid]
            if task.ast < ptask.aft:
                errs.append("%s started at %s before predecessor %s finished "
                            "at %s" % (tid, task.ast, pid, ptask.aft))
            arrival = ptask.aft
            if pmachine.id != machine.id:
                arrival += task.io[pid] / machine.bandwidth
            required = max(required, arrival)
        if task.ast != required:
            errs.append("%s on %s started at %s, required start is %s "
                        "(allocated at %s)" % (tid, machine.id, task.ast,
                                               required, talloc))
    return errs

from topsim.user.schedule.batch_allocation import BatchProcessing
from topsim.user.schedule.queue_allocation import QueueProcessing


def main():
    tmp = tempfile.mkdtemp(prefix='c03_demo1_')
    try:
        nodes = {0: dict(comp=50), 1: dict(comp=100), 2: dict(comp=30),
                 3: dict(comp=20)}
        edges = [(0, 1, 40), (0, 2, 5), (1, 3, 10), (2, 3, 300)]
        machines = {"m%d" % i: {"flops": 10, "compute_bandwidth": 10}
                    for i in range(4)}
        obs = [dict(name='a', start=0, duration=5, instrument_demand=1,
                    data_product_rate=2)]
        cfg = make_config(tmp, nodes, edges, machines, obs)
        for sched in (QueueProcessing(),
                      BatchProcessing(min_resources_per_workflow=1)):
            rec = run(cfg, sched, BatchPlanning('batch'), 200)
            errs = check(rec, len(nodes))
            if not errs:
                # make sure the scenario really is the interesting one
                join = [r for r in rec.values() if len(r[0].pred) == 2][0]
                preds = [rec[p] for p in join[0].pred]
                if any(p[1].id == join[1].id for p in preds):
                    errs.append("scenario broken: join shares a machine "
                                "with a predecessor")
            if errs:
                print("FAIL: [%r] %s" % (sched, "; ".join(errs)))
                return 1
        print("PASS")
        return 0
    finally:
        shutil.rmtree(tmp, ignore_errors=True)


if __name__ == '__main__':
    sys.exit(main())
