"""
demo3 - C03 under a static plan that co-locates consecutive tasks.

The plan puts 0 and 1 on m1 and 2 and 3 on m2:

    0 (m1) --50--> 1 (m1) --20--> 2 (m2) --70--> 3 (m2)
                   1 (m1) ----------10---------> 3 (m2)

Edges 0->1 and 2->3 stay on one machine, so they cost NO transfer wait even
though they carry data; 1->2 and 1->3 cross machines and cost volume /
bandwidth(m2).  Run with DynamicSchedulingFromPlan and
GreedySchedulingFromPlan (planned machine ids are plain strings there).
"""
import sys, os, json, tempfile, shutil, logging

if len(sys.argv) != 2:
    print("usage: demo.py <path-to-tree>")
    sys.exit(2)
sys.path.insert(0, os.path.abspath(sys.argv[1]))
os.environ.setdefault("TQDM_DISABLE", "1")
logging.disable(logging.CRITICAL)

import simpy
from topsim.core.simulation import Simulation
from topsim.core.cluster import Cluster
from topsim.user.telescope import Telescope
from topsim.user.plan.batch_planning import BatchPlanning


def make_config(tmp, nodes, edges, machines, observations, wfname='wf.json'):
    """Write a workflow (node-link, key "edges") and a simulation config."""
    wf = {"header": {"time": False},
          "graph": {"directed": True, "multigraph": False, "graph": {},
                    "nodes": [dict(id=i, **attrs) for i, attrs in nodes.items()],
                    "edges": [dict(source=u, target=v, transfer_data=d)
                              for (u, v, d) in edges]}}
    with open(os.path.join(tmp, wfname), 'w') as f:
        json.dump(wf, f)
    cfg = {"instrument": {"telescope": {
               "total_arrays": 36, "max_ingest_resources": 1,
               "pipelines": {o['name']: {"workflow": wfname, "ingest_demand": 1}
                             for o in observations},
               "observations": observations}},
           "cluster": {"header": {}, "system": {"resources": machines,
                                               "system_bandwidth": 1.0}},
           "buffer": {"hot": {"capacity": 1000, "max_ingest_rate": 100},
                      "cold": {"capacity": 1000, "max_data_rate": 100}},
           "planning": "batch", "scheduling": "batch"}
    path = os.path.join(tmp, 'cfg.json')
    with open(path, 'w') as f:
        json.dump(cfg, f)
    return path


def run(cfgpath, sched, planning, runtime):
    """Run a simulation; return {task id: (task, machine, allocation time)}."""
    records = {}
    orig = Cluster.allocate_task_to_cluster

    def wrapped(self, task, machine, *args, **kwargs):
        ingest = kwargs.get('ingest', args[2] if len(args) > 2 else False)
        if not ingest:
            records[task.id] = (task, machine, self.env.now)
        return orig(self, task, machine, *args, **kwargs)

    Cluster.allocate_task_to_cluster = wrapped
    try:
        env = simpy.Environment()
        sim = Simulation(env=env, config=cfgpath, instrument=Telescope,
                         planning_model=planning, planning_algorithm='batch',
                         scheduling=sched, delay=None, timestamp=0)
        sim.start(runtime=runtime)
    finally:
        Cluster.allocate_task_to_cluster = orig
    return records


def check(records, expected_tasks):
    """C03: precedence + transfer wait + exact start, for every task."""
    errs = []
    if len(records) != expected_tasks:
        errs.append("only %d of %d tasks were allocated"
                    % (len(records), expected_tasks))
    for tid, (task, machine, talloc) in sorted(records.items()):
        if task.ast < 0 or task.aft < 0:
            errs.append("%s never started/finished" % tid)
            continue
        required = talloc
        for pid in task.pred:
            if pid not in records or records[pid][0].aft < 0:
                errs.append("%s allocated at %s although predecessor %s has "
                            "not finished" % (tid, talloc, pid))
                continue
            ptask, pmachine, _ = records[pid]
            if task.ast < ptask.aft:
                errs.append("%s started at %s before predecessor %s finished "
                            "at %s" % (tid, task.ast, pid, ptask.aft))
            arrival = ptask.aft
            if pmachine.id != machine.id:
                arrival += task.io[pid] / machine.bandwidth
            required = max(required, arrival)
        if task.ast != required:
            errs.append("%s on %s started at %s, required start is %s "
                        "(allocated at %s)" % (tid, machine.id, task.ast,
                                               required, talloc))
    return errs


class FixedPlan(BatchPlanning):
    """Tiny static planner: the batch plan plus a planned machine id per
    workflow node (what DynamicSchedulingFromPlan / GreedySchedulingFromPlan
    need)."""

    def __init__(self, placement):
        super().__init__('batch')
        self.placement = placement

    def generate_plan(self, clock, cluster, buffer, observation, max_ingest):
        plan = super().generate_plan(clock, cluster, buffer, observation,
                                     max_ingest)
        for task in plan.tasks:
            task.allocated_machine_id = self.placement[task.graph_id]
        return plan

from topsim.user.schedule.greedy import GreedySchedulingFromPlan
from topsim.user.schedule.dynamic_plan import DynamicSchedulingFromPlan


def main():
    tmp = tempfile.mkdtemp(prefix='c03_demo3_')
    try:
        nodes = {0: dict(comp=40), 1: dict(comp=60), 2: dict(comp=30),
                 3: dict(comp=20)}
        edges = [(0, 1, 50), (1, 2, 20), (2, 3, 70), (1, 3, 10)]
        machines = {"m0": {"flops": 10, "compute_bandwidth": 10},
                    "m1": {"flops": 10, "compute_bandwidth": 5},
                    "m2": {"flops": 10, "compute_bandwidth": 4},
                    "m3": {"flops": 10, "compute_bandwidth": 10}}
        placement = {0: 'm1', 1: 'm1', 2: 'm2', 3: 'm2'}
        obs = [dict(name='a', start=0, duration=5, instrument_demand=1,
                    data_product_rate=2)]
        cfg = make_config(tmp, nodes, edges, machines, obs)
        for sched in (DynamicSchedulingFromPlan(), GreedySchedulingFromPlan()):
            rec = run(cfg, sched, FixedPlan(placement), 200)
            errs = check(rec, len(nodes))
            if not errs:
                got = {t.graph_id: m.id for t, m, _ in rec.values()}
                if got != placement:
                    errs.append("scenario broken: tasks ran on %s" % got)
            if errs:
                print("FAIL: [%r] %s" % (sched, "; ".join(errs)))
                return 1
        print("PASS")
        return 0
    finally:
        shutil.rmtree(tmp, ignore_errors=True)


if __name__ == '__main__':
    sys.exit(main())
