"""demo1 - C07: two observations whose ingest completes in the SAME timestep.

Both must be handed to the scheduler, processed, and their data freed, so that
after the last workflow the hot buffer is back at full free capacity.

usage: demo1.py <path-to-tree>
"""
import json
import logging
import os
import shutil
import sys
import tempfile

tree = os.path.abspath(sys.argv[1])
sys.path.insert(0, tree)
logging.disable(logging.CRITICAL)

import simpy  # noqa: E402
from topsim.core.simulation import Simulation  # noqa: E402
from topsim.user.telescope import Telescope  # noqa: E402
from topsim.user.plan.batch_planning import BatchPlanning  # noqa: E402
from topsim.user.schedule.batch_allocation import BatchProcessing  # noqa: E402

HOT_CAP, COLD_CAP = 1000, 1000
BOUND = 120


def write_workflow(path, comps, edges):
    graph = {"directed": True, "multigraph": False, "graph": {},
             "nodes": [{"id": i, "comp": c} for i, c in enumerate(comps)],
             "edges": [{"source": s, "target": t, "transfer_data": 0}
                       for s, t in edges]}
    with open(path, 'w') as fp:
        json.dump({"header": {"time": False}, "graph": graph}, fp)


def write_config(d):
    write_workflow(os.path.join(d, 'wf.json'), [100, 100], [(0, 1)])
    # 'a' ingests t=1..6 (6 steps), 'b' ingests t=3..6 (4 steps): both
    # complete ingest in timestep 6, and (being admitted after t=0) both
    # ingest processes run before the scheduler's step of that timestep.
    obs = [{"name": "a", "start": 1, "duration": 6, "instrument_demand": 10,
            "data_product_rate": 20},
           {"name": "b", "start": 3, "duration": 4, "instrument_demand": 10,
            "data_product_rate": 30}]
    cfg = {
        "instrument": {"telescope": {
            "total_arrays": 36, "max_ingest_resources": 2,
            "pipelines": {n: {"workflow": "wf.json", "ingest_demand": 1}
                          for n in ("a", "b")},
            "observations": obs}},
        "cluster": {"header": {}, "system": {
            "resources": {"m%d" % i: {"flops": 50, "compute_bandwidth": 10}
                          for i in range(6)},
            "system_bandwidth": 1.0}},
        "buffer": {"hot": {"capacity": HOT_CAP, "max_ingest_rate": 100},
                   "cold": {"capacity": COLD_CAP, "max_data_rate": 50}},
    }
    path = os.path.join(d, 'cfg.json')
    with open(path, 'w') as fp:
        json.dump(cfg, fp)
    return path


def main():
    d = tempfile.mkdtemp(prefix='c07demo1')
    problems = []
    try:
        sim = Simulation(
            env=simpy.Environment(), config=write_config(d),
            instrument=Telescope, planning_model=BatchPlanning('batch'),
            planning_algorithm='batch',
            scheduling=BatchProcessing(min_resources_per_workflow=1,
                                       max_resource_partitions=2),
            delay=None, timestamp=0)
        hot = sim.buffer.hot[0]
        cold = sim.buffer.cold[0]
        observations = sim.instrument.observations
        sim.start(runtime=1)
        done_at = None
        while sim.env.now < BOUND:
            free = hot.current_capacity
            if free < 0 or free > hot.total_capacity:
                problems.append("t=%s hot free %s outside [0, %s]" % (
                    sim.env.now, free, hot.total_capacity))
                break
            resident = sum(o.total_data_size for o in observations
                           if o not in hot.observations['finished'])
            if hot.total_capacity - free != resident:
                problems.append(
                    "t=%s hot used %s != resident data %s" % (
                        sim.env.now, hot.total_capacity - free, resident))
                break
            if sim.is_finished() and sim.env.now > 7:
                done_at = sim.env.now
                break
            sim.resume(until=sim.env.now + 1)
        finished = sorted(o.name for o in hot.observations['finished'])
        if not problems:
            if finished != ['a', 'b']:
                problems.append(
                    "after %s steps only %s had their workflow run and data "
                    "freed (required: ['a', 'b']); still waiting in hot "
                    "buffer: %s" % (
                        sim.env.now, finished,
                        [o.name for o in hot.observations['stored']]))
            if hot.current_capacity != HOT_CAP or \
                    cold.current_capacity != COLD_CAP:
                problems.append(
                    "after the last workflow hot free=%s cold free=%s "
                    "(required %s / %s)" % (
                        hot.current_capacity, cold.current_capacity,
                        HOT_CAP, COLD_CAP))
            if done_at is None:
                problems.append("simulation not finished by t=%s" % BOUND)
    finally:
        shutil.rmtree(d, ignore_errors=True)
    if problems:
        print("FAIL: " + "; ".join(problems))
        return 1
    print("PASS")
    return 0


if __name__ == '__main__':
    sys.exit(main())
