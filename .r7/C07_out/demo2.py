"""demo2 - C07: a cold->hot move that is REFUSED (the hot tier is still busy
moving another observation out) must leave the observation, and its data,
in the cold tier.  Hot free space may never exceed the hot capacity and hot
used space must equal the data actually resident in the hot tier.

Low-level: drives Buffer.move_hot_to_cold / Buffer.move_cold_to_hot as simpy
processes on a hand-built Buffer and then plays the scheduler's part
(has_observations_ready_for_processing / next_observation_for_processing /
mark_observation_finished) for whatever the hot tier offers.

usage: demo2.py <path-to-tree>
"""
import json
import logging
import os
import shutil
import sys
import tempfile

tree = os.path.abspath(sys.argv[1])
sys.path.insert(0, tree)
logging.disable(logging.CRITICAL)

import simpy  # noqa: E402
from topsim.core.config import Config  # noqa: E402
from topsim.core.buffer import Buffer  # noqa: E402
from topsim.core.instrument import Observation  # noqa: E402

HOT_CAP, COLD_CAP = 1000, 1000


class StubPlanner:
    def run(self, observation, buffer, max_ingest):
        return None


def write_config(d):
    cfg = {
        "instrument": {"telescope": {
            "total_arrays": 36, "max_ingest_resources": 1,
            "pipelines": {}, "observations": []}},
        "cluster": {"header": {}, "system": {
            "resources": {"m0": {"flops": 50, "compute_bandwidth": 10}},
            "system_bandwidth": 1.0}},
        "buffer": {"hot": {"capacity": HOT_CAP, "max_ingest_rate": 100},
                   "cold": {"capacity": COLD_CAP, "max_data_rate": 100}},
    }
    path = os.path.join(d, 'cfg.json')
    with open(path, 'w') as fp:
        json.dump(cfg, fp)
    return path


def make_obs(name, size):
    o = Observation(name, start=0, duration=5, demand=1, workflow=None,
                    data_rate=size / 5)
    o.total_data_size = size
    return o


def main():
    d = tempfile.mkdtemp(prefix='c07demo2')
    problems = []
    try:
        env = simpy.Environment()
        buf = Buffer(env, None, StubPlanner(), Config(write_config(d)))
        hot, cold = buf.hot[0], buf.cold[0]
        # Z (250) was moved to the cold tier earlier and waits there.
        z = make_obs('Z', 250)
        cold.observations['stored'].append(z)
        cold.current_capacity -= 250
        # X (500) has just finished ingest and sits in the hot tier.
        x = make_obs('X', 500)
        hot.observations['stored'].append(x)
        hot.current_capacity -= 500

        env.process(buf.move_hot_to_cold(0))   # X starts to leave the hot tier
        env.run(until=1)
        # Now the buffer tries to bring Z back; with X still (fully) reserved
        # as pending transfer the hot tier has no room for Z -> refusal.
        if hot.has_capacity_for(z.total_data_size):
            problems.append("scenario broken: move would not be refused")
        env.process(buf.move_cold_to_hot(0))
        env.run(until=2)
        where = []
        if z in cold.observations['stored']:
            where.append('cold')
        if z in hot.observations['stored']:
            where.append('hot')
        if where != ['cold']:
            problems.append(
                "after the refused cold->hot move Z (whose 250 units are "
                "still in the cold tier) is filed under %s (required: "
                "['cold'])" % where)
        processed = []
        while env.now < 12:
            # scheduler's part: process (zero-length workflow) whatever the
            # hot tier says is ready.
            if buf.has_observations_ready_for_processing():
                obs = buf.next_observation_for_processing()
                buf.mark_observation_finished(obs)
                processed.append(obs.name)
            if hot.current_capacity < 0 or \
                    hot.current_capacity > hot.total_capacity:
                problems.append(
                    "t=%s hot free %s outside [0, %s] (processed from hot "
                    "tier: %s)" % (env.now, hot.current_capacity,
                                   hot.total_capacity, processed))
                break
            env.run(until=env.now + 1)
        if not problems:
            # X entirely in the cold tier, Z never left it.
            if hot.current_capacity != HOT_CAP or \
                    cold.current_capacity != COLD_CAP - 750:
                problems.append(
                    "end: hot free=%s cold free=%s (required %s / %s)" % (
                        hot.current_capacity, cold.current_capacity,
                        HOT_CAP, COLD_CAP - 750))
    finally:
        shutil.rmtree(d, ignore_errors=True)
    if problems:
        print("FAIL: " + "; ".join(problems))
        return 1
    print("PASS")
    return 0


if __name__ == '__main__':
    sys.exit(main())
