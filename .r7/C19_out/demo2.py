"""Demo for bug2 (C19, telescope clause + simulation 'finished' clause).

Telescope.is_idle() may return True only when EVERY observation has finished
and no arrays are in use.  The config lists the observations NOT in
chronological order: 'late' (start 25) is listed first, 'early' (start 0) is
listed last.  After 'early' has been observed and processed, everything but
the telescope is quiet while 'late' is still WAITING; the telescope must not
report idle and the simulation must not report finished.

usage: demo2.py <path-to-tree>
"""
import sys
import os
import json
import shutil
import tempfile
import logging

tree = os.path.abspath(sys.argv[1])
sys.path.insert(0, tree)
logging.disable(logging.CRITICAL)

import simpy  # noqa: E402
from topsim.core.simulation import Simulation  # noqa: E402
from topsim.user.telescope import Telescope  # noqa: E402
from topsim.user.plan.batch_planning import BatchPlanning  # noqa: E402
from topsim.user.schedule.batch_allocation import BatchProcessing  # noqa: E402


def write_inputs(d):
    graph = {"directed": True, "multigraph": False, "graph": {},
             "nodes": [{"id": 0, "comp": 30}, {"id": 1, "comp": 20}],
             "edges": [{"source": 0, "target": 1, "transfer_data": 1}]}
    with open(os.path.join(d, 'wf.json'), 'w') as f:
        json.dump({"header": {}, "graph": graph}, f)
    cfg = {
        "instrument": {"telescope": {
            "total_arrays": 36, "max_ingest_resources": 2,
            "pipelines": {"late": {"workflow": "wf.json",
                                   "ingest_demand": 1},
                          "early": {"workflow": "wf.json",
                                    "ingest_demand": 1}},
            "observations": [{"name": "late", "start": 25, "duration": 4,
                              "instrument_demand": 36,
                              "data_product_rate": 10},
                             {"name": "early", "start": 0, "duration": 5,
                              "instrument_demand": 36,
                              "data_product_rate": 10}]}},
        "cluster": {"header": {}, "system": {
            "resources": {f"m{i}": {"flops": 10, "compute_bandwidth": 10}
                          for i in range(4)},
            "system_bandwidth": 1.0}},
        "buffer": {"hot": {"capacity": 1000, "max_ingest_rate": 50},
                   "cold": {"capacity": 1000, "max_data_rate": 50}},
        "timestep": "seconds"}
    path = os.path.join(d, 'config.json')
    with open(path, 'w') as f:
        json.dump(cfg, f)
    return path


def main():
    d = tempfile.mkdtemp(prefix='c19demo2_')
    try:
        cfg = write_inputs(d)
        sim = Simulation(env=simpy.Environment(), config=cfg,
                         instrument=Telescope,
                         planning_model=BatchPlanning('batch'),
                         planning_algorithm='batch',
                         scheduling=BatchProcessing(
                             min_resources_per_workflow=1),
                         delay=None, timestamp=0)
        from topsim.core.instrument import RunStatus
        sim.start(runtime=1)
        tel = sim.instrument
        problems = []
        end_time = None
        for _ in range(200):
            statuses = [o.status for o in tel.observations]
            truly_idle = (all(st == RunStatus.FINISHED for st in statuses)
                          and tel.telescope_use == 0)
            if tel.is_idle() and not truly_idle:
                problems.append(
                    "t=%s: Telescope.is_idle() is True but observations are "
                    "%s" % (sim.env.now, {o.name: o.status.value
                                          for o in tel.observations}))
            expected_fin = (sim.buffer.is_empty() and sim.cluster.is_idle()
                            and sim.scheduler.is_idle() and truly_idle)
            if sim.is_finished() != expected_fin:
                problems.append(
                    "t=%s: Simulation.is_finished()=%s but the four actor "
                    "conditions give %s" % (sim.env.now, sim.is_finished(),
                                            expected_fin))
            if sim.is_finished():
                end_time = sim.env.now
                break
            sim.resume(sim.env.now + 1)
        unobserved = [o.name for o in tel.observations
                      if o.status != RunStatus.FINISHED]
        if end_time is None:
            problems.append("scenario broken: simulation did not finish")
        elif unobserved:
            problems.append(
                "simulation reported finished at t=%s with observations %s "
                "never completed" % (end_time, unobserved))
        if problems:
            print("FAIL: %s (required: telescope idle only when every "
                  "observation has finished); %d findings" % (
                      problems[0], len(problems)))
            return 1
        print("PASS")
        return 0
    finally:
        shutil.rmtree(d, ignore_errors=True)


if __name__ == '__main__':
    sys.exit(main())
