"""Demo for bug1 (C19, buffer clause).

Buffer.is_empty() may return True only when BOTH tiers are at full free
capacity.  A realistic, very large buffer (5e11 / 2.5e11, as in the shipped
configs) ingests a very small observation (50 units).  While those 50 units
sit in the hot tier the buffer must not report empty.

usage: demo1.py <path-to-tree>
"""
import sys
import os
import json
import shutil
import tempfile
import logging

tree = os.path.abspath(sys.argv[1])
sys.path.insert(0, tree)
logging.disable(logging.CRITICAL)

import simpy  # noqa: E402
from topsim.core.simulation import Simulation  # noqa: E402
from topsim.user.telescope import Telescope  # noqa: E402
from topsim.user.plan.batch_planning import BatchPlanning  # noqa: E402
from topsim.user.schedule.batch_allocation import BatchProcessing  # noqa: E402


def write_inputs(d):
    graph = {"directed": True, "multigraph": False, "graph": {},
             "nodes": [{"id": 0, "comp": 30}, {"id": 1, "comp": 20}],
             "edges": [{"source": 0, "target": 1, "transfer_data": 1}]}
    with open(os.path.join(d, 'wf.json'), 'w') as f:
        json.dump({"header": {}, "graph": graph}, f)
    cfg = {
        "instrument": {"telescope": {
            "total_arrays": 36, "max_ingest_resources": 2,
            "pipelines": {"tiny": {"workflow": "wf.json",
                                   "ingest_demand": 1}},
            "observations": [{"name": "tiny", "start": 0, "duration": 5,
                              "instrument_demand": 36,
                              "data_product_rate": 10}]}},
        "cluster": {"header": {}, "system": {
            "resources": {f"m{i}": {"flops": 10, "compute_bandwidth": 10}
                          for i in range(4)},
            "system_bandwidth": 1.0}},
        "buffer": {"hot": {"capacity": 500000000000.0,
                           "max_ingest_rate": 83333333.0},
                   "cold": {"capacity": 250000000000.0,
                            "max_data_rate": 33333333.0}},
        "timestep": "seconds"}
    path = os.path.join(d, 'config.json')
    with open(path, 'w') as f:
        json.dump(cfg, f)
    return path


def main():
    d = tempfile.mkdtemp(prefix='c19demo1_')
    try:
        cfg = write_inputs(d)
        sim = Simulation(env=simpy.Environment(), config=cfg,
                         instrument=Telescope,
                         planning_model=BatchPlanning('batch'),
                         planning_algorithm='batch',
                         scheduling=BatchProcessing(
                             min_resources_per_workflow=1),
                         delay=None, timestamp=0)
        sim.start(runtime=1)
        problems = []
        saw_data = False
        for _ in range(60):
            hot = sim.buffer.hot[0]
            cold = sim.buffer.cold[0]
            truly_empty = (hot.current_capacity == hot.total_capacity
                           and cold.current_capacity == cold.total_capacity)
            if not truly_empty:
                saw_data = True
            reported = sim.buffer.is_empty()
            if reported and not truly_empty:
                problems.append(
                    "t=%s: Buffer.is_empty() is True but hot tier holds %s "
                    "units (free %r of %r)" % (
                        sim.env.now,
                        hot.total_capacity - hot.current_capacity,
                        hot.current_capacity, hot.total_capacity))
            expected_fin = (truly_empty and sim.cluster.is_idle()
                            and sim.scheduler.is_idle()
                            and sim.instrument.is_idle())
            if sim.is_finished() != expected_fin:
                problems.append("t=%s: is_finished()=%s but expected %s" % (
                    sim.env.now, sim.is_finished(), expected_fin))
            if sim.is_finished():
                break
            sim.resume(sim.env.now + 1)
        if not saw_data:
            problems.append("scenario broken: buffer never held data")
        if problems:
            print("FAIL: %s (required: is_empty() only when both tiers are "
                  "at full free capacity); %d violating timesteps" % (
                      problems[0], len(problems)))
            return 1
        print("PASS")
        return 0
    finally:
        shutil.rmtree(d, ignore_errors=True)


if __name__ == '__main__':
    sys.exit(main())
