"""Demo for bug3 (C19, cluster clause).

Cluster.is_idle() may return True only when no task is running and no machine
is busy with ingest or workflow work.  Two observations OVERLAP on the
telescope (18 + 18 of 36 arrays, two ingest machines allowed): the short one
('short') ends - and its one-task workflow completes - while the long one
('long') is still being ingested on a cluster machine.  During that window the
cluster has a running ingest task on a machine of the ingest pool and must not
report idle.

usage: demo3.py <path-to-tree>
"""
import sys
import os
import json
import shutil
import tempfile
import logging

tree = os.path.abspath(sys.argv[1])
sys.path.insert(0, tree)
logging.disable(logging.CRITICAL)

import simpy  # noqa: E402
from topsim.core.simulation import Simulation  # noqa: E402
from topsim.user.telescope import Telescope  # noqa: E402
from topsim.user.plan.batch_planning import BatchPlanning  # noqa: E402
from topsim.user.schedule.batch_allocation import BatchProcessing  # noqa: E402


def write_inputs(d):
    graph = {"directed": True, "multigraph": False, "graph": {},
             "nodes": [{"id": 0, "comp": 20}],
             "edges": []}
    with open(os.path.join(d, 'wf.json'), 'w') as f:
        json.dump({"header": {}, "graph": graph}, f)
    cfg = {
        "instrument": {"telescope": {
            "total_arrays": 36, "max_ingest_resources": 2,
            "pipelines": {"short": {"workflow": "wf.json",
                                    "ingest_demand": 1},
                          "long": {"workflow": "wf.json",
                                   "ingest_demand": 1}},
            "observations": [{"name": "short", "start": 0, "duration": 3,
                              "instrument_demand": 18,
                              "data_product_rate": 10},
                             {"name": "long", "start": 1, "duration": 16,
                              "instrument_demand": 18,
                              "data_product_rate": 10}]}},
        "cluster": {"header": {}, "system": {
            "resources": {f"m{i}": {"flops": 10, "compute_bandwidth": 10}
                          for i in range(6)},
            "system_bandwidth": 1.0}},
        "buffer": {"hot": {"capacity": 1000, "max_ingest_rate": 50},
                   "cold": {"capacity": 1000, "max_data_rate": 50}},
        "timestep": "seconds"}
    path = os.path.join(d, 'config.json')
    with open(path, 'w') as f:
        json.dump(cfg, f)
    return path


def main():
    d = tempfile.mkdtemp(prefix='c19demo3_')
    try:
        cfg = write_inputs(d)
        sim = Simulation(env=simpy.Environment(), config=cfg,
                         instrument=Telescope,
                         planning_model=BatchPlanning('batch'),
                         planning_algorithm='batch',
                         scheduling=BatchProcessing(
                             min_resources_per_workflow=1),
                         delay=None, timestamp=0)
        sim.start(runtime=1)
        cl = sim.cluster._clusters['default']
        problems = []
        ingest_only_steps = 0
        finished = False
        for _ in range(200):
            running = list(cl['tasks']['running'])
            busy = list(cl['resources']['occupied']) + list(
                cl['resources']['ingest'])
            truly_idle = (not running and not cl['tasks']['waiting']
                          and not busy)
            if running and not cl['resources']['occupied']:
                ingest_only_steps += 1
            if sim.cluster.is_idle() and not truly_idle:
                problems.append(
                    "t=%s: Cluster.is_idle() is True but running tasks=%s, "
                    "busy machines=%s" % (sim.env.now, running, busy))
            expected_fin = (sim.buffer.is_empty() and truly_idle
                            and sim.scheduler.is_idle()
                            and sim.instrument.is_idle())
            if sim.is_finished() != expected_fin:
                problems.append(
                    "t=%s: Simulation.is_finished()=%s but the four actor "
                    "conditions give %s" % (sim.env.now, sim.is_finished(),
                                            expected_fin))
            if sim.is_finished():
                finished = True
                break
            sim.resume(sim.env.now + 1)
        if not finished:
            problems.append("scenario broken: simulation did not finish")
        if ingest_only_steps == 0:
            problems.append("scenario broken: never saw ingest-only work")
        if problems:
            print("FAIL: %s (required: cluster idle only when no task is "
                  "running and no machine is busy with ingest or workflow "
                  "work); %d findings" % (problems[0], len(problems)))
            return 1
        print("PASS")
        return 0
    finally:
        shutil.rmtree(d, ignore_errors=True)


if __name__ == '__main__':
    sys.exit(main())
