"""Demo for C12 bug 2: tasks that hold a machine while they fetch their
predecessors' data from another machine are running tasks of the table."""
import sys, os, json, tempfile, shutil, logging

if len(sys.argv) < 2:
    print("usage: demo.py <path-to-tree>")
    sys.exit(2)
sys.path.insert(0, os.path.abspath(sys.argv[1]))
logging.disable(logging.CRITICAL)

import simpy
from topsim.core.simulation import Simulation
from topsim.core.instrument import RunStatus
from topsim.user.telescope import Telescope
from topsim.user.plan.batch_planning import BatchPlanning
from topsim.user.schedule.batch_allocation import BatchProcessing
from topsim.user.schedule.queue_allocation import QueueProcessing

COLUMNS = ['available_resources', 'ingest_resources', 'running_tasks',
           'finished_tasks', 'provisioned_observations', 'hot_buffer',
           'cold_buffer', 'stored', 'observations_waiting',
           'observations_finished', 'scheduler_observation_queue']


def workflow(nodes, edges):
    """networkx node-link workflow: nodes = [comp, ...], edges = [(u, v, data)]"""
    return {"header": {}, "graph": {
        "directed": True, "multigraph": False, "graph": {},
        "nodes": [{"id": i, "comp": c} for i, c in enumerate(nodes)],
        "edges": [{"source": s, "target": t, "transfer_data": d}
                  for s, t, d in edges]}}


def make_config(d, observations, pipelines, workflows, n_machines=6,
                hot=1000, cold=1000, hot_rate=100, cold_rate=50,
                max_ingest=4, arrays=36, flops=10, bw=10):
    for name, wf in workflows.items():
        with open(os.path.join(d, name), 'w') as f:
            json.dump(wf, f)
    cfg = {
        "instrument": {"telescope": {
            "total_arrays": arrays, "max_ingest_resources": max_ingest,
            "pipelines": pipelines, "observations": observations}},
        "cluster": {"header": {}, "system": {
            "resources": {f"m{i}": {"flops": flops, "compute_bandwidth": bw}
                          for i in range(n_machines)},
            "system_bandwidth": 1.0}},
        "buffer": {"hot": {"capacity": hot, "max_ingest_rate": hot_rate},
                   "cold": {"capacity": cold, "max_data_rate": cold_rate}},
        "timestep": "seconds"}
    p = os.path.join(d, 'config.json')
    with open(p, 'w') as f:
        json.dump(cfg, f)
    return p


def true_state(sim):
    """The state of the actors, read from their primary data structures."""
    cl = sim.cluster._clusters['default']
    res = cl['resources']
    hot, cold = sim.buffer.hot[0], sim.buffer.cold[0]
    obs = sim.instrument.observations
    return {
        'available_resources':
            len(sim.cluster.machines) - len(res['occupied'])
            - len(res['ingest']),
        'ingest_resources': len(res['ingest']),
        'running_tasks': len(cl['tasks']['running']),
        'finished_tasks':
            sum(1 for done in cl['tasks']['finished'].values() if done),
        'provisioned_observations': len(res['idle']),
        'hot_buffer': hot.current_capacity,
        'cold_buffer': cold.current_capacity,
        'stored': len(hot.observations['stored'])
                  + len(cold.observations['stored']),
        'observations_waiting':
            sum(1 for o in obs if o.status == RunStatus.WAITING),
        'observations_finished':
            sum(1 for o in obs if o.status == RunStatus.FINISHED),
        'scheduler_observation_queue': len(sim.scheduler.observation_queue),
    }


def probe(sim, log):
    """Registered before Simulation.start(), so at every timestep it runs
    before every actor: it sees the state at the beginning of the step."""
    while True:
        log.append((sim.env.now, true_state(sim)))
        yield sim.env.timeout(1)


def build(cfg, scheduling):
    env = simpy.Environment()
    sim = Simulation(env=env, config=cfg, instrument=Telescope,
                     planning_model=BatchPlanning('batch'),
                     planning_algorithm='batch', scheduling=scheduling,
                     delay=None, timestamp=0)
    log = []
    env.process(probe(sim, log))
    return sim, log


def compare(df, log, label):
    """Return a list of discrepancies between the table and the true state."""
    errs = []
    if len(df) != len(log):
        errs.append(f"{label}: table has {len(df)} rows, required exactly "
                    f"{len(log)} (one per simulated timestep)")
    for i, (t, state) in enumerate(log[:len(df)]):
        for k in COLUMNS:
            if k not in df.columns:
                errs.append(f"{label}: column {k} missing")
                return errs
            if df.iloc[i][k] != state[k]:
                errs.append(f"{label}: row {i} (t={t}) {k}: table reports "
                            f"{df.iloc[i][k]}, true state is {state[k]}")
    return errs


def finish(errs):
    if errs:
        print("FAIL: " + "; ".join(errs[:4])
              + (f" ... ({len(errs)} discrepancies)" if len(errs) > 4 else ""))
        sys.exit(1)
    print("PASS")
    sys.exit(0)


def main():
    d = tempfile.mkdtemp(prefix='c12demo2_')
    errs = []
    try:
        # Fork/join workflow whose edges carry enough data that a successor
        # placed on another machine than its predecessor first spends several
        # timesteps on that machine fetching its input (60 / bandwidth 10 = 6
        # timesteps) before it computes.
        wf = workflow([30, 40, 20, 10],
                      [(0, 1, 60), (0, 2, 60), (1, 3, 10), (2, 3, 10)])
        obs = [dict(name='a', start=0, duration=5, instrument_demand=10,
                    data_product_rate=10),
               dict(name='b', start=2, duration=6, instrument_demand=10,
                    data_product_rate=20)]
        pipes = {'a': {'workflow': 'wf.json', 'ingest_demand': 2},
                 'b': {'workflow': 'wf.json', 'ingest_demand': 1}}
        cfg = make_config(d, obs, pipes, {'wf.json': wf})
        for name, sched in (
                ('batch', BatchProcessing(min_resources_per_workflow=1,
                                          max_resource_partitions=2)),
                ('queue', QueueProcessing())):
            sim, log = build(cfg, sched)
            df, _ = sim.start(runtime=40)
            errs += compare(df, log, name)
            # every machine is either free or holds exactly one task
            total = len(sim.cluster.machines)
            for i in range(len(df)):
                row = df.iloc[i]
                if row['available_resources'] + row['running_tasks'] != total:
                    errs.append(
                        f"{name}: row {i}: available_resources "
                        f"{row['available_resources']} + running_tasks "
                        f"{row['running_tasks']} != {total} machines")
    finally:
        shutil.rmtree(d, ignore_errors=True)
    finish(errs)


if __name__ == '__main__':
    main()
