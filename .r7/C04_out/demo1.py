import sys, os, json, tempfile, shutil, logging

if len(sys.argv) != 2:
    print("usage: demo.py <path-to-tree>")
    sys.exit(2)
sys.path.insert(0, os.path.abspath(sys.argv[1]))
logging.disable(logging.CRITICAL)

import simpy
from topsim.core.simulation import Simulation
from topsim.user.telescope import Telescope
from topsim.user.plan.batch_planning import BatchPlanning
from topsim.user.schedule.batch_allocation import BatchProcessing
from topsim.user.schedule.queue_allocation import QueueProcessing
from topsim.core.instrument import RunStatus


def workflow(comps, edges):
    """networkx node-link graph (key "edges") as the planner expects it."""
    return {"header": {}, "graph": {
        "directed": True, "multigraph": False, "graph": {},
        "nodes": [{"id": i, "comp": c} for i, c in enumerate(comps)],
        "edges": [{"source": s, "target": t, "transfer_data": 0}
                  for s, t in edges]}}


def make_config(d, n_machines, observations, pipelines, workflows,
                max_ingest=2, hot=100, cold=100):
    for name, wf in workflows.items():
        with open(os.path.join(d, name), 'w') as f:
            json.dump(wf, f)
    cfg = {
        "instrument": {"telescope": {
            "total_arrays": 36, "max_ingest_resources": max_ingest,
            "pipelines": pipelines, "observations": observations}},
        "cluster": {"header": {}, "system": {
            "resources": {f"m{i}": {"flops": 10, "compute_bandwidth": 10}
                          for i in range(n_machines)},
            "system_bandwidth": 1.0}},
        "buffer": {"hot": {"capacity": hot, "max_ingest_rate": 10},
                   "cold": {"capacity": cold, "max_data_rate": 10}},
        "timestep": "seconds"}
    p = os.path.join(d, 'cfg.json')
    with open(p, 'w') as f:
        json.dump(cfg, f)
    return p


def quiescence_problems(sim, tasks_df, expected):
    """expected: {obs name: (n ingest tasks, n workflow tasks)}"""
    problems = []
    for o in sim.instrument.observations:
        if o.status is not RunStatus.FINISHED:
            problems.append(f"observation {o.name} is {o.status.value}, "
                            f"required FINISHED")
    c = sim.cluster._clusters['default']
    n = len(sim.cluster.machines)
    if c['tasks']['running']:
        problems.append(f"tasks still running: {c['tasks']['running']}")
    if sim.scheduler.observation_queue:
        problems.append("observations still queued: "
                        f"{[o.name for o in sim.scheduler.observation_queue]}")
    if c['resources']['idle']:
        problems.append(f"reservations still held: {c['resources']['idle']}")
    avail = sorted(m.id for m in c['resources']['available'])
    if avail != sorted(m.id for m in sim.cluster.machines):
        problems.append(f"available machines {avail}, required all {n}")
    if c['resources']['occupied'] or c['resources']['ingest']:
        problems.append("machines still occupied/ingesting")
    h, co = sim.buffer.hot[0], sim.buffer.cold[0]
    if h.current_capacity != h.total_capacity:
        problems.append(f"hot buffer free {h.current_capacity} of "
                        f"{h.total_capacity}")
    if co.current_capacity != co.total_capacity:
        problems.append(f"cold buffer free {co.current_capacity} of "
                        f"{co.total_capacity}")
    rows = list(tasks_df.index)
    for name, (n_ing, n_wf) in expected.items():
        ing = sorted(r for r in rows if r.startswith(f"{name}_ingest_"))
        if ing != [f"{name}_ingest_t{i}" for i in range(n_ing)]:
            problems.append(f"ingest rows of {name}: {ing}")
        wf = sorted(int(r.split('_')[-1]) for r in rows
                    if r.startswith(f"{name}_") and '_ingest_' not in r)
        if wf != list(range(n_wf)):
            problems.append(f"workflow task rows of {name}: {wf}, required "
                            f"{list(range(n_wf))}")
    total = sum(a + b for a, b in expected.values())
    if len(rows) != total or len(set(rows)) != len(rows):
        problems.append(f"{len(rows)} task rows, required {total}")
    for r in rows:
        if not (tasks_df.loc[r, 'ast'] >= 0 and
                tasks_df.loc[r, 'aft'] > tasks_df.loc[r, 'ast']):
            problems.append(f"task {r} has no valid execution interval")
    return problems


def verdict(problems):
    if problems:
        print("FAIL: " + "; ".join(str(p) for p in problems))
        sys.exit(1)
    print("PASS")
    sys.exit(0)


# Demo 1: two workflows are in the scheduler queue at the same time
# (QueueProcessing).  Workflow "a" (queued first) executes its last task
# while the longer workflow "b" (queued second) is still active.  A bounded
# run (80 timesteps; the clean tree is quiescent at t=42) must end with
# everything executed once and the system quiescent.
BOUND = 80
d = tempfile.mkdtemp(prefix='c04_demo1_')
problems = []
try:
    cfg = make_config(
        d, 6,
        [{"name": "a", "start": 0, "duration": 4, "instrument_demand": 36,
          "data_product_rate": 2},
         {"name": "b", "start": 5, "duration": 4, "instrument_demand": 36,
          "data_product_rate": 2}],
        {"a": {"workflow": "wfa.json", "ingest_demand": 2},
         "b": {"workflow": "wfb.json", "ingest_demand": 2}},
        {"wfa.json": workflow([100, 100], [(0, 1)]),
         "wfb.json": workflow([30, 300], [(0, 1)])})
    sim = Simulation(env=simpy.Environment(), config=cfg,
                     instrument=Telescope,
                     planning_model=BatchPlanning('batch'),
                     planning_algorithm='batch',
                     scheduling=QueueProcessing(), delay=None, timestamp=0)
    try:
        _, tasks = sim.start(runtime=BOUND)
    except Exception as e:  # noqa
        problems.append(f"run raised {type(e).__name__}: {e}")
    else:
        if not sim.is_finished():
            problems.append(f"simulation not finished after {BOUND} "
                            f"timesteps (clean tree finishes at 42)")
        problems += quiescence_problems(sim, tasks,
                                        {"a": (2, 2), "b": (2, 2)})
finally:
    shutil.rmtree(d, ignore_errors=True)
verdict(problems)
