"""
demo2: two hot -> cold moves that OVERLAP in time (the second one is started
one timestep after the first and, being smaller, completes first).

Required (C18): every observation ends up stored in exactly one tier (the
cold one), exactly once, and both tiers' free space changes by exactly the
sizes moved; data is conserved at every timestep.

usage: python demo2.py <path-to-tree>
"""
import contextlib
import io
import sys

sys.path.insert(0, sys.argv[1])

import simpy  # noqa: E402

from topsim.core.buffer import Buffer, HotBuffer, ColdBuffer  # noqa: E402
from topsim.core.instrument import Observation  # noqa: E402


class _Cfg:
    def __init__(self, hot, cold):
        self._hot, self._cold = hot, cold

    def parse_buffer_config(self):
        return {0: self._hot}, {0: self._cold}


def _obs(name, size):
    o = Observation(name, 0, 1, 1, None, data_rate=1)
    o.total_data_size = size
    return o


def _count(tier, o):
    n = tier.observations['stored'].count(o)
    if tier.observations['transfer'] is o:
        n += 1
    for key in ('scheduled', 'finished'):
        n += tier.observations.get(key, []).count(o)
    return n


def scenario(first_size, second_size, gap, hot_rate=5, cold_rate=2):
    """`first` starts moving at t=0, `second` at t=gap."""
    env = simpy.Environment()
    hot = HotBuffer(capacity=200, max_ingest_data_rate=hot_rate)
    cold = ColdBuffer(capacity=200, max_data_rate=cold_rate)
    buf = Buffer(env, None, None, _Cfg(hot, cold))

    first = _obs('first', first_size)
    second = _obs('second', second_size)
    # observation_for_transfer() takes the LAST stored observation
    for o in (second, first):
        hot.observations['stored'].append(o)
        hot.current_capacity -= o.total_data_size
    hot0, cold0 = hot.current_capacity, cold.current_capacity
    total0 = hot0 + cold0

    problems = []
    procs = [env.process(buf.move_hot_to_cold(0))]
    horizon = gap + (first_size + second_size) // cold_rate + 5
    for t in range(1, horizon):
        if t - 1 == gap:
            procs.append(env.process(buf.move_hot_to_cold(0)))
        env.run(until=t)
        if hot.current_capacity + cold.current_capacity != total0:
            problems.append(
                f"t={t - 1}: hot.free+cold.free="
                f"{hot.current_capacity + cold.current_capacity}, "
                f"required {total0}"
            )
            break
    for p in procs:
        if p.is_alive or p.value is not True:
            problems.append("a move did not complete / was refused")
    for o in (first, second):
        h, c = _count(hot, o), _count(cold, o)
        if (h, c) != (0, 1):
            problems.append(
                f"observation '{o.name}' is held {h}x by the hot tier and "
                f"{c}x by the cold tier, required 0x and 1x"
            )
    moved = first_size + second_size
    if hot.current_capacity != hot0 + moved:
        problems.append(f"hot free {hot.current_capacity}, required "
                        f"{hot0 + moved}")
    if cold.current_capacity != cold0 - moved:
        problems.append(f"cold free {cold.current_capacity}, required "
                        f"{cold0 - moved}")
    if len(cold.observations['stored']) != 2:
        problems.append(
            f"cold tier stores "
            f"{[o.name for o in cold.observations['stored']]}, required "
            f"'first' and 'second' once each"
        )
    return problems


def main():
    failures = []
    with contextlib.redirect_stdout(io.StringIO()):
        for first_size, second_size, gap in [
            (6, 20, 5),    # no overlap: first is done before second starts
            (6, 20, 1),    # overlap, first (older move) completes first
            (20, 3, 1),    # overlap, the LATER move completes first
            (21, 4, 3),    # same, partial last chunks
        ]:
            for p in scenario(first_size, second_size, gap):
                failures.append(
                    f"[sizes {first_size},{second_size} gap {gap}] {p}"
                )
    if failures:
        print("FAIL: " + "; ".join(failures[:4]))
        return 1
    print("PASS")
    return 0


if __name__ == '__main__':
    sys.exit(main())
