"""
demo3: a move whose destination lacks room is REFUSED, in both directions,
and afterwards, once room has been made, the same move is retried.

Required (C18): the refused move leaves everything as it was - same free
space in both tiers, the observation still stored (once) in the source tier
only, no transfer pending - and the retried move then leaves the observation
stored in exactly the destination tier with both tiers' free space adjusted
by exactly its size.

usage: python demo3.py <path-to-tree>
"""
import contextlib
import io
import sys

sys.path.insert(0, sys.argv[1])

import simpy  # noqa: E402

from topsim.core.buffer import Buffer, HotBuffer, ColdBuffer  # noqa: E402
from topsim.core.instrument import Observation  # noqa: E402


class _Cfg:
    def __init__(self, hot, cold):
        self._hot, self._cold = hot, cold

    def parse_buffer_config(self):
        return {0: self._hot}, {0: self._cold}


def _obs(name, size):
    o = Observation(name, 0, 1, 1, None, data_rate=1)
    o.total_data_size = size
    return o


def _snapshot(hot, cold):
    return {
        'hot.free': hot.current_capacity,
        'cold.free': cold.current_capacity,
        'hot.stored': [o.name for o in hot.observations['stored']],
        'cold.stored': [o.name for o in cold.observations['stored']],
        'hot.transfer': getattr(hot.observations['transfer'], 'name', None),
        'cold.transfer': getattr(cold.observations['transfer'], 'name', None),
    }


def _diff(before, after):
    return ", ".join(
        f"{k}: {before[k]!r} -> {after[k]!r}"
        for k in before if before[k] != after[k]
    )


def scenario(direction, size, blocker_size, hot_rate, cold_rate):
    """
    direction 'c2h': `mover` sits in the cold tier, the hot tier is filled by
    `blocker` so that it lacks room; 'h2c' is the mirror image.
    """
    env = simpy.Environment()
    hot = HotBuffer(capacity=100, max_ingest_data_rate=hot_rate)
    cold = ColdBuffer(capacity=100, max_data_rate=cold_rate)
    buf = Buffer(env, None, None, _Cfg(hot, cold))
    src, dst = (cold, hot) if direction == 'c2h' else (hot, cold)
    move = buf.move_cold_to_hot if direction == 'c2h' else buf.move_hot_to_cold

    mover = _obs('mover', size)
    blocker = _obs('blocker', blocker_size)
    src.observations['stored'].append(mover)
    src.current_capacity -= size
    dst.observations['stored'].append(blocker)
    dst.current_capacity -= blocker_size

    problems = []
    before = _snapshot(hot, cold)
    proc = env.process(move(0))
    env.run(until=3)
    if proc.is_alive or proc.value is not False:
        problems.append(
            f"{direction}: move of {size} into {dst.current_capacity} free "
            f"was not refused"
        )
        return problems
    after = _snapshot(hot, cold)
    if after != before:
        problems.append(
            f"{direction}: refused move changed state ({_diff(before, after)})"
            f", required everything as it was"
        )

    # make room in the destination and retry
    dst.observations['stored'].remove(blocker)
    dst.current_capacity += blocker_size
    src_free, dst_free = src.current_capacity, dst.current_capacity
    if mover not in src.observations['stored']:
        problems.append(
            f"{direction}: after the refusal the source tier no longer "
            f"stores the observation, the move cannot be retried"
        )
        return problems
    proc = env.process(move(0))
    env.run(until=env.now + size // min(hot_rate, cold_rate) + 3)
    if proc.is_alive or proc.value is not True:
        problems.append(f"{direction}: retried move did not complete")
    held = (src.observations['stored'].count(mover),
            dst.observations['stored'].count(mover))
    if held != (0, 1):
        problems.append(
            f"{direction}: after the retried move the observation is stored "
            f"{held[0]}x in the source and {held[1]}x in the destination "
            f"tier, required 0x and 1x"
        )
    if (src.current_capacity, dst.current_capacity) != \
            (src_free + size, dst_free - size):
        problems.append(
            f"{direction}: free space source/destination "
            f"{src.current_capacity}/{dst.current_capacity}, required "
            f"{src_free + size}/{dst_free - size}"
        )
    return problems


def main():
    failures = []
    with contextlib.redirect_stdout(io.StringIO()):
        for args in [
            ('h2c', 30, 80, 5, 2),
            ('c2h', 30, 80, 5, 2),
            ('c2h', 31, 70, 2, 5),
            ('h2c', 31, 70, 5, 5),
        ]:
            failures.extend(scenario(*args))
    if failures:
        print("FAIL: " + "; ".join(failures[:3]))
        return 1
    print("PASS")
    return 0


if __name__ == '__main__':
    sys.exit(main())
