"""
demo1: cold -> hot move of an observation whose size is NOT a multiple of the
transfer rate, while the cold tier also keeps ANOTHER observation resident.

Required (C18): at every timestep what leaves the cold tier enters the hot
tier (hot.free + cold.free is constant), the move takes ceil(size/rate) steps
and at the end cold free space grew / hot free space shrank by exactly `size`.

usage: python demo1.py <path-to-tree>
"""
import contextlib
import io
import math
import sys

sys.path.insert(0, sys.argv[1])

import simpy  # noqa: E402

from topsim.core.buffer import Buffer, HotBuffer, ColdBuffer  # noqa: E402
from topsim.core.instrument import Observation  # noqa: E402


class _Cfg:
    def __init__(self, hot, cold):
        self._hot, self._cold = hot, cold

    def parse_buffer_config(self):
        return {0: self._hot}, {0: self._cold}


def _obs(name, size):
    o = Observation(name, 0, 1, 1, None, data_rate=1)
    o.total_data_size = size
    return o


def scenario(hot_rate, cold_rate, size, resident_size):
    env = simpy.Environment()
    hot = HotBuffer(capacity=100, max_ingest_data_rate=hot_rate)
    cold = ColdBuffer(capacity=100, max_data_rate=cold_rate)
    buf = Buffer(env, None, None, _Cfg(hot, cold))

    resident = _obs('resident', resident_size)
    moving = _obs('moving', size)
    present = [resident, moving] if resident_size else [moving]
    for o in present:  # moving is last => it is the one popped
        cold.observations['stored'].append(o)
        cold.current_capacity -= o.total_data_size

    hot0, cold0 = hot.current_capacity, cold.current_capacity
    total0 = hot0 + cold0
    rate = min(hot_rate, cold_rate)
    need_steps = math.ceil(size / rate)

    proc = env.process(buf.move_cold_to_hot(0))
    problems = []
    steps = 0
    prev = (hot0, cold0)
    for t in range(1, need_steps + 4):
        env.run(until=t)
        cur = (hot.current_capacity, cold.current_capacity)
        if cur != prev:
            steps += 1
            entered = prev[0] - cur[0]
            if cur[1] - prev[1] != entered:
                problems.append(
                    f"t={t - 1}: cold released {cur[1] - prev[1]} but hot "
                    f"received {entered}"
                )
            if max(entered, cur[1] - prev[1]) > rate:
                problems.append(f"t={t - 1}: moved more than rate {rate}")
        if sum(cur) != total0:
            problems.append(
                f"t={t - 1}: hot.free+cold.free = {sum(cur)}, required "
                f"{total0}"
            )
        prev = cur
    if proc.is_alive or proc.value is not True:
        problems.append("move did not complete / was refused")
    if steps != need_steps:
        problems.append(f"took {steps} transfer steps, required {need_steps}")
    if cold.current_capacity != cold0 + size:
        problems.append(
            f"cold free space {cold.current_capacity}, required "
            f"{cold0 + size}"
        )
    if hot.current_capacity != hot0 - size:
        problems.append(
            f"hot free space {hot.current_capacity}, required {hot0 - size}"
        )
    where = (hot.observations['stored'].count(moving),
             cold.observations['stored'].count(moving))
    if where != (1, 0):
        problems.append(f"moving obs stored (hot,cold) x{where}, required "
                        f"(1, 0)")
    if cold.observations['stored'] != present[:-1]:
        problems.append("resident observation disturbed")
    return problems


def main():
    failures = []
    with contextlib.redirect_stdout(io.StringIO()):
        for hot_rate, cold_rate, size, resident in [
            (5, 2, 8, 10),   # multiple of the rate
            (5, 2, 7, 10),   # cold slower, partial last chunk, resident obs
            (3, 5, 10, 20),  # hot slower, partial last chunk, resident obs
            (5, 2, 7, 0),    # nothing else resident
            (4, 4, 1, 50),   # single partial chunk
        ]:
            for p in scenario(hot_rate, cold_rate, size, resident):
                failures.append(
                    f"[hot_rate={hot_rate} cold_rate={cold_rate} size={size} "
                    f"resident={resident}] {p}"
                )
    if failures:
        print("FAIL: " + "; ".join(failures[:4]))
        return 1
    print("PASS")
    return 0


if __name__ == '__main__':
    sys.exit(main())
