"""
demo1 - C15: the delay model never fails and never shortens.

Sweeps DelayModel.generate_delay over small whole-timestep runtimes
(including 0), the 'normal' and 'poisson' distributions, all degrees and a
range of seeds with probability 1.  For every combination the call must
return (no exception) a duration >= runtime, == runtime for runtime 0 and for
degree NONE / probability 0, and the same value when called again.

usage: python demo1.py <path-to-tree>
"""
import sys

sys.path.insert(0, sys.argv[1])

from topsim.core.delay import DelayModel  # noqa: E402


def main():
    degrees = [DelayModel.DelayDegree.NONE, DelayModel.DelayDegree.LOW,
               DelayModel.DelayDegree.MID, DelayModel.DelayDegree.HIGH]
    problems = []
    checked = 0
    for dist in ('normal', 'poisson'):
        for degree in degrees:
            for seed in range(0, 25):
                for runtime in range(0, 12):
                    for prob in (0.0, 1.0):
                        checked += 1
                        dm = DelayModel(prob, dist, degree, seed)
                        label = (f"dist={dist} degree={degree.name} "
                                 f"seed={seed} prob={prob} runtime={runtime}")
                        try:
                            d1 = dm.generate_delay(runtime)
                            d2 = dm.generate_delay(runtime)
                        except Exception as exc:  # noqa: BLE001
                            problems.append(
                                f"{label}: generate_delay raised "
                                f"{type(exc).__name__}: {exc} (required: a "
                                f"duration >= {runtime}, never a failure)")
                            continue
                        if d1 < runtime:
                            problems.append(
                                f"{label}: returned {d1} < runtime")
                        if d1 != d2:
                            problems.append(
                                f"{label}: not repeatable ({d1} vs {d2})")
                        if (runtime == 0 or prob == 0.0
                                or degree is DelayModel.DelayDegree.NONE):
                            if d1 != runtime:
                                problems.append(
                                    f"{label}: returned {d1}, required "
                                    f"exactly {runtime}")
    if problems:
        print(f"FAIL: {len(problems)} of {checked} combinations violate the "
              f"delay-model contract; first: {problems[0]}")
        return 1
    print("PASS")
    return 0


if __name__ == '__main__':
    sys.exit(main())
