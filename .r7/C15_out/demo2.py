"""
demo2 - C15: whenever a delay is actually added to a task, the task is
flagged as delayed and the scheduler reports a delayed schedule once the task
has completed.

Scenario: a task was planned pessimistically (est=0, eft=40, i.e. 40
timesteps), but is given a machine on which its FLOPs only need 10 timesteps,
and it starts on time.  The delay model adds a few timesteps to those 10.  The
task therefore still finishes before its planned finish time - but a delay
WAS added by the delay model, so the task must carry delay_flag and the
scheduler must report DELAYED after it has completed.

usage: python demo2.py <path-to-tree>
"""
import json
import os
import shutil
import sys
import tempfile

sys.path.insert(0, sys.argv[1])

import simpy  # noqa: E402

from topsim.core.config import Config  # noqa: E402
from topsim.core.cluster import Cluster  # noqa: E402
from topsim.core.delay import DelayModel  # noqa: E402
from topsim.core.scheduler import Scheduler, ScheduleStatus  # noqa: E402
from topsim.core.planner import WorkflowPlan, WorkflowStatus  # noqa: E402
from topsim.core.task import Task, TaskStatus  # noqa: E402


class InjectedDelay:
    """Per-task injected delay: always adds `extra` timesteps."""

    def __init__(self, extra):
        self.extra = extra

    def generate_delay(self, task_runtime, n=100):
        return task_runtime + self.extra


CONFIG = {
    "instrument": {"telescope": {"total_arrays": 36,
                                 "max_ingest_resources": 1,
                                 "pipelines": {}, "observations": []}},
    "cluster": {"header": {"time": "false", "gen_specs": {}},
                "system": {"resources": {
                    "m0": {"flops": 84, "compute_bandwidth": 10},
                    "m1": {"flops": 84, "compute_bandwidth": 10}},
                    "system_bandwidth": 10}},
    "buffer": {"hot": {"capacity": 100, "max_ingest_rate": 10},
               "cold": {"capacity": 100, "max_data_rate": 10}},
}


def run_case(cfg_path, delay, flops, label):
    """Run one planned task on the cluster; return list of problems."""
    env = simpy.Environment()
    cluster = Cluster(env, Config(cfg_path))
    scheduler = Scheduler(env, None, cluster, None)
    machine = cluster.machines[0]

    task = Task('obs_0_0', est=0, eft=40, machine_id=machine.id,
                predecessors=[], flops=flops, task_data=0, io={},
                delay=delay, gid=0)
    # A successor that is still waiting keeps the workflow plan open
    successor = Task('obs_0_1', est=40, eft=80, machine_id=machine.id,
                     predecessors=[task.id], flops=0, task_data=0,
                     io={task.id: 0}, delay=None, gid=1)
    plan = WorkflowPlan('obs', 0, 80, [task, successor], [0, 1],
                        WorkflowStatus.SCHEDULED, 1)

    env.process(cluster.allocate_task_to_cluster(task, machine))
    env.run(until=60)

    problems = []
    if task.task_status is not TaskStatus.FINISHED:
        return [f"{label}: task did not finish (status {task.task_status})"]
    runtime = task.duration            # what the machine needs
    ran_for = task.aft - task.ast      # what it actually took
    added = ran_for - runtime
    if ran_for < runtime:
        problems.append(f"{label}: task ran {ran_for} < runtime {runtime}")
    if added > 0 and not task.delay_flag:
        problems.append(
            f"{label}: delay model added {added} timesteps (runtime "
            f"{runtime}, ran {ran_for}, ast={task.ast}, aft={task.aft}) but "
            f"task.delay_flag is {task.delay_flag}; required True")
    # The scheduler inspects finished tasks of the plan each timestep
    plan.tasks = scheduler._update_current_plan(plan)
    if added > 0 and scheduler.schedule_status is not ScheduleStatus.DELAYED:
        problems.append(
            f"{label}: scheduler reports {scheduler.schedule_status.value} "
            f"after the delayed task completed; required DELAYED")
    if plan.tasks != [successor]:
        problems.append(f"{label}: finished task not removed from plan")
    return problems


def main():
    tmp = tempfile.mkdtemp(prefix='c15_demo2_')
    try:
        cfg_path = os.path.join(tmp, 'config.json')
        with open(cfg_path, 'w') as f:
            json.dump(CONFIG, f)

        dm = DelayModel(1.0, 'normal', DelayModel.DelayDegree.HIGH, seed=20)
        if not dm.generate_delay(10) > 10:
            print("FAIL: precondition - DelayModel(1.0, normal, HIGH, 20) "
                  "adds nothing to a runtime of 10")
            return 1

        problems = []
        # (a) injected per-task delay of 5 on a task that needs 10 of its
        #     planned 40 timesteps
        problems += run_case(cfg_path, InjectedDelay(5), 840,
                             "injected +5, planned 40, needs 10")
        # (b) same with the real delay model
        problems += run_case(cfg_path, dm, 840,
                             "DelayModel normal/HIGH, planned 40, needs 10")
        # (c) control: no FLOPs, the planned duration is the runtime
        problems += run_case(cfg_path, InjectedDelay(3), 0,
                             "injected +3, planned duration used")
        # (d) control: a large delay that also overruns the planned finish
        problems += run_case(cfg_path, InjectedDelay(45), 840,
                             "injected +45, overruns plan")
        if problems:
            print(f"FAIL: {problems[0]}"
                  + (f" (+{len(problems) - 1} more)" if len(problems) > 1
                     else ""))
            return 1
        print("PASS")
        return 0
    finally:
        shutil.rmtree(tmp, ignore_errors=True)


if __name__ == '__main__':
    sys.exit(main())
