"""
demo3 - C15: whenever a delay is actually added to a task, that task is
flagged as delayed and the scheduler reports a delayed schedule once the task
has completed.

Scenario: the Scheduler's real allocate_tasks() loop drives a three-task
chain (planned on one machine with an exact plan, so that nothing is late
on its own) through a real Cluster using
DynamicSchedulingFromPlan.  A per-task delay vector is injected.  When the
delay hits the LAST task of the workflow (vector [0, 0, +4]) the scheduler
still has to end up reporting DELAYED, exactly as for a delay on a middle
task (vector [0, +4, 0]).  With no injected delay it stays ONTIME, which shows
the scenario isolates the delay model.

usage: python demo3.py <path-to-tree>
"""
import json
import os
import shutil
import sys
import tempfile

sys.path.insert(0, sys.argv[1])

import networkx as nx  # noqa: E402
import simpy  # noqa: E402

from topsim.core.config import Config  # noqa: E402
from topsim.core.cluster import Cluster  # noqa: E402
from topsim.core.scheduler import Scheduler, ScheduleStatus  # noqa: E402
from topsim.core.planner import WorkflowPlan, WorkflowStatus  # noqa: E402
from topsim.core.task import Task, TaskStatus  # noqa: E402
from topsim.user.schedule.dynamic_plan import (  # noqa: E402
    DynamicSchedulingFromPlan)


class InjectedDelay:
    """Per-task injected delay: always adds `extra` timesteps."""

    def __init__(self, extra):
        self.extra = extra

    def generate_delay(self, task_runtime, n=100):
        return task_runtime + self.extra


class StubBuffer:
    def mark_observation_finished(self, observation):
        return True


class StubObservation:
    def __init__(self, name, plan):
        self.name = name
        self.plan = plan


CONFIG = {
    "instrument": {"telescope": {"total_arrays": 36,
                                 "max_ingest_resources": 1,
                                 "pipelines": {}, "observations": []}},
    "cluster": {"header": {"time": "false", "gen_specs": {}},
                "system": {"resources": {
                    "m0": {"flops": 84, "compute_bandwidth": 10},
                    "m1": {"flops": 84, "compute_bandwidth": 10}},
                    "system_bandwidth": 10}},
    "buffer": {"hot": {"capacity": 100, "max_ingest_rate": 10},
               "cold": {"capacity": 100, "max_data_rate": 10}},
}

RUNTIME = 5   # timesteps each task needs on the machine
SLOT = 5      # planned slot per task (the plan is exact)


def run_chain(cfg_path, delay_vector):
    env = simpy.Environment()
    cluster = Cluster(env, Config(cfg_path))
    scheduler = Scheduler(env, StubBuffer(), cluster,
                          DynamicSchedulingFromPlan())
    tasks = []
    for i, extra in enumerate(delay_vector):
        pred = [tasks[i - 1].id] if i else []
        io = {tasks[i - 1].id: 0} if i else {}
        tasks.append(Task(
            f'obs_0_{i}', est=i * SLOT, eft=(i + 1) * SLOT, machine_id='m0',
            predecessors=pred, flops=RUNTIME * 84, task_data=0, io=io,
            delay=InjectedDelay(extra) if extra else None, gid=i))
    graph = nx.DiGraph()
    graph.add_nodes_from(tasks)
    for a, b in zip(tasks, tasks[1:]):
        graph.add_edge(a, b, transfer_data=0)
    plan = WorkflowPlan('obs', 0, len(tasks) * SLOT, list(tasks),
                        list(range(len(tasks))), WorkflowStatus.SCHEDULED, 1,
                        graph)
    obs = StubObservation('obs', plan)
    scheduler.observation_queue.append(obs)
    scheduler.start()
    env.process(cluster.run())
    env.process(scheduler.allocate_tasks(obs))
    env.run(until=200)
    return scheduler, tasks


def describe(tasks):
    return ', '.join(
        f"{t.id}: ast={t.ast} aft={t.aft} flag={t.delay_flag}" for t in tasks)


def main():
    tmp = tempfile.mkdtemp(prefix='c15_demo3_')
    try:
        cfg_path = os.path.join(tmp, 'config.json')
        with open(cfg_path, 'w') as f:
            json.dump(CONFIG, f)

        # Sanity: without injected delays nothing is reported.
        sched, tasks = run_chain(cfg_path, [0, 0, 0])
        if (any(t.task_status is not TaskStatus.FINISHED for t in tasks)
                or sched.observation_queue):
            print("FAIL: precondition - undelayed chain did not complete: "
                  + describe(tasks))
            return 1
        if (sched.schedule_status is not ScheduleStatus.ONTIME
                or any(t.delay_flag for t in tasks)):
            print("FAIL: precondition - undelayed chain is reported "
                  f"{sched.schedule_status.value}: " + describe(tasks))
            return 1

        problems = []
        for vector in ([0, 4, 0], [4, 0, 0], [0, 0, 4], [0, 0, 1]):
            sched, tasks = run_chain(cfg_path, vector)
            if (any(t.task_status is not TaskStatus.FINISHED for t in tasks)
                    or sched.observation_queue):
                problems.append(f"delay vector {vector}: workflow did not "
                                f"complete: {describe(tasks)}")
                continue
            for t, extra in zip(tasks, vector):
                ran = t.aft - t.ast
                if ran < RUNTIME + extra:
                    problems.append(
                        f"delay vector {vector}: {t.id} ran {ran} < "
                        f"{RUNTIME + extra}")
                if extra and not t.delay_flag:
                    problems.append(
                        f"delay vector {vector}: {t.id} got +{extra} but "
                        f"delay_flag is False")
            if sched.schedule_status is not ScheduleStatus.DELAYED:
                problems.append(
                    f"delay vector {vector}: all tasks completed "
                    f"({describe(tasks)}) but scheduler.schedule_status is "
                    f"{sched.schedule_status.value} (delay_offset="
                    f"{sched.delay_offset}); required DELAYED")
        if problems:
            print(f"FAIL: {problems[0]}"
                  + (f" (+{len(problems) - 1} more)" if len(problems) > 1
                     else ""))
            return 1
        print("PASS")
        return 0
    finally:
        shutil.rmtree(tmp, ignore_errors=True)


if __name__ == '__main__':
    sys.exit(main())
