"""C11 demo 2: a second start() is refused with an error and changes nothing -
also when the first start() ran the simulation to its natural end - and a
started simulation can always be resumed (resume is only refused BEFORE start).

usage: python demo2.py <path-to-tree>
"""
import sys
sys.path.insert(0, sys.argv[1])
import os, json, shutil, tempfile, logging
logging.disable(logging.CRITICAL)
import simpy
from topsim.core.simulation import Simulation
from topsim.user.telescope import Telescope
from topsim.user.plan.batch_planning import BatchPlanning
from topsim.user.schedule.queue_allocation import QueueProcessing


def write_files(d):
    wf = {"graph": {"directed": True, "multigraph": False, "graph": {},
          "nodes": [{"id": i, "comp": 200 * (i + 1), "task_data": 0} for i in range(3)],
          "edges": [{"source": 0, "target": 1, "transfer_data": 5},
                    {"source": 0, "target": 2, "transfer_data": 5}]}}
    with open(os.path.join(d, 'wf.json'), 'w') as f:
        json.dump(wf, f)
    cfg = {
        "instrument": {"telescope": {
            "total_arrays": 36, "max_ingest_resources": 2,
            "pipelines": {"a": {"workflow": "wf.json", "ingest_demand": 2}},
            "observations": [
                {"name": "a", "start": 0, "duration": 4, "instrument_demand": 36, "data_product_rate": 4}]}},
        "cluster": {"header": {}, "system": {
            "resources": {"m%d" % i: {"flops": 100, "compute_bandwidth": 10} for i in range(4)},
            "system_bandwidth": 1.0}},
        "buffer": {"hot": {"capacity": 200, "max_ingest_rate": 10},
                   "cold": {"capacity": 200, "max_data_rate": 4}},
        "timestep": "seconds"}
    path = os.path.join(d, 'cfg.json')
    with open(path, 'w') as f:
        json.dump(cfg, f)
    return path


def build(cfg):
    return Simulation(env=simpy.Environment(), config=cfg, instrument=Telescope,
                      planning_model=BatchPlanning('batch'), planning_algorithm='batch',
                      scheduling=QueueProcessing(), delay=None, timestamp=0)


def fingerprint(sim):
    return {'now': sim.env.now, 'queued simpy events': len(sim.env._queue),
            'table rows': len(sim.monitor.df), 'logged events': len(sim.monitor.events),
            'pending events': (len(sim.instrument.events), len(sim.scheduler.events),
                               len(sim.buffer.events)),
            'running flag': sim.running}


def tables(sim):
    sim.monitor.collate_events()
    df = sim.monitor.df
    df = df.drop(columns=[c for c in df.columns if c.endswith('algtime')])
    return (df.to_csv(), sim.monitor.events.reset_index(drop=True).to_csv(),
            sim._generate_final_task_data().to_csv())


def refused(call):
    try:
        call()
    except RuntimeError:
        return True
    return False


def main():
    d = tempfile.mkdtemp(prefix='c11demo2_')
    try:
        cfg = write_files(d)

        # 0. resume before start is refused and changes nothing
        sim = build(cfg)
        before = fingerprint(sim)
        if not refused(lambda: sim.resume(until=3)) or fingerprint(sim) != before:
            print("FAIL: resume() before start() was not refused cleanly: %s -> %s"
                  % (before, fingerprint(sim)))
            return 1

        # 1. start() to the natural end, then start() again
        sim = build(cfg)
        sim.start()
        t_end = sim.env.now
        before = fingerprint(sim)
        if not refused(lambda: sim.start(runtime=t_end + 3)):
            print("FAIL: second start() after a completed start() was accepted instead of "
                  "refused; state before %s, after %s" % (before, fingerprint(sim)))
            return 1
        if fingerprint(sim) != before:
            print("FAIL: refused second start() changed state: %s -> %s"
                  % (before, fingerprint(sim)))
            return 1

        # 2. a simulation that ran to its end is still 'started': resuming it must
        #    work and give what an uninterrupted run of the same length gives
        T = t_end + 3
        ref = build(cfg)
        ref.start(runtime=T)
        try:
            sim.resume(until=T)
        except RuntimeError as e:
            print("FAIL: resume(until=%d) after start() had run to its end (t=%d) was "
                  "refused (%s); required: continues like an uninterrupted run" % (T, t_end, e))
            return 1
        if tables(sim) != tables(ref):
            print("FAIL: start() + resume(until=%d) differs from start(runtime=%d)" % (T, T))
            return 1

        # 3. pause, resume past the end, ask is_finished() (a query), resume again
        sim = build(cfg)
        sim.start(runtime=2)
        sim.resume(until=t_end + 1)
        if not sim.is_finished():
            print("FAIL: simulation not finished at t=%d although start() stopped at %d"
                  % (t_end + 1, t_end))
            return 1
        before = fingerprint(sim)
        if not refused(lambda: sim.start()) or fingerprint(sim) != before:
            print("FAIL: start() on a started (paused/resumed, finished) simulation was not "
                  "refused cleanly: %s -> %s" % (before, fingerprint(sim)))
            return 1
        try:
            sim.resume(until=T)
        except RuntimeError as e:
            print("FAIL: second resume segment refused after is_finished() query: %s" % e)
            return 1
        if tables(sim) != tables(ref):
            print("FAIL: start(2)+resume(%d)+resume(%d) differs from start(runtime=%d)"
                  % (t_end + 1, T, T))
            return 1
        print("PASS")
        return 0
    finally:
        shutil.rmtree(d, ignore_errors=True)


if __name__ == '__main__':
    sys.exit(main())
