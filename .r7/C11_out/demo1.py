"""C11 demo 1: the task table after pause+resume must equal the table of an
uninterrupted run, for every pause point k - including pause points that fall
inside a running ingest.

usage: python demo1.py <path-to-tree>
"""
import sys
sys.path.insert(0, sys.argv[1])
import os, json, shutil, tempfile, logging
logging.disable(logging.CRITICAL)
import simpy
from topsim.core.simulation import Simulation
from topsim.user.telescope import Telescope
from topsim.user.plan.batch_planning import BatchPlanning
from topsim.user.schedule.batch_allocation import BatchProcessing

T = 30


def write_files(d):
    wf = {"graph": {"directed": True, "multigraph": False, "graph": {},
          "nodes": [{"id": i, "comp": 200 * (i + 1), "task_data": 0} for i in range(4)],
          "edges": [{"source": 0, "target": 1, "transfer_data": 5},
                    {"source": 0, "target": 2, "transfer_data": 5},
                    {"source": 1, "target": 3, "transfer_data": 5},
                    {"source": 2, "target": 3, "transfer_data": 5}]}}
    with open(os.path.join(d, 'wf.json'), 'w') as f:
        json.dump(wf, f)
    cfg = {
        "instrument": {"telescope": {
            "total_arrays": 36, "max_ingest_resources": 3,
            "pipelines": {"a": {"workflow": "wf.json", "ingest_demand": 2},
                          "b": {"workflow": "wf.json", "ingest_demand": 1}},
            "observations": [
                {"name": "a", "start": 0, "duration": 5, "instrument_demand": 18, "data_product_rate": 4},
                {"name": "b", "start": 3, "duration": 6, "instrument_demand": 18, "data_product_rate": 5}]}},
        "cluster": {"header": {}, "system": {
            "resources": {"m%d" % i: {"flops": 100, "compute_bandwidth": 10} for i in range(6)},
            "system_bandwidth": 1.0}},
        "buffer": {"hot": {"capacity": 500, "max_ingest_rate": 10},
                   "cold": {"capacity": 500, "max_data_rate": 4}},
        "timestep": "seconds"}
    path = os.path.join(d, 'cfg.json')
    with open(path, 'w') as f:
        json.dump(cfg, f)
    return path


def build(cfg):
    return Simulation(env=simpy.Environment(), config=cfg, instrument=Telescope,
                      planning_model=BatchPlanning('batch'), planning_algorithm='batch',
                      scheduling=BatchProcessing(), delay=None, timestamp=0)


def tables(sim):
    sim.monitor.collate_events()
    df = sim.monitor.df
    df = df.drop(columns=[c for c in df.columns if c.endswith('algtime')])  # wall-clock
    return {'per-timestep table': df.to_csv(),
            'event log': sim.monitor.events.reset_index(drop=True).to_csv(),
            'task table': sim._generate_final_task_data().to_csv()}


def main():
    d = tempfile.mkdtemp(prefix='c11demo1_')
    try:
        cfg = write_files(d)
        ref_sim = build(cfg)
        ref_sim.start(runtime=T)
        ref = tables(ref_sim)
        for k in range(1, T):
            sim = build(cfg)
            sim.start(runtime=k)
            sim.resume(until=T)
            got = tables(sim)
            for name in ref:
                if got[name] != ref[name]:
                    r = ref[name].splitlines(); g = got[name].splitlines()
                    diff = [(a, b) for a, b in zip(r, g) if a != b][:2]
                    print("FAIL: pause at k=%d then resume(until=%d): %s differs from the "
                          "uninterrupted run; (uninterrupted, resumed) rows: %s; lengths %d vs %d"
                          % (k, T, name, diff, len(r), len(g)))
                    return 1
        print("PASS")
        return 0
    finally:
        shutil.rmtree(d, ignore_errors=True)


if __name__ == '__main__':
    sys.exit(main())
