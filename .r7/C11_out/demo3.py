"""C11 demo 3: for every total length T, every pause point k < T and several
splits of the remainder into resume segments, the paused run must end in
exactly the state of the uninterrupted run start(runtime=T) - also when T is a
timestep at which a long-running task is due to wake up.

usage: python demo3.py <path-to-tree>
"""
import sys
sys.path.insert(0, sys.argv[1])
import os, json, shutil, tempfile, logging
logging.disable(logging.CRITICAL)
import simpy
from topsim.core.simulation import Simulation
from topsim.user.telescope import Telescope
from topsim.user.plan.batch_planning import BatchPlanning
from topsim.user.schedule.batch_allocation import BatchProcessing


def write_files(d):
    wf = {"graph": {"directed": True, "multigraph": False, "graph": {},
          "nodes": [{"id": i, "comp": 200 * (i + 1), "task_data": 0} for i in range(4)],
          "edges": [{"source": 0, "target": 1, "transfer_data": 5},
                    {"source": 0, "target": 2, "transfer_data": 5},
                    {"source": 1, "target": 3, "transfer_data": 5},
                    {"source": 2, "target": 3, "transfer_data": 5}]}}
    with open(os.path.join(d, 'wf.json'), 'w') as f:
        json.dump(wf, f)
    cfg = {
        "instrument": {"telescope": {
            "total_arrays": 36, "max_ingest_resources": 3,
            "pipelines": {"a": {"workflow": "wf.json", "ingest_demand": 2},
                          "b": {"workflow": "wf.json", "ingest_demand": 1}},
            "observations": [
                {"name": "a", "start": 0, "duration": 5, "instrument_demand": 18, "data_product_rate": 4},
                {"name": "b", "start": 3, "duration": 6, "instrument_demand": 18, "data_product_rate": 5}]}},
        "cluster": {"header": {}, "system": {
            "resources": {"m%d" % i: {"flops": 100, "compute_bandwidth": 10} for i in range(6)},
            "system_bandwidth": 1.0}},
        "buffer": {"hot": {"capacity": 500, "max_ingest_rate": 10},
                   "cold": {"capacity": 500, "max_data_rate": 4}},
        "timestep": "seconds"}
    path = os.path.join(d, 'cfg.json')
    with open(path, 'w') as f:
        json.dump(cfg, f)
    return path


def build(cfg):
    return Simulation(env=simpy.Environment(), config=cfg, instrument=Telescope,
                      planning_model=BatchPlanning('batch'), planning_algorithm='batch',
                      scheduling=BatchProcessing(), delay=None, timestamp=0)


def state(sim):
    sim.monitor.collate_events()
    df = sim.monitor.df
    df = df.drop(columns=[c for c in df.columns if c.endswith('algtime')])  # wall-clock
    tasks = sim.cluster._clusters['default']['tasks']
    return {'clock': sim.env.now,
            'per-timestep table': df.to_csv(),
            'event log': sim.monitor.events.reset_index(drop=True).to_csv(),
            'task table': sim._generate_final_task_data().to_csv(),
            'tasks on cluster': sorted((t.id, t.ast, t.aft, t.task_status.name, t.delay_flag)
                                       for t in list(tasks['running']) + list(tasks['finished'])),
            'buffers': (sim.buffer.hot[0].current_capacity, sim.buffer.cold[0].current_capacity)}


def splits(k, T):
    yield 'one segment', [T]
    if T - k > 1:
        yield 'unit segments', list(range(k + 1, T + 1))
        mid = (k + T) // 2
        if k < mid < T:
            yield 'two segments', [mid, T]


def main():
    d = tempfile.mkdtemp(prefix='c11demo3_')
    try:
        cfg = write_files(d)
        for T in range(2, 13):
            ref_sim = build(cfg)
            ref_sim.start(runtime=T)
            ref = state(ref_sim)
            for k in range(1, T):
                for label, targets in splits(k, T):
                    sim = build(cfg)
                    sim.start(runtime=k)
                    for t in targets:
                        sim.resume(until=t)
                    got = state(sim)
                    for name in ref:
                        if got[name] != ref[name]:
                            if isinstance(ref[name], str):
                                r = ref[name].splitlines(); g = got[name].splitlines()
                                what = [(a, b) for a, b in zip(r, g) if a != b][:2]
                            else:
                                what = [(a, b) for a, b in zip(ref[name], got[name]) if a != b][:2] \
                                    if isinstance(ref[name], list) else (ref[name], got[name])
                            print("FAIL: start(runtime=%d) then resume to %s (%s): '%s' differs from "
                                  "start(runtime=%d); (uninterrupted, resumed) = %s"
                                  % (k, targets, label, name, T, what))
                            return 1
        print("PASS")
        return 0
    finally:
        shutil.rmtree(d, ignore_errors=True)


if __name__ == '__main__':
    sys.exit(main())
