"""
demo2 - a refused allocation must leave the pools unchanged.

Sequence (4-machine cluster, driven directly on a Cluster object):
  1. ingest of observation 'obsB' is provisioned on 2 machines (m0, m1)
  2. a batch reservation of 1 machine is made for observation 'obsA'
  3. a workflow task of 'obsA' is (wrongly) allocated to m0, which is busy
     running ingest -> the cluster must refuse (it raises)
  4. a second task of 'obsA' is allocated to the reserved machine, time
     advances until ingest and task are done, the reservation is released
Required (property C02): the refused call of step 3 leaves every pool exactly
as it was; after every step each machine is in exactly one pool and the
reported counters are true; at the end all machines are available.

usage: python demo2.py <path-to-tree>
"""
import sys
import os
import json
import shutil
import tempfile
import logging

tree = os.path.abspath(sys.argv[1])
sys.path.insert(0, tree)
logging.disable(logging.CRITICAL)

import simpy  # noqa: E402
from topsim.core.config import Config  # noqa: E402
from topsim.core.cluster import Cluster  # noqa: E402
from topsim.core.task import Task  # noqa: E402


def write_config(directory, nmachines):
    cfg = {
        "instrument": {"telescope": {
            "total_arrays": 36, "max_ingest_resources": 2,
            "pipelines": {}, "observations": []}},
        "cluster": {"header": {"time": "false", "gen_specs": {}},
                    "system": {"resources": {
                        "m%d" % i: {"flops": 100, "compute_bandwidth": 10}
                        for i in range(nmachines)},
                        "system_bandwidth": 1.0}},
        "buffer": {"hot": {"capacity": 1000, "max_ingest_rate": 10},
                   "cold": {"capacity": 1000, "max_data_rate": 10}},
        "timestep": "seconds"}
    path = os.path.join(directory, "cfg.json")
    with open(path, "w") as fp:
        json.dump(cfg, fp)
    return path


def violations(cluster):
    """Compare pools and counters with the truth; return list of problems."""
    res = cluster._clusters['default']['resources']
    tasks = cluster._clusters['default']['tasks']
    usage = cluster._clusters['default']['usage_data']
    where = {}
    for pool in ('available', 'occupied', 'ingest'):
        for m in res[pool]:
            where.setdefault(m.id, []).append(pool)
    for obs, lst in res['idle'].items():
        for m in lst:
            where.setdefault(m.id, []).append('reserved:%s' % obs)
    errs = []
    for m in cluster.machines:
        places = where.get(m.id, [])
        if len(places) != 1:
            errs.append("machine %s is in %d pools %s (required: exactly 1)"
                        % (m.id, len(places), places))
    busy = len(res['occupied']) + len(res['ingest'])
    free = len(cluster.machines) - busy
    if usage['available'] != free:
        errs.append("reported free machines %s, true %s"
                    % (usage['available'], free))
    if usage['running_tasks'] != len(tasks['running']):
        errs.append("reported running tasks %s, true %s"
                    % (usage['running_tasks'], len(tasks['running'])))
    done = sum(1 for v in tasks['finished'].values() if v)
    if usage['finished_tasks'] != done:
        errs.append("reported finished tasks %s, true %s"
                    % (usage['finished_tasks'], done))
    return errs


from topsim.core.instrument import Observation  # noqa: E402


def snapshot(cluster):
    res = cluster._clusters['default']['resources']
    tasks = cluster._clusters['default']['tasks']
    return {
        'available': [m.id for m in res['available']],
        'occupied': [m.id for m in res['occupied']],
        'ingest': [m.id for m in res['ingest']],
        'reserved': {k: [m.id for m in v] for k, v in res['idle'].items()},
        'running': [t.id for t in tasks['running']],
        'usage': dict(cluster._clusters['default']['usage_data']),
    }


def scenario(directory):
    env = simpy.Environment()
    cluster = Cluster(env, Config(write_config(directory, 4)))
    res = cluster._clusters['default']['resources']
    problems = []

    def step(label):
        for e in violations(cluster):
            problems.append("%s (t=%s): %s" % (label, env.now, e))

    obs_b = Observation('obsB', 0, 4, 18, None, 1)
    env.process(cluster.provision_ingest_resources(2, obs_b))
    env.run(until=1)
    step("after ingest provision")
    ingest_machine = res['ingest'][0]

    cluster.provision_batch_resources(1, 'obsA')
    step("after batch provision")
    reserved = cluster.get_idle_resources('obsA')
    if len(reserved) != 1:
        problems.append("expected 1 reserved machine, got %s" % reserved)
        return problems

    before = snapshot(cluster)
    wrong = Task('obsA_0_t0', 0, 2, ingest_machine.id, [])
    env.process(cluster.allocate_task_to_cluster(
        wrong, ingest_machine, observation='obsA'))
    refused = False
    try:
        env.run(until=2)
    except Exception:
        refused = True
    if not refused:
        problems.append("allocation on a machine running ingest was accepted")
    after = snapshot(cluster)
    if refused and after != before:
        diff = ["%s: %s -> %s" % (k, before[k], after[k])
                for k in before if before[k] != after[k]]
        problems.append("refused allocation changed the pools: "
                        + ", ".join(diff))
    step("after refused allocation")

    good = Task('obsA_0_t1', 0, 2, reserved[0].id, [])
    env.process(cluster.allocate_task_to_cluster(
        good, reserved[0], observation='obsA'))
    for t in range(int(env.now) + 1, 10):
        env.run(until=t)
        step("time advance")
    cluster.release_batch_resources('obsA')
    step("after release")

    if not cluster.is_task_finished(good):
        problems.append("task on the reserved machine did not finish")
    avail = sorted(m.id for m in res['available'])
    if avail != sorted(m.id for m in cluster.machines):
        problems.append("end: available pool is %s, required all of %s"
                        % (avail, sorted(m.id for m in cluster.machines)))
    if res['idle']:
        problems.append("end: reservation outstanding %s" % res['idle'])
    if not cluster.is_idle():
        problems.append("end: cluster does not report idle")
    return problems


def main():
    directory = tempfile.mkdtemp(prefix="c02demo2_")
    try:
        problems = scenario(directory)
    finally:
        shutil.rmtree(directory, ignore_errors=True)
    if problems:
        print("FAIL: " + "; ".join(problems[:4]))
        return 1
    print("PASS")
    return 0


if __name__ == '__main__':
    sys.exit(main())
