"""
demo1 - a machine must survive "release before completion".

Sequence (4-machine cluster, driven directly on a Cluster object):
  1. provision a batch reservation of 2 machines for observation 'obsA'
  2. allocate a 3-timestep workflow task of 'obsA' on one of the reserved machines
  3. while the task is still running, release the reservation of 'obsA'
     (one reserved machine is idle, so the reservation entry is dropped)
  4. advance time until the task has completed
Required (property C02): after every step each machine is in exactly one of
available / ingest / occupied / reserved-idle, the reported counters equal the
true numbers, and at the end every machine is back in 'available' with no
reservation outstanding.

usage: python demo1.py <path-to-tree>
"""
import sys
import os
import json
import shutil
import tempfile
import logging

tree = os.path.abspath(sys.argv[1])
sys.path.insert(0, tree)
logging.disable(logging.CRITICAL)

import simpy  # noqa: E402
from topsim.core.config import Config  # noqa: E402
from topsim.core.cluster import Cluster  # noqa: E402
from topsim.core.task import Task  # noqa: E402


def write_config(directory, nmachines):
    cfg = {
        "instrument": {"telescope": {
            "total_arrays": 36, "max_ingest_resources": 2,
            "pipelines": {}, "observations": []}},
        "cluster": {"header": {"time": "false", "gen_specs": {}},
                    "system": {"resources": {
                        "m%d" % i: {"flops": 100, "compute_bandwidth": 10}
                        for i in range(nmachines)},
                        "system_bandwidth": 1.0}},
        "buffer": {"hot": {"capacity": 1000, "max_ingest_rate": 10},
                   "cold": {"capacity": 1000, "max_data_rate": 10}},
        "timestep": "seconds"}
    path = os.path.join(directory, "cfg.json")
    with open(path, "w") as fp:
        json.dump(cfg, fp)
    return path


def violations(cluster):
    """Compare pools and counters with the truth; return list of problems."""
    res = cluster._clusters['default']['resources']
    tasks = cluster._clusters['default']['tasks']
    usage = cluster._clusters['default']['usage_data']
    where = {}
    for pool in ('available', 'occupied', 'ingest'):
        for m in res[pool]:
            where.setdefault(m.id, []).append(pool)
    for obs, lst in res['idle'].items():
        for m in lst:
            where.setdefault(m.id, []).append('reserved:%s' % obs)
    errs = []
    for m in cluster.machines:
        places = where.get(m.id, [])
        if len(places) != 1:
            errs.append("machine %s is in %d pools %s (required: exactly 1)"
                        % (m.id, len(places), places))
    busy = len(res['occupied']) + len(res['ingest'])
    free = len(cluster.machines) - busy
    if usage['available'] != free:
        errs.append("reported free machines %s, true %s"
                    % (usage['available'], free))
    if usage['running_tasks'] != len(tasks['running']):
        errs.append("reported running tasks %s, true %s"
                    % (usage['running_tasks'], len(tasks['running'])))
    done = sum(1 for v in tasks['finished'].values() if v)
    if usage['finished_tasks'] != done:
        errs.append("reported finished tasks %s, true %s"
                    % (usage['finished_tasks'], done))
    return errs


def scenario(directory):
    env = simpy.Environment()
    cluster = Cluster(env, Config(write_config(directory, 4)))
    res = cluster._clusters['default']['resources']
    problems = []

    def step(label):
        for e in violations(cluster):
            problems.append("%s (t=%s): %s" % (label, env.now, e))

    cluster.provision_batch_resources(2, 'obsA')
    step("after provision")
    reserved = cluster.get_idle_resources('obsA')
    if len(reserved) != 2:
        problems.append("expected 2 reserved machines, got %s" % reserved)
        return problems
    machine = reserved[0]
    task = Task('obsA_0_t0', 0, 3, machine.id, [])
    env.process(cluster.allocate_task_to_cluster(
        task, machine, observation='obsA'))
    env.run(until=1)
    step("after allocation")
    cluster.release_batch_resources('obsA')
    step("after release while task is running")
    for t in range(2, 9):
        env.run(until=t)
        step("time advance")
    # end state
    if not cluster.is_task_finished(task):
        problems.append("task did not finish")
    avail = sorted(m.id for m in res['available'])
    if avail != sorted(m.id for m in cluster.machines):
        problems.append("end: available pool is %s, required all of %s"
                        % (avail, sorted(m.id for m in cluster.machines)))
    if res['idle']:
        problems.append("end: reservation outstanding %s" % res['idle'])
    return problems


def main():
    directory = tempfile.mkdtemp(prefix="c02demo1_")
    try:
        problems = scenario(directory)
    finally:
        shutil.rmtree(directory, ignore_errors=True)
    if problems:
        print("FAIL: " + "; ".join(problems[:4]))
        return 1
    print("PASS")
    return 0


if __name__ == '__main__':
    sys.exit(main())
