"""
demo3 - at the end of a simulation no reservation may be outstanding.

A complete simulation (4 machines, two observations 'a' and 'b', each with a
2-machine ingest and a 4-task diamond workflow) is run with Simulation.start()
until its own exit condition.  The scheduling algorithm is a user algorithm
that reserves machines with Cluster.provision_batch_resources() and - as the
Cluster documentation promises ("The clean-up of resources is completed by the
Scheduler ... and requires no additional code on behalf of the user") - leaves
the release of the reservation to the Scheduler.
Required (property C02): when the simulation ends every machine is back in the
available pool and no reservation is outstanding; after every timestep each
machine is in exactly one pool and the reported counters are true.

usage: python demo3.py <path-to-tree>
"""
import sys
import os
import json
import shutil
import tempfile
import logging

tree = os.path.abspath(sys.argv[1])
sys.path.insert(0, tree)
logging.disable(logging.CRITICAL)

import simpy  # noqa: E402
from topsim.core.simulation import Simulation  # noqa: E402
from topsim.user.telescope import Telescope  # noqa: E402
from topsim.user.plan.batch_planning import BatchPlanning  # noqa: E402
from topsim.user.schedule.batch_allocation import BatchProcessing  # noqa: E402


class _ClusterWithoutRelease:
    """View of the cluster handed to the algorithm: everything is delegated
    except release_batch_resources, which the algorithm leaves to the
    Scheduler."""

    def __init__(self, cluster):
        self._cluster = cluster

    def __getattr__(self, name):
        return getattr(self._cluster, name)

    def __len__(self):
        return len(self._cluster)

    def release_batch_resources(self, *args, **kwargs):
        return None


class ReserveOnly(BatchProcessing):
    """Batch reservation algorithm that relies on the Scheduler's clean-up."""

    def __repr__(self):
        return "ReserveOnly"

    def run(self, cluster, clock, workflow_plan, existing_schedule, task_pool):
        return super().run(_ClusterWithoutRelease(cluster), clock,
                           workflow_plan, existing_schedule, task_pool)


def write_config(directory):
    workflow = {
        "header": {"time": False},
        "graph": {"directed": True, "multigraph": False, "graph": {},
                  "nodes": [{"comp": 200, "id": 0}, {"comp": 300, "id": 1},
                            {"comp": 100, "id": 2}, {"comp": 100, "id": 3}],
                  "edges": [
                      {"transfer_data": 0, "source": 0, "target": 1},
                      {"transfer_data": 0, "source": 0, "target": 2},
                      {"transfer_data": 0, "source": 1, "target": 3},
                      {"transfer_data": 0, "source": 2, "target": 3}]}}
    with open(os.path.join(directory, "wf.json"), "w") as fp:
        json.dump(workflow, fp)
    observations = [("a", 0, 5), ("b", 8, 5)]
    cfg = {
        "instrument": {"telescope": {
            "total_arrays": 36, "max_ingest_resources": 2,
            "pipelines": {n: {"workflow": "wf.json", "ingest_demand": 2}
                          for n, _, _ in observations},
            "observations": [
                {"name": n, "start": s, "duration": d,
                 "instrument_demand": 18, "data_product_rate": 10}
                for n, s, d in observations]}},
        "cluster": {"header": {"time": "false", "gen_specs": {}},
                    "system": {"resources": {
                        "m%d" % i: {"flops": 100, "compute_bandwidth": 10}
                        for i in range(4)},
                        "system_bandwidth": 1.0}},
        "buffer": {"hot": {"capacity": 10000, "max_ingest_rate": 100},
                   "cold": {"capacity": 10000, "max_data_rate": 50}},
        "timestep": "seconds"}
    path = os.path.join(directory, "cfg.json")
    with open(path, "w") as fp:
        json.dump(cfg, fp)
    return path


def violations(cluster):
    """Compare pools and counters with the truth; return list of problems."""
    res = cluster._clusters['default']['resources']
    tasks = cluster._clusters['default']['tasks']
    usage = cluster._clusters['default']['usage_data']
    where = {}
    for pool in ('available', 'occupied', 'ingest'):
        for m in res[pool]:
            where.setdefault(m.id, []).append(pool)
    for obs, lst in res['idle'].items():
        for m in lst:
            where.setdefault(m.id, []).append('reserved:%s' % obs)
    errs = []
    for m in cluster.machines:
        places = where.get(m.id, [])
        if len(places) != 1:
            errs.append("machine %s is in %d pools %s (required: exactly 1)"
                        % (m.id, len(places), places))
    busy = len(res['occupied']) + len(res['ingest'])
    free = len(cluster.machines) - busy
    if usage['available'] != free:
        errs.append("reported free machines %s, true %s"
                    % (usage['available'], free))
    if usage['running_tasks'] != len(tasks['running']):
        errs.append("reported running tasks %s, true %s"
                    % (usage['running_tasks'], len(tasks['running'])))
    done = sum(1 for v in tasks['finished'].values() if v)
    if usage['finished_tasks'] != done:
        errs.append("reported finished tasks %s, true %s"
                    % (usage['finished_tasks'], done))
    return errs


def build(path):
    return Simulation(
        env=simpy.Environment(), config=path, instrument=Telescope,
        planning_model=BatchPlanning('batch'), planning_algorithm='batch',
        scheduling=ReserveOnly(max_resource_partitions=2,
                               min_resources_per_workflow=1),
        delay=None, timestamp=0)


def end_state(sim, problems, label):
    cluster = sim.cluster
    res = cluster._clusters['default']['resources']
    for e in violations(cluster):
        problems.append("%s end (t=%s): %s" % (label, sim.env.now, e))
    avail = sorted(m.id for m in res['available'])
    if avail != sorted(m.id for m in cluster.machines):
        problems.append(
            "%s: simulation ended at t=%s with available pool %s, "
            "required all of %s" % (label, sim.env.now, avail,
                                    sorted(m.id for m in cluster.machines)))
    if res['idle']:
        problems.append(
            "%s: simulation ended at t=%s with reservation outstanding %s, "
            "required none" % (label, sim.env.now, res['idle']))
    finished = sum(
        1 for v in cluster._clusters['default']['tasks']['finished'].values()
        if v)
    if finished != 12:
        problems.append("%s: %s tasks finished, expected 12 (2x2 ingest + "
                        "2x4 workflow)" % (label, finished))


def scenario(directory):
    path = write_config(directory)
    problems = []

    # Run 1: the simulation's own main loop, until its exit condition
    sim = build(path)
    sim.start()
    end_state(sim, problems, "start()")

    # Run 2: same simulation, stepped one timestep at a time with the same
    # exit test, checking the pools after every timestep
    sim = build(path)
    sim.start(runtime=1)
    limit = 200
    while not sim.is_finished() and sim.env.now < limit:
        sim.resume(sim.env.now + 1)
        for e in violations(sim.cluster):
            problems.append("stepped (t=%s): %s" % (sim.env.now, e))
    if sim.env.now >= limit:
        problems.append("stepped: simulation did not finish by t=%s" % limit)
    end_state(sim, problems, "stepped")
    return problems


def main():
    directory = tempfile.mkdtemp(prefix="c02demo3_")
    try:
        problems = scenario(directory)
    finally:
        shutil.rmtree(directory, ignore_errors=True)
    if problems:
        print("FAIL: " + "; ".join(problems[:4]))
        return 1
    print("PASS")
    return 0


if __name__ == '__main__':
    sys.exit(main())
