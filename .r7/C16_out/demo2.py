"""
C16 demo 2: with a custom integer timestep unit the cluster section must be
rescaled by the same factor as the instrument and buffer sections: machine
speeds and bandwidths are multiplied by the unit, so that a task's runtime
measured in seconds does not depend on the unit.

usage: demo2.py <path-to-tree>
"""
import sys
import os
import json
import shutil
import tempfile

TREE = os.path.abspath(sys.argv[1])
sys.path.insert(0, TREE)

import logging  # noqa: E402

logging.disable(logging.CRITICAL)

import simpy  # noqa: E402
from topsim.core.config import Config  # noqa: E402
from topsim.core.cluster import Cluster  # noqa: E402
from topsim.core.task import Task  # noqa: E402

MACHINES = {
    "fast": {"flops": 200, "compute_bandwidth": 40},
    "slow": {"flops": 100, "compute_bandwidth": 10},
}
SYSTEM_BANDWIDTH = 30
TASK_FLOPS = 24000  # 120 s on 'fast', 240 s on 'slow'
TASK_DATA = 1200  # 30 s on 'fast', 120 s on 'slow'


def make_config(tmpdir, unit, fname):
    cfg = {
        "instrument": {"telescope": {
            "total_arrays": 36,
            "max_ingest_resources": 1,
            "pipelines": {"obs": {"workflow": "wf.json", "ingest_demand": 1}},
            "observations": [
                {"name": "obs", "start": 0, "duration": 1200,
                 "instrument_demand": 36, "data_product_rate": 10}]}},
        "cluster": {"header": {}, "system": {
            "resources": MACHINES, "system_bandwidth": SYSTEM_BANDWIDTH}},
        "buffer": {"hot": {"capacity": 10 ** 9, "max_ingest_rate": 100},
                   "cold": {"capacity": 10 ** 9, "max_data_rate": 50}},
        "timestep": unit,
    }
    path = os.path.join(tmpdir, fname)
    with open(path, 'w') as f:
        json.dump(cfg, f)
    return path


def main():
    tmpdir = tempfile.mkdtemp(prefix='c16demo2_')
    try:
        problems = []
        units = (('seconds', 1), ('minutes', 60), ('hours', 3600),
                 (20, 20), (120, 120))
        for unit, factor in units:
            path = make_config(tmpdir, unit, 'cfg_%s.json' % unit)
            config = Config(path)
            cluster = Cluster(simpy.Environment(), config)
            _, _, observations, _ = config.parse_instrument_config('telescope')
            hot, cold = config.parse_buffer_config()
            # the other two sections, for reference
            if observations[0].duration * factor != 1200:
                problems.append("unit=%r: observation duration %r steps" % (
                    unit, observations[0].duration))
            if hot[0].max_ingest_data_rate != 100 * factor:
                problems.append("unit=%r: hot ingest rate %r" % (
                    unit, hot[0].max_ingest_data_rate))
            if cluster.system_bandwidth != SYSTEM_BANDWIDTH * factor:
                problems.append(
                    "unit=%r: system bandwidth %r, required %r" % (
                        unit, cluster.system_bandwidth,
                        SYSTEM_BANDWIDTH * factor))
            if len(cluster.machines) != len(MACHINES):
                problems.append("unit=%r: %d machines" % (
                    unit, len(cluster.machines)))
            for m in cluster.machines:
                raw = MACHINES[m.id]
                if m.cpu != raw['flops'] * factor:
                    problems.append(
                        "unit=%r: machine %s speed %r per step, required %r"
                        % (unit, m.id, m.cpu, raw['flops'] * factor))
                if m.bandwidth != raw['compute_bandwidth'] * factor:
                    problems.append(
                        "unit=%r: machine %s bandwidth %r per step, "
                        "required %r" % (unit, m.id, m.bandwidth,
                                         raw['compute_bandwidth'] * factor))
                if m.memory != 1 or m.disk != 1:
                    problems.append(
                        "unit=%r: machine %s capacities were rescaled" % (
                            unit, m.id))
                # Only check runtimes where they are whole numbers of steps
                seconds = max(TASK_FLOPS // raw['flops'],
                              TASK_DATA // raw['compute_bandwidth'])
                if seconds % factor == 0:
                    t = Task('t', 0, 0, None, [], flops=TASK_FLOPS,
                             task_data=TASK_DATA)
                    runtime = t.calculate_runtime(m) * factor
                    if runtime != seconds:
                        problems.append(
                            "unit=%r: task runtime on %s is %r s, required "
                            "%r s" % (unit, m.id, runtime, seconds))
        if problems:
            print("FAIL: " + "; ".join(problems))
            return 1
        print("PASS")
        return 0
    finally:
        shutil.rmtree(tmpdir, ignore_errors=True)


if __name__ == '__main__':
    sys.exit(main())
