"""
C16 demo 1: observation start/duration must be divided EXACTLY by the
timestep factor, so that the ingested data volume (in bytes) and the start
time (in seconds) of an observation do not depend on the chosen unit.

Uses a custom unit of 300 s (5-minute steps) and an observation that lasts
2100 s (7 steps) and starts at 4200 s (14 steps).

usage: demo1.py <path-to-tree>
"""
import sys
import os
import json
import shutil
import tempfile

TREE = os.path.abspath(sys.argv[1])
sys.path.insert(0, TREE)

import logging  # noqa: E402

logging.disable(logging.CRITICAL)

import simpy  # noqa: E402
from topsim.core.config import Config  # noqa: E402
from topsim.core.cluster import Cluster  # noqa: E402
from topsim.core.buffer import Buffer  # noqa: E402
from topsim.core.instrument import RunStatus  # noqa: E402

RAW_START = 4200  # seconds
RAW_DURATION = 2100  # seconds
RAW_RATE = 10  # bytes / second
UNIT = 300  # custom unit: 5 minutes


def make_config(tmpdir, unit, fname):
    cfg = {
        "instrument": {"telescope": {
            "total_arrays": 36,
            "max_ingest_resources": 1,
            "pipelines": {"obs": {"workflow": "wf.json", "ingest_demand": 1}},
            "observations": [
                {"name": "obs", "start": RAW_START, "duration": RAW_DURATION,
                 "instrument_demand": 36, "data_product_rate": RAW_RATE}]}},
        "cluster": {"header": {}, "system": {
            "resources": {"m0": {"flops": 100, "compute_bandwidth": 10},
                          "m1": {"flops": 100, "compute_bandwidth": 10}},
            "system_bandwidth": 10}},
        "buffer": {"hot": {"capacity": 10 ** 9, "max_ingest_rate": 100},
                   "cold": {"capacity": 10 ** 9, "max_data_rate": 50}},
    }
    if unit is not None:
        cfg["timestep"] = unit
    path = os.path.join(tmpdir, fname)
    with open(path, 'w') as f:
        json.dump(cfg, f)
    return path


def ingest_volume(path, factor):
    """Parse the config and stream the observation into the hot buffer."""
    env = simpy.Environment()
    config = Config(path)
    cluster = Cluster(env, config)
    buf = Buffer(env, cluster, None, config)
    _, _, observations, _ = config.parse_instrument_config('telescope')
    obs = observations[0]
    ready_on_time = obs.is_ready(RAW_START // factor, 36)
    obs.status = RunStatus.RUNNING
    env.process(buf.ingest_data_stream(obs))
    env.run(until=10000)
    return obs, obs.total_data_size, ready_on_time


def main():
    tmpdir = tempfile.mkdtemp(prefix='c16demo1_')
    try:
        problems = []
        expected_volume = RAW_RATE * RAW_DURATION
        for unit, factor in (('seconds', 1), (UNIT, UNIT)):
            path = make_config(tmpdir, unit, 'cfg_%s.json' % unit)
            obs, volume, ready_on_time = ingest_volume(path, factor)
            if obs.duration != RAW_DURATION / factor:
                problems.append(
                    "unit=%r: duration %r steps, required %r" % (
                        unit, obs.duration, RAW_DURATION / factor))
            if obs.est != RAW_START / factor:
                problems.append(
                    "unit=%r: start %r steps, required %r" % (
                        unit, obs.est, RAW_START / factor))
            if not ready_on_time:
                problems.append(
                    "unit=%r: observation not ready at its start step %d" % (
                        unit, RAW_START // factor))
            if volume != expected_volume:
                problems.append(
                    "unit=%r: ingested volume %r bytes, required %r" % (
                        unit, volume, expected_volume))
        if problems:
            print("FAIL: " + "; ".join(problems))
            return 1
        print("PASS")
        return 0
    finally:
        shutil.rmtree(tmpdir, ignore_errors=True)


if __name__ == '__main__':
    sys.exit(main())
