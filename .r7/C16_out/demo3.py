"""
C16 demo 3: the buffer rate limits are multiplied by the timestep factor
exactly once, however often the buffer section of one Config object is
parsed (e.g. a pre-flight inspection of the buffer followed by the
construction of the Buffer actor, or two Buffer actors built from one Config).

Consequences checked: an observation whose data rate exceeds the hot-buffer
ingest limit is refused in every unit, and moving a stored observation to the
cold buffer takes the same number of seconds in every unit.

usage: demo3.py <path-to-tree>
"""
import sys
import os
import json
import shutil
import tempfile

TREE = os.path.abspath(sys.argv[1])
sys.path.insert(0, TREE)

import logging  # noqa: E402

logging.disable(logging.CRITICAL)

import simpy  # noqa: E402
from topsim.core.config import Config  # noqa: E402
from topsim.core.cluster import Cluster  # noqa: E402
from topsim.core.buffer import Buffer  # noqa: E402

HOT_RATE = 100  # bytes / s
COLD_RATE = 50  # bytes / s
HOT_CAP = 10 ** 9
COLD_CAP = 5 * 10 ** 8
OBS_RATE = 150  # bytes / s : exceeds HOT_RATE, must always be refused
VOLUME = 360000  # bytes : 7200 s at COLD_RATE


def make_config(tmpdir, unit, fname):
    cfg = {
        "instrument": {"telescope": {
            "total_arrays": 36,
            "max_ingest_resources": 1,
            "pipelines": {"obs": {"workflow": "wf.json", "ingest_demand": 1}},
            "observations": [
                {"name": "obs", "start": 0, "duration": 7200,
                 "instrument_demand": 36, "data_product_rate": OBS_RATE}]}},
        "cluster": {"header": {}, "system": {
            "resources": {"m0": {"flops": 100, "compute_bandwidth": 10}},
            "system_bandwidth": 10}},
        "buffer": {"hot": {"capacity": HOT_CAP, "max_ingest_rate": HOT_RATE},
                   "cold": {"capacity": COLD_CAP, "max_data_rate": COLD_RATE}},
        "timestep": unit,
    }
    path = os.path.join(tmpdir, fname)
    with open(path, 'w') as f:
        json.dump(cfg, f)
    return path


class _Obs:
    name = 'stored'
    total_data_size = VOLUME


def transfer_steps(cold):
    """Number of timesteps the cold buffer needs to receive VOLUME bytes."""
    left, steps = VOLUME, 0
    while left > 0 and steps < 10 ** 6:
        left = cold.receive_observation(_Obs(), left)
        steps += 1
    return steps


def main():
    tmpdir = tempfile.mkdtemp(prefix='c16demo3_')
    try:
        problems = []
        units = (('seconds', 1), ('minutes', 60), ('hours', 3600), (30, 30))
        for unit, factor in units:
            path = make_config(tmpdir, unit, 'cfg_%s.json' % unit)
            config = Config(path)
            env = simpy.Environment()
            cluster = Cluster(env, config)
            _, _, observations, _ = config.parse_instrument_config('telescope')
            obs = observations[0]

            # Pre-flight look at the buffer section ...
            hot0, cold0 = config.parse_buffer_config()
            # ... and then the actor (and a second one) from the same Config
            actors = [Buffer(env, cluster, None, config),
                      Buffer(env, cluster, None, config)]
            parses = [('pre-flight parse', hot0[0], cold0[0])] + [
                ('Buffer actor #%d' % (i + 1), b.hot[0], b.cold[0])
                for i, b in enumerate(actors)]
            for label, hot, cold in parses:
                where = "unit=%r, %s" % (unit, label)
                if hot.max_ingest_data_rate != HOT_RATE * factor:
                    problems.append(
                        "%s: hot ingest limit %r per step, required %r" % (
                            where, hot.max_ingest_data_rate,
                            HOT_RATE * factor))
                if cold.max_data_rate != COLD_RATE * factor:
                    problems.append(
                        "%s: cold data rate %r per step, required %r" % (
                            where, cold.max_data_rate, COLD_RATE * factor))
                if (hot.total_capacity, cold.total_capacity) != (
                        HOT_CAP, COLD_CAP):
                    problems.append("%s: capacities were rescaled" % where)
                # rate-limit comparison must not depend on the unit
                try:
                    hot.process_incoming_data_stream(obs.ingest_data_rate, 0)
                    problems.append(
                        "%s: %d B/s stream accepted although the hot buffer "
                        "limit is %d B/s" % (where, OBS_RATE, HOT_RATE))
                except ValueError:
                    pass
                seconds = transfer_steps(cold) * factor
                if seconds != VOLUME // COLD_RATE:
                    problems.append(
                        "%s: hot-to-cold transfer takes %r s, required %r s"
                        % (where, seconds, VOLUME // COLD_RATE))
        if problems:
            print("FAIL: " + "; ".join(problems))
            return 1
        print("PASS")
        return 0
    finally:
        shutil.rmtree(tmpdir, ignore_errors=True)


if __name__ == '__main__':
    sys.exit(main())
