import sys
import os
import json
import shutil
import tempfile
import logging

if len(sys.argv) < 2:
    print("usage: demo.py <path-to-tree>")
    sys.exit(2)
TREE = os.path.abspath(sys.argv[1])
sys.path.insert(0, TREE)
logging.disable(logging.CRITICAL)

import simpy  # noqa: E402
from topsim.core.simulation import Simulation  # noqa: E402
from topsim.user.telescope import Telescope  # noqa: E402
from topsim.user.plan.batch_planning import BatchPlanning  # noqa: E402
from topsim.user.schedule.batch_allocation import BatchProcessing  # noqa: E402
from topsim.user.schedule.queue_allocation import QueueProcessing  # noqa: E402

assert os.path.abspath(sys.modules['topsim'].__file__).startswith(TREE), \
    "topsim was not imported from the tree under test"

REQUIRED = [("telescope", "started"), ("telescope", "finished"),
            ("buffer", "added"), ("buffer", "removed"),
            ("queue", "added"), ("queue", "removed"),
            ("allocation", "started"), ("allocation", "stopped")]


def write_workflow(path, comps, edges):
    graph = {"header": {}, "graph": {
        "directed": True, "multigraph": False, "graph": {},
        "nodes": [{"id": i, "comp": c} for i, c in enumerate(comps)],
        "edges": [{"source": s, "target": t, "transfer_data": 0}
                  for s, t in edges]}}
    with open(path, 'w') as fp:
        json.dump(graph, fp)


def write_config(tmpdir, observations, workflows, n_machines=6, max_ingest=2,
                 hot=1000, cold=1000, hot_rate=10, cold_rate=10, arrays=36):
    """observations: list of dicts name/start/duration/demand/rate.
    workflows: name -> (list of task flops, list of edges)."""
    pipelines = {}
    obs_cfg = []
    for o in observations:
        wf = os.path.join(tmpdir, "wf_%s.json" % o['name'])
        comps, edges = workflows[o['name']]
        write_workflow(wf, comps, edges)
        pipelines[o['name']] = {"workflow": os.path.basename(wf),
                                "ingest_demand": 1}
        obs_cfg.append({"name": o['name'], "start": o['start'],
                        "duration": o['duration'],
                        "instrument_demand": o['demand'],
                        "data_product_rate": o['rate']})
    cfg = {
        "instrument": {"telescope": {
            "total_arrays": arrays, "max_ingest_resources": max_ingest,
            "pipelines": pipelines, "observations": obs_cfg}},
        "cluster": {"header": {}, "system": {
            "resources": {"m%d" % i: {"flops": 10, "compute_bandwidth": 10}
                          for i in range(n_machines)},
            "system_bandwidth": 1.0}},
        "buffer": {"hot": {"capacity": hot, "max_ingest_rate": hot_rate},
                   "cold": {"capacity": cold, "max_data_rate": cold_rate}},
        "timestep": "seconds"}
    path = os.path.join(tmpdir, "config.json")
    with open(path, 'w') as fp:
        json.dump(cfg, fp)
    return path


def build(cfg, scheduling):
    return Simulation(env=simpy.Environment(), config=cfg,
                      instrument=Telescope,
                      planning_model=BatchPlanning('batch'),
                      planning_algorithm='batch', scheduling=scheduling,
                      delay=None, timestamp=0)


def log_rows(sim):
    """Event log as a sorted list of (observation, resource, event, time)."""
    ev = sim.monitor.events
    rows = []
    for _, r in ev.iterrows():
        rows.append((str(r['observation']), str(r['resource']),
                     str(r['event']), r['time']))
    return sorted(rows)


def check_c13(rows, observations):
    """Return a list of violations of property C13 in the event log."""
    problems = []
    for o in observations:
        name = o['name']
        times = {}
        for key in REQUIRED:
            hits = [t for (n, res, e, t) in rows
                    if n == name and (res, e) == key]
            if len(hits) != 1:
                problems.append(
                    "%s: %d '%s %s' entries %s, required exactly 1"
                    % (name, len(hits), key[0], key[1], hits))
            if hits:
                times[key] = hits[0]
        if len(times) != len(REQUIRED):
            continue
        st = times[("telescope", "started")]
        fin = times[("telescope", "finished")]
        ba = times[("buffer", "added")]
        br = times[("buffer", "removed")]
        qa = times[("queue", "added")]
        qr = times[("queue", "removed")]
        a0 = times[("allocation", "started")]
        a1 = times[("allocation", "stopped")]
        if not (st <= qa <= a0 <= a1 <= qr):
            problems.append(
                "%s: causal order broken: started=%s queue added=%s "
                "allocation started=%s stopped=%s queue removed=%s"
                % (name, st, qa, a0, a1, qr))
        if ba != st:
            problems.append("%s: buffer added at %s, started at %s"
                            % (name, ba, st))
        if br != a1:
            problems.append("%s: buffer removed at %s, allocation stopped "
                            "at %s" % (name, br, a1))
        if fin != st + o['duration']:
            problems.append(
                "%s: finished at %s, required started(%s)+duration(%s)=%s"
                % (name, fin, st, o['duration'], st + o['duration']))
    return problems


# --------------------------------------------------------------------------
# demo3: an observation (b) whose data is parked in the ColdBuffer because the
# HotBuffer went over its 60% threshold, and that is brought back to the
# HotBuffer once an older observation (a2) has been processed and removed.
# Its life cycle must still be logged with exactly one entry per transition.
# --------------------------------------------------------------------------
OBS = [
    {"name": "a1", "start": 0, "duration": 5, "demand": 10, "rate": 9},
    {"name": "a2", "start": 6, "duration": 2, "demand": 10, "rate": 5},
    {"name": "b", "start": 10, "duration": 2, "demand": 10, "rate": 5},
]
WF = {"a1": ([400], []), "a2": ([150], []), "b": ([20, 20], [(0, 1)])}
END = 90


def main():
    tmpdir = tempfile.mkdtemp(prefix="c13_demo3_")
    try:
        cfg = write_config(tmpdir, OBS, WF, n_machines=6, max_ingest=2,
                           hot=100, cold=100, hot_rate=10, cold_rate=10)
        for label, sched in (
                ("BatchProcessing", BatchProcessing(
                    min_resources_per_workflow=1, max_resource_partitions=3)),
                ("QueueProcessing", QueueProcessing())):
            sim = build(cfg, sched)
            sim.start(runtime=END)
            rows = log_rows(sim)
            transfers = [(e, t) for (n, res, e, t) in rows
                         if n == "b" and res == "transfer"]
            if len(transfers) != 4:
                print("FAIL: scenario not reproduced with %s: expected b to "
                      "go hot->cold->hot (4 transfer entries), got %s"
                      % (label, transfers))
                return 1
            if not sim.is_finished():
                print("FAIL: scenario not reproduced with %s: simulation not "
                      "finished at t=%d" % (label, END))
                return 1
            problems = check_c13(rows, OBS)
            if problems:
                print("FAIL: %s: %s" % (label, "; ".join(problems)))
                return 1
        print("PASS")
        return 0
    finally:
        shutil.rmtree(tmpdir, ignore_errors=True)


if __name__ == '__main__':
    sys.exit(main())
