import sys
import os
import json
import shutil
import tempfile
import logging

if len(sys.argv) < 2:
    print("usage: demo.py <path-to-tree>")
    sys.exit(2)
TREE = os.path.abspath(sys.argv[1])
sys.path.insert(0, TREE)
logging.disable(logging.CRITICAL)

import simpy  # noqa: E402
from topsim.core.simulation import Simulation  # noqa: E402
from topsim.user.telescope import Telescope  # noqa: E402
from topsim.user.plan.batch_planning import BatchPlanning  # noqa: E402
from topsim.user.schedule.batch_allocation import BatchProcessing  # noqa: E402
from topsim.user.schedule.queue_allocation import QueueProcessing  # noqa: E402

assert os.path.abspath(sys.modules['topsim'].__file__).startswith(TREE), \
    "topsim was not imported from the tree under test"

REQUIRED = [("telescope", "started"), ("telescope", "finished"),
            ("buffer", "added"), ("buffer", "removed"),
            ("queue", "added"), ("queue", "removed"),
            ("allocation", "started"), ("allocation", "stopped")]


def write_workflow(path, comps, edges):
    graph = {"header": {}, "graph": {
        "directed": True, "multigraph": False, "graph": {},
        "nodes": [{"id": i, "comp": c} for i, c in enumerate(comps)],
        "edges": [{"source": s, "target": t, "transfer_data": 0}
                  for s, t in edges]}}
    with open(path, 'w') as fp:
        json.dump(graph, fp)


def write_config(tmpdir, observations, workflows, n_machines=6, max_ingest=2,
                 hot=1000, cold=1000, hot_rate=10, cold_rate=10, arrays=36):
    """observations: list of dicts name/start/duration/demand/rate.
    workflows: name -> (list of task flops, list of edges)."""
    pipelines = {}
    obs_cfg = []
    for o in observations:
        wf = os.path.join(tmpdir, "wf_%s.json" % o['name'])
        comps, edges = workflows[o['name']]
        write_workflow(wf, comps, edges)
        pipelines[o['name']] = {"workflow": os.path.basename(wf),
                                "ingest_demand": 1}
        obs_cfg.append({"name": o['name'], "start": o['start'],
                        "duration": o['duration'],
                        "instrument_demand": o['demand'],
                        "data_product_rate": o['rate']})
    cfg = {
        "instrument": {"telescope": {
            "total_arrays": arrays, "max_ingest_resources": max_ingest,
            "pipelines": pipelines, "observations": obs_cfg}},
        "cluster": {"header": {}, "system": {
            "resources": {"m%d" % i: {"flops": 10, "compute_bandwidth": 10}
                          for i in range(n_machines)},
            "system_bandwidth": 1.0}},
        "buffer": {"hot": {"capacity": hot, "max_ingest_rate": hot_rate},
                   "cold": {"capacity": cold, "max_data_rate": cold_rate}},
        "timestep": "seconds"}
    path = os.path.join(tmpdir, "config.json")
    with open(path, 'w') as fp:
        json.dump(cfg, fp)
    return path


def build(cfg, scheduling):
    return Simulation(env=simpy.Environment(), config=cfg,
                      instrument=Telescope,
                      planning_model=BatchPlanning('batch'),
                      planning_algorithm='batch', scheduling=scheduling,
                      delay=None, timestamp=0)


def log_rows(sim):
    """Event log as a sorted list of (observation, resource, event, time)."""
    ev = sim.monitor.events
    rows = []
    for _, r in ev.iterrows():
        rows.append((str(r['observation']), str(r['resource']),
                     str(r['event']), r['time']))
    return sorted(rows)


def check_c13(rows, observations):
    """Return a list of violations of property C13 in the event log."""
    problems = []
    for o in observations:
        name = o['name']
        times = {}
        for key in REQUIRED:
            hits = [t for (n, res, e, t) in rows
                    if n == name and (res, e) == key]
            if len(hits) != 1:
                problems.append(
                    "%s: %d '%s %s' entries %s, required exactly 1"
                    % (name, len(hits), key[0], key[1], hits))
            if hits:
                times[key] = hits[0]
        if len(times) != len(REQUIRED):
            continue
        st = times[("telescope", "started")]
        fin = times[("telescope", "finished")]
        ba = times[("buffer", "added")]
        br = times[("buffer", "removed")]
        qa = times[("queue", "added")]
        qr = times[("queue", "removed")]
        a0 = times[("allocation", "started")]
        a1 = times[("allocation", "stopped")]
        if not (st <= qa <= a0 <= a1 <= qr):
            problems.append(
                "%s: causal order broken: started=%s queue added=%s "
                "allocation started=%s stopped=%s queue removed=%s"
                % (name, st, qa, a0, a1, qr))
        if ba != st:
            problems.append("%s: buffer added at %s, started at %s"
                            % (name, ba, st))
        if br != a1:
            problems.append("%s: buffer removed at %s, allocation stopped "
                            "at %s" % (name, br, a1))
        if fin != st + o['duration']:
            problems.append(
                "%s: finished at %s, required started(%s)+duration(%s)=%s"
                % (name, fin, st, o['duration'], st + o['duration']))
    return problems


# --------------------------------------------------------------------------
# demo1: pausing a simulation (start(runtime=N) then resume()) must not change
# the event log: every life-cycle transition is still logged exactly once.
# --------------------------------------------------------------------------
OBS = [
    {"name": "a", "start": 0, "duration": 5, "demand": 10, "rate": 4},
    {"name": "b", "start": 3, "duration": 4, "demand": 10, "rate": 4},
    {"name": "c", "start": 12, "duration": 3, "demand": 10, "rate": 4},
]
WF = {n: ([20, 20, 20], [(0, 1), (0, 2)]) for n in "abc"}
END = 30


def scheduling():
    return BatchProcessing(min_resources_per_workflow=1,
                           max_resource_partitions=2)


def main():
    tmpdir = tempfile.mkdtemp(prefix="c13_demo1_")
    try:
        cfg = write_config(tmpdir, OBS, WF)
        # reference: one uninterrupted bounded run
        ref = build(cfg, scheduling())
        ref.start(runtime=END)
        ref_rows = log_rows(ref)
        problems = check_c13(ref_rows, OBS)
        if problems:
            print("FAIL: uninterrupted run: " + "; ".join(problems))
            return 1
        for pause in range(1, END):
            sim = build(cfg, scheduling())
            sim.start(runtime=pause)        # pause point
            sim.resume(until=END)
            sim.monitor.collate_events()    # pick up the last timestep
            rows = log_rows(sim)
            problems = check_c13(rows, OBS)
            if problems or rows != ref_rows:
                extra = sorted(set(r for r in rows
                                   if rows.count(r) > ref_rows.count(r)))
                print("FAIL: paused at t=%d then resumed: %s; entries "
                      "logged more often than in the uninterrupted run: %s "
                      "(required: identical log, each transition exactly "
                      "once)" % (pause, "; ".join(problems) or "log differs",
                                 extra))
                return 1
        print("PASS")
        return 0
    finally:
        shutil.rmtree(tmpdir, ignore_errors=True)


if __name__ == '__main__':
    sys.exit(main())
