"""
demo3 - C10 reproducibility across interpreter hash seeds, BatchProcessing,
workflow whose node names have the form <stage>_<index>.

usage: python demo3.py <path-to-tree>

The same configuration (one observation, a fan-out workflow whose four
parallel nodes are called flag_0, cal_0, grid_0, img_0, a heterogeneous
4-machine cluster) is simulated in several separate interpreter processes
that differ ONLY in PYTHONHASHSEED.  Required: identical per-timestep table
(minus the *-algtime wall-clock columns), identical task table, identical
event log.
"""
import sys
import os

TREE = os.path.abspath(sys.argv[2] if sys.argv[1] == '--child' else sys.argv[1])
sys.path.insert(0, TREE)

import json
import logging
import shutil
import subprocess
import tempfile

HASH_SEEDS = ['0', '1', '2', '3', '4', '5', '6', '7']


def write_config(d):
    stages = ['flag_0', 'cal_0', 'grid_0', 'img_0']
    nodes = [{"id": "src_0", "comp": 10}]
    nodes += [{"id": s, "comp": 20 + 10 * i} for i, s in enumerate(stages)]
    nodes += [{"id": "out_1", "comp": 10}]
    edges = [{"source": "src_0", "target": s, "transfer_data": 1}
             for s in stages]
    edges += [{"source": s, "target": "out_1", "transfer_data": 1}
              for s in stages]
    wf = {"header": {"time": False},
          "graph": {"directed": True, "multigraph": False, "graph": {},
                    "nodes": nodes, "edges": edges}}
    with open(os.path.join(d, "wf.json"), "w") as f:
        json.dump(wf, f)
    machines = {"m0": 10, "m1": 5, "m2": 2, "m3": 1}
    cfg = {
        "instrument": {"telescope": {
            "total_arrays": 36, "max_ingest_resources": 1,
            "pipelines": {"emu": {"workflow": "wf.json", "ingest_demand": 1}},
            "observations": [{"name": "emu", "start": 0, "duration": 5,
                              "instrument_demand": 36,
                              "data_product_rate": 1}]}},
        "cluster": {"header": {}, "system": {
            "resources": {m: {"flops": f, "compute_bandwidth": 10}
                          for m, f in machines.items()},
            "system_bandwidth": 1.0}},
        "buffer": {"hot": {"capacity": 100, "max_ingest_rate": 5},
                   "cold": {"capacity": 100, "max_data_rate": 5}},
        "timestep": "seconds"}
    p = os.path.join(d, "cfg.json")
    with open(p, "w") as f:
        json.dump(cfg, f)
    return p


def simulate(cfg):
    import simpy
    from topsim.core.simulation import Simulation
    from topsim.user.telescope import Telescope
    from topsim.user.plan.batch_planning import BatchPlanning
    from topsim.user.schedule.batch_allocation import BatchProcessing
    sim = Simulation(env=simpy.Environment(), config=cfg, instrument=Telescope,
                     planning_model=BatchPlanning('batch'),
                     planning_algorithm='batch',
                     scheduling=BatchProcessing(min_resources_per_workflow=1),
                     delay=None, timestamp=0)
    df, tasks = sim.start(runtime=400)
    df = df[[c for c in df.columns if not str(c).endswith('algtime')]]
    return {"sim": df.to_csv(), "tasks": tasks.to_csv(),
            "events": sim.monitor.events.to_csv(index=False)}


def first_difference(a, b):
    """First line at which two CSV dumps differ, as (line_no, a_line, b_line)."""
    la, lb = a.splitlines(), b.splitlines()
    for i in range(max(len(la), len(lb))):
        x = la[i] if i < len(la) else '<missing>'
        y = lb[i] if i < len(lb) else '<missing>'
        if x != y:
            return i, x, y
    return -1, '', ''


def child(cfg):
    logging.disable(logging.CRITICAL)
    out = simulate(cfg)
    json.dump(out, sys.stdout)


def main():
    d = tempfile.mkdtemp(prefix="c10demo3_")
    try:
        cfg = write_config(d)
        results = {}
        for hs in HASH_SEEDS:
            env = dict(os.environ)
            env['PYTHONHASHSEED'] = hs
            p = subprocess.run(
                [sys.executable, os.path.abspath(__file__), '--child', TREE,
                 cfg], env=env, cwd=d, stdout=subprocess.PIPE,
                stderr=subprocess.PIPE, universal_newlines=True)
            if p.returncode != 0:
                print("FAIL: simulation process with PYTHONHASHSEED=%s "
                      "crashed: %s" % (hs, p.stderr.strip().splitlines()[-1:]))
                return 1
            results[hs] = json.loads(p.stdout)
        ref = results[HASH_SEEDS[0]]
        if 'emu_5_out_1' not in ref['tasks']:
            print("FAIL: reference run did not finish the workflow")
            return 1
        for hs in HASH_SEEDS[1:]:
            for part in ('sim', 'tasks', 'events'):
                if results[hs][part] != ref[part]:
                    n, x, y = first_difference(ref[part], results[hs][part])
                    print("FAIL: '%s' table differs between PYTHONHASHSEED=%s "
                          "and PYTHONHASHSEED=%s, first at line %d: [%s] vs "
                          "[%s]; required: identical output for every hash "
                          "seed" % (part, HASH_SEEDS[0], hs, n, x, y))
                    return 1
        print("PASS")
        return 0
    finally:
        shutil.rmtree(d, ignore_errors=True)


if __name__ == '__main__':
    if sys.argv[1] == '--child':
        child(sys.argv[3])
        sys.exit(0)
    sys.exit(main())
