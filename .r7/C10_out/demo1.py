"""
demo1 - C10 reproducibility of two consecutive runs in ONE interpreter that
share the delay model object (as an experiment loop does: the DelayModel /
planning model is built once and handed to every Simulation).

usage: python demo1.py <path-to-tree>

dm = DelayModel(0.5, 'normal', HIGH, seed=8) and BatchPlanning('batch', dm)
are created once; the same configuration is then simulated twice (fresh simpy
environment, fresh Simulation, fresh BatchProcessing each time).  Same
configuration, same algorithms, same delay seed => required: identical
per-timestep table (minus *-algtime), task table and event log.
"""
import sys
import os

TREE = os.path.abspath(sys.argv[1])
sys.path.insert(0, TREE)

import json
import logging
import shutil
import tempfile


def write_config(d):
    mid = [1, 2, 3, 4, 5, 6]
    nodes = [{"id": 0, "comp": 200}]
    nodes += [{"id": i, "comp": 200 + 40 * i} for i in mid]
    nodes += [{"id": 7, "comp": 200}]
    edges = [{"source": 0, "target": i, "transfer_data": 1} for i in mid]
    edges += [{"source": i, "target": 7, "transfer_data": 1} for i in mid]
    wf = {"header": {"time": False},
          "graph": {"directed": True, "multigraph": False, "graph": {},
                    "nodes": nodes, "edges": edges}}
    with open(os.path.join(d, "wf.json"), "w") as f:
        json.dump(wf, f)
    machines = {"m0": 10, "m1": 10, "m2": 10, "m3": 10}
    cfg = {
        "instrument": {"telescope": {
            "total_arrays": 36, "max_ingest_resources": 1,
            "pipelines": {"emu": {"workflow": "wf.json", "ingest_demand": 1}},
            "observations": [{"name": "emu", "start": 0, "duration": 5,
                              "instrument_demand": 36,
                              "data_product_rate": 1}]}},
        "cluster": {"header": {}, "system": {
            "resources": {m: {"flops": f, "compute_bandwidth": 10}
                          for m, f in machines.items()},
            "system_bandwidth": 1.0}},
        "buffer": {"hot": {"capacity": 100, "max_ingest_rate": 5},
                   "cold": {"capacity": 100, "max_data_rate": 5}},
        "timestep": "seconds"}
    p = os.path.join(d, "cfg.json")
    with open(p, "w") as f:
        json.dump(cfg, f)
    return p


def simulate(cfg, plan, dm):
    import simpy
    from topsim.core.simulation import Simulation
    from topsim.user.telescope import Telescope
    from topsim.user.schedule.batch_allocation import BatchProcessing
    sim = Simulation(env=simpy.Environment(), config=cfg, instrument=Telescope,
                     planning_model=plan,
                     planning_algorithm='batch',
                     scheduling=BatchProcessing(min_resources_per_workflow=1),
                     delay=dm, timestamp=0)
    df, tasks = sim.start(runtime=400)
    df = df[[c for c in df.columns if not str(c).endswith('algtime')]]
    return {"sim": df.to_csv(), "tasks": tasks.to_csv(),
            "events": sim.monitor.events.to_csv(index=False)}


def first_difference(a, b):
    """First line at which two CSV dumps differ, as (line_no, a_line, b_line)."""
    la, lb = a.splitlines(), b.splitlines()
    for i in range(max(len(la), len(lb))):
        x = la[i] if i < len(la) else '<missing>'
        y = lb[i] if i < len(lb) else '<missing>'
        if x != y:
            return i, x, y
    return -1, '', ''


def main():
    logging.disable(logging.CRITICAL)
    from topsim.core.delay import DelayModel
    from topsim.user.plan.batch_planning import BatchPlanning
    d = tempfile.mkdtemp(prefix="c10demo1_")
    try:
        cfg = write_config(d)
        dm = DelayModel(0.5, 'normal', DelayModel.DelayDegree.HIGH, seed=8)
        plan = BatchPlanning('batch', delay_model=dm)
        first = simulate(cfg, plan, dm)
        second = simulate(cfg, plan, dm)
        if 'emu_5_7' not in first['tasks']:
            print("FAIL: first run did not finish the workflow")
            return 1
        for part in ('sim', 'tasks', 'events'):
            if first[part] != second[part]:
                n, x, y = first_difference(first[part], second[part])
                print("FAIL: '%s' table of the 2nd run differs from the 1st "
                      "run, first at line %d: [%s] vs [%s], although "
                      "configuration, algorithms and delay seed (8) are the "
                      "same; required: identical" % (part, n, x, y))
                return 1
        print("PASS")
        return 0
    finally:
        shutil.rmtree(d, ignore_errors=True)


if __name__ == '__main__':
    sys.exit(main())
