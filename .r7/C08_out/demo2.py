"""
demo2 - an observation that falls due while the whole system is idle must
start exactly on time, whatever position it has in the observation plan.

usage: python demo2.py <path-to-topsim-tree>
"""
import sys
import os
import json
import shutil
import logging
import tempfile

TREE = os.path.abspath(sys.argv[1]) if len(sys.argv) > 1 else os.getcwd()
sys.path.insert(0, TREE)
logging.disable(logging.CRITICAL)

import simpy  # noqa: E402
from topsim.core.simulation import Simulation  # noqa: E402
from topsim.user.telescope import Telescope  # noqa: E402
from topsim.user.plan.batch_planning import BatchPlanning  # noqa: E402
from topsim.user.schedule.batch_allocation import BatchProcessing  # noqa: E402

N_MACHINES = 6
HOT = COLD = 1000
# (name, planned start, duration): the plan file does NOT list the
# observations in order of their start time.
PLAN = [('late', 14, 3), ('early', 0, 4), ('mid', 30, 2)]
HORIZON = 50


def write_config(d):
    wf = {"header": {"time": False},
          "graph": {"directed": True, "multigraph": False, "graph": {},
                    "nodes": [{"comp": 10, "id": 0}, {"comp": 10, "id": 1}],
                    "edges": [{"transfer_data": 0, "source": 0,
                               "target": 1}]}}
    pipelines = {}
    for name, _, _ in PLAN:
        with open(os.path.join(d, 'wf_%s.json' % name), 'w') as f:
            json.dump(wf, f)
        pipelines[name] = {"workflow": 'wf_%s.json' % name,
                           "ingest_demand": 2}
    observations = [
        {"name": n, "start": s, "duration": dur, "instrument_demand": 12,
         "data_product_rate": 10} for n, s, dur in PLAN]
    cfg = {
        "instrument": {"telescope": {
            "total_arrays": 36, "max_ingest_resources": 4,
            "pipelines": pipelines, "observations": observations}},
        "cluster": {"header": {}, "system": {
            "resources": {"m%d" % i: {"flops": 10, "compute_bandwidth": 10}
                          for i in range(N_MACHINES)},
            "system_bandwidth": 1.0}},
        "buffer": {"hot": {"capacity": HOT, "max_ingest_rate": 100},
                   "cold": {"capacity": COLD, "max_data_rate": 100}},
        "timestep": "seconds"}
    path = os.path.join(d, 'cfg.json')
    with open(path, 'w') as f:
        json.dump(cfg, f)
    return path


def system_idle(sim):
    res = sim.cluster._clusters['default']['resources']
    return (sim.instrument.telescope_use == 0
            and len(res['available']) == N_MACHINES
            and not res['ingest'] and not res['occupied']
            and sim.buffer.hot[0].current_capacity == HOT
            and sim.buffer.cold[0].current_capacity == COLD
            and not sim.scheduler.observation_queue)


def run(cfg):
    sim = Simulation(env=simpy.Environment(), config=cfg,
                     instrument=Telescope,
                     planning_model=BatchPlanning('batch'),
                     planning_algorithm='batch',
                     scheduling=BatchProcessing(min_resources_per_workflow=1),
                     delay=None, timestamp=0)
    idle_at = {0: system_idle(sim)}  # idle_at[t]: idle when step t begins
    sim.start(runtime=1)
    for now in range(1, HORIZON):
        idle_at[now] = system_idle(sim)
        sim.resume(until=now + 1)
    problems = []
    for o in sim.instrument.observations:
        if o.ast is not None and o.ast < o.est:
            problems.append("%s started at t=%s before its planned start %s"
                            % (o.name, o.ast, o.est))
        if idle_at.get(int(o.est)) and o.ast != o.est:
            problems.append(
                "%s fell due at t=%g with the system completely idle but "
                "started at t=%s (required: t=%g)"
                % (o.name, o.est, o.ast, o.est))
        if o.status.value != 'FINISHED':
            problems.append("%s is %s at t=%d, expected FINISHED"
                            % (o.name, o.status.value, HORIZON))
    return problems


def main():
    d = tempfile.mkdtemp(prefix='c08_demo2_')
    try:
        problems = run(write_config(d))
    except Exception as exc:
        problems = ["simulation raised %r" % (exc,)]
    finally:
        shutil.rmtree(d, ignore_errors=True)
    if problems:
        print("FAIL: " + "; ".join(problems))
        return 1
    print("PASS")
    return 0


if __name__ == '__main__':
    sys.exit(main())
