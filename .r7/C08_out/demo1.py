"""
demo1 - machines on ingest must never exceed the ingest-machine limit, also
when two observations fall due in the very same timestep.

usage: python demo1.py <path-to-topsim-tree>
"""
import sys
import os
import json
import shutil
import logging
import tempfile

TREE = os.path.abspath(sys.argv[1]) if len(sys.argv) > 1 else os.getcwd()
sys.path.insert(0, TREE)
logging.disable(logging.CRITICAL)

import simpy  # noqa: E402
from topsim.core.simulation import Simulation  # noqa: E402
from topsim.user.telescope import Telescope  # noqa: E402
from topsim.user.plan.batch_planning import BatchPlanning  # noqa: E402
from topsim.user.schedule.batch_allocation import BatchProcessing  # noqa: E402

MAX_INGEST = 5
N_MACHINES = 10
DEMAND = {'a': 3, 'b': 3}
DURATION = 5


def write_config(d):
    wf = {"header": {"time": False},
          "graph": {"directed": True, "multigraph": False, "graph": {},
                    "nodes": [{"comp": 10, "id": 0}, {"comp": 10, "id": 1}],
                    "edges": [{"transfer_data": 0, "source": 0,
                               "target": 1}]}}
    pipelines = {}
    for name, demand in DEMAND.items():
        with open(os.path.join(d, 'wf_%s.json' % name), 'w') as f:
            json.dump(wf, f)
        pipelines[name] = {"workflow": 'wf_%s.json' % name,
                           "ingest_demand": demand}
    # Both observations are planned for t=0: together they need 6 ingest
    # machines, the limit is 5; arrays, machines and buffers are plentiful.
    observations = [
        {"name": n, "start": 0, "duration": DURATION,
         "instrument_demand": 10, "data_product_rate": 10}
        for n in DEMAND]
    cfg = {
        "instrument": {"telescope": {
            "total_arrays": 36, "max_ingest_resources": MAX_INGEST,
            "pipelines": pipelines, "observations": observations}},
        "cluster": {"header": {}, "system": {
            "resources": {"m%d" % i: {"flops": 10, "compute_bandwidth": 10}
                          for i in range(N_MACHINES)},
            "system_bandwidth": 1.0}},
        "buffer": {"hot": {"capacity": 1000, "max_ingest_rate": 100},
                   "cold": {"capacity": 1000, "max_data_rate": 100}},
        "timestep": "seconds"}
    path = os.path.join(d, 'cfg.json')
    with open(path, 'w') as f:
        json.dump(cfg, f)
    return path


def run(cfg):
    sim = Simulation(env=simpy.Environment(), config=cfg,
                     instrument=Telescope,
                     planning_model=BatchPlanning('batch'),
                     planning_algorithm='batch',
                     scheduling=BatchProcessing(min_resources_per_workflow=1),
                     delay=None, timestamp=0)
    problems = []
    res = sim.cluster._clusters['default']['resources']
    sim.start(runtime=1)
    for now in range(1, 40):
        # state at the end of timestep now-1
        n_ingest = len(res['ingest'])
        if n_ingest > MAX_INGEST:
            problems.append(
                "%d machines on ingest at t=%d, limit is %d (running: %s)"
                % (n_ingest, now - 1, MAX_INGEST,
                   [o.name for o in sim.instrument.observations
                    if o.status.value == 'RUNNING']))
            break
        sim.resume(until=now + 1)
    for o in sim.instrument.observations:
        if o.ast is None:
            problems.append("observation %s never started" % o.name)
        elif o.ast < o.est:
            problems.append("observation %s started early" % o.name)
    return problems


def main():
    d = tempfile.mkdtemp(prefix='c08_demo1_')
    try:
        problems = run(write_config(d))
    except Exception as exc:  # a crash is a failure as well
        problems = ["simulation raised %r" % (exc,)]
    finally:
        shutil.rmtree(d, ignore_errors=True)
    if problems:
        print("FAIL: " + "; ".join(problems)
              + " -- required: ingest machines <= max_ingest_resources "
                "at all times")
        return 1
    print("PASS")
    return 0


if __name__ == '__main__':
    sys.exit(main())
