"""
demo3 - while an observation runs, ingest must hold exactly the pipeline's
machine demand (here: an ingest pipeline that needs most of a small cluster).

usage: python demo3.py <path-to-topsim-tree>
"""
import sys
import os
import json
import shutil
import logging
import tempfile

TREE = os.path.abspath(sys.argv[1]) if len(sys.argv) > 1 else os.getcwd()
sys.path.insert(0, TREE)
logging.disable(logging.CRITICAL)

import simpy  # noqa: E402
from topsim.core.simulation import Simulation  # noqa: E402
from topsim.user.telescope import Telescope  # noqa: E402
from topsim.user.plan.batch_planning import BatchPlanning  # noqa: E402
from topsim.user.schedule.queue_allocation import QueueProcessing  # noqa: E402

N_MACHINES = 5
MAX_INGEST = 4
# name -> (planned start, duration, ingest demand)
PLAN = {'a': (0, 4, 4), 'b': (20, 3, 2)}
HORIZON = 40


def write_config(d):
    wf = {"header": {"time": False},
          "graph": {"directed": True, "multigraph": False, "graph": {},
                    "nodes": [{"comp": 10, "id": 0}, {"comp": 10, "id": 1}],
                    "edges": [{"transfer_data": 0, "source": 0,
                               "target": 1}]}}
    pipelines = {}
    for name, (_, _, demand) in PLAN.items():
        with open(os.path.join(d, 'wf_%s.json' % name), 'w') as f:
            json.dump(wf, f)
        pipelines[name] = {"workflow": 'wf_%s.json' % name,
                           "ingest_demand": demand}
    observations = [
        {"name": n, "start": s, "duration": dur, "instrument_demand": 12,
         "data_product_rate": 10} for n, (s, dur, _) in PLAN.items()]
    cfg = {
        "instrument": {"telescope": {
            "total_arrays": 36, "max_ingest_resources": MAX_INGEST,
            "pipelines": pipelines, "observations": observations}},
        "cluster": {"header": {}, "system": {
            "resources": {"m%d" % i: {"flops": 10, "compute_bandwidth": 10}
                          for i in range(N_MACHINES)},
            "system_bandwidth": 1.0}},
        "buffer": {"hot": {"capacity": 1000, "max_ingest_rate": 100},
                   "cold": {"capacity": 1000, "max_data_rate": 100}},
        "timestep": "seconds"}
    path = os.path.join(d, 'cfg.json')
    with open(path, 'w') as f:
        json.dump(cfg, f)
    return path


def run(cfg):
    sim = Simulation(env=simpy.Environment(), config=cfg,
                     instrument=Telescope,
                     planning_model=BatchPlanning('batch'),
                     planning_algorithm='batch',
                     scheduling=QueueProcessing(),
                     delay=None, timestamp=0)
    res = sim.cluster._clusters['default']['resources']
    problems = []
    sim.start(runtime=1)
    for now in range(1, HORIZON):
        t = now - 1  # the timestep that has just been completed
        # Ingest machines are taken in the start step `ast` and given back
        # in step ast + duration - 1 (see test_cluster.py), so at the end
        # of steps ast .. ast+duration-2 the whole demand must be held.
        expected = 0
        running = []
        for o in sim.instrument.observations:
            if o.ast is not None and o.ast <= t <= o.ast + o.duration - 2:
                expected += PLAN[o.name][2]
                running.append(o.name)
        held = len(set(m.id for m in res['ingest']))
        if held != expected or len(res['ingest']) != expected:
            problems.append(
                "at t=%d ingest holds %d distinct machines (%d entries) for "
                "%s, required exactly the pipeline demand %d"
                % (t, held, len(res['ingest']), running or 'nothing',
                   expected))
            break
        if len(res['ingest']) > MAX_INGEST:
            problems.append("ingest limit exceeded at t=%d" % t)
            break
        sim.resume(until=now + 1)
    if not problems:
        for o in sim.instrument.observations:
            if o.ast is None:
                problems.append("observation %s never started" % o.name)
    return problems


def main():
    d = tempfile.mkdtemp(prefix='c08_demo3_')
    try:
        problems = run(write_config(d))
    except Exception as exc:
        problems = ["simulation raised %r" % (exc,)]
    finally:
        shutil.rmtree(d, ignore_errors=True)
    if problems:
        print("FAIL: " + "; ".join(problems))
        return 1
    print("PASS")
    return 0


if __name__ == '__main__':
    sys.exit(main())
