"""
demo2 - C09, bug2 (Scheduler._update_current_plan).

Usage: python demo2.py <path-to-tree>

Scenario: 4 machines, 1 partition (reservation size 4, minimum 3).  Workflow
'a' has two sinks: 0 -> 1 (long) and 0 -> 2 (short); task 2 is the last one in
execution order but finishes well before task 1.  A second observation 'b'
queues up behind it.  After every timestep the cluster pools are inspected:
tasks of a workflow may only run while the workflow holds its reservation, and
the reservation may only be released once every task has finished.
"""
import json, os, sys, shutil, tempfile, logging


def write_workflow(path, nodes, edges):
    g = {"directed": True, "multigraph": False, "graph": {},
         "nodes": [{"id": n, "comp": c} for n, c in nodes.items()],
         "edges": [{"source": u, "target": v, "transfer_data": d}
                   for u, v, d in edges]}
    with open(path, 'w') as f:
        json.dump({"header": {"time": False}, "graph": g}, f)


def write_config(path, n_machines, observations, max_ingest):
    pipelines = {o['name']: {"workflow": o['workflow'],
                             "ingest_demand": o['ingest_demand']}
                 for o in observations}
    obs = [{"name": o['name'], "start": o['start'], "duration": o['duration'],
            "instrument_demand": 1, "data_product_rate": 1}
           for o in observations]
    cfg = {"instrument": {"telescope": {
               "total_arrays": 36, "max_ingest_resources": max_ingest,
               "pipelines": pipelines, "observations": obs}},
           "cluster": {"header": {"time": "false", "gen_specs": {}},
                       "system": {"resources": {
                           "m%d" % i: {"flops": 10, "compute_bandwidth": 10}
                           for i in range(n_machines)},
                           "system_bandwidth": 1.0}},
           "buffer": {"hot": {"capacity": 1000, "max_ingest_rate": 100},
                      "cold": {"capacity": 1000, "max_data_rate": 100}},
           "timestep": "seconds"}
    with open(path, 'w') as f:
        json.dump(cfg, f)


class Violation(Exception):
    pass


class Checker:
    """Black-box observer of the cluster pools, sampled between timesteps."""

    def __init__(self, sim, partitions, size_of, min_of):
        self.sim = sim
        self.partitions = partitions
        self.size_of = size_of      # obs name -> maximum reservation size
        self.min_of = min_of        # obs name -> minimum reservation size
        self.reserved = {}          # obs name -> frozenset of machine ids
        self.plans = {}             # obs name -> full list of workflow tasks
        self.released = set()
        self.seen_reservations = 0

    def _wf_running(self):
        """{obs: {machine id: task}} for running workflow (non-ingest) tasks"""
        out = {}
        running = self.sim.cluster._clusters['default']['tasks']['running']
        for t in running:
            if '_ingest_t' in t.id:
                continue
            name = t.id.split('_')[0]
            m = t.allocated_machine_id
            out.setdefault(name, {})[getattr(m, 'id', m)] = t
        return out

    def check(self):
        from topsim.core.task import TaskStatus
        sim = self.sim
        now = sim.env.now
        res = sim.cluster._clusters['default']['resources']
        avail = [m.id for m in res['available']]
        occ = [m.id for m in res['occupied']]
        ing = [m.id for m in res['ingest']]
        idle = {k: [m.id for m in v] for k, v in res['idle'].items()}
        allm = sorted(m.id for m in sim.cluster.machines)
        pools = avail + occ + ing + [m for v in idle.values() for m in v]
        if sorted(pools) != allm:
            raise Violation("t=%s machine pools are not a partition of the "
                            "cluster: available=%s idle=%s occupied=%s "
                            "ingest=%s" % (now, avail, idle, occ, ing))
        for o in sim.scheduler.observation_queue:
            if o.name not in self.plans and o.plan is not None:
                self.plans[o.name] = list(o.plan.tasks)
        if len(idle) > self.partitions:
            raise Violation("t=%s %d reservations exist (%s), at most %d "
                            "allowed" % (now, len(idle), sorted(idle),
                                         self.partitions))
        running = self._wf_running()
        for name, on in running.items():
            if name not in idle:
                raise Violation("t=%s task(s) %s of workflow %s run on %s "
                                "but %s holds no reservation (required: only "
                                "on machines reserved for it)"
                                % (now, sorted(x.id for x in on.values()),
                                   name, sorted(on), name))
        for name, free in idle.items():
            current = frozenset(free) | frozenset(running.get(name, {}))
            if name not in self.reserved:
                self.reserved[name] = current
                self.seen_reservations += 1
                lo, hi = self.min_of[name], self.size_of[name]
                if not lo <= len(current) <= hi:
                    raise Violation("t=%s reservation of %s has %d machines "
                                    "%s, required between %d and %d"
                                    % (now, name, len(current),
                                       sorted(current), lo, hi))
            elif current != self.reserved[name]:
                raise Violation("t=%s reservation of %s changed from %s to "
                                "%s before the workflow finished (required: "
                                "exclusive and constant until released)"
                                % (now, name, sorted(self.reserved[name]),
                                   sorted(current)))
        for name in list(self.reserved):
            if name in idle or name in self.released:
                continue
            # the reservation has just been released
            self.released.add(name)
            pending = [t.id for t in self.plans.get(name, [])
                       if t.task_status is not TaskStatus.FINISHED]
            if pending:
                raise Violation("t=%s reservation of %s released while its "
                                "tasks %s have not finished (required: "
                                "released when the last task has finished)"
                                % (now, name, pending))

    def final(self, expected_workflows):
        sim = self.sim
        res = sim.cluster._clusters['default']['resources']
        if res['idle'] or sim.cluster.num_provisioned_obs != 0:
            raise Violation("end: reservations left behind: %s (counter %s)"
                            % (list(res['idle']),
                               sim.cluster.num_provisioned_obs))
        if len(res['available']) != len(sim.cluster.machines):
            raise Violation("end: only %d of %d machines are back in the free "
                            "pool" % (len(res['available']),
                                      len(sim.cluster.machines)))
        if sorted(self.released) != sorted(expected_workflows):
            raise Violation("end: workflows that reserved and released: %s, "
                            "expected %s" % (sorted(self.released),
                                             sorted(expected_workflows)))


def run_scenario(tree, build, scheduling_factory, partitions, size_of, min_of,
                 expected, horizon=200):
    sys.path.insert(0, tree)
    logging.disable(logging.CRITICAL)
    import simpy
    from topsim.core.simulation import Simulation
    from topsim.user.telescope import Telescope
    from topsim.user.plan.batch_planning import BatchPlanning
    tmp = tempfile.mkdtemp(prefix='c09demo_')
    try:
        cfg = build(tmp)
        sim = Simulation(env=simpy.Environment(), config=cfg,
                         instrument=Telescope,
                         planning_model=BatchPlanning('batch'),
                         planning_algorithm='batch',
                         scheduling=scheduling_factory(), delay=None,
                         timestamp=0)
        chk = Checker(sim, partitions, size_of, min_of)
        sim.start(runtime=1)
        chk.check()
        t = 1
        while not sim.is_finished():
            t += 1
            if t > horizon:
                raise Violation("simulation did not finish within %d steps"
                                % horizon)
            sim.resume(t)
            chk.check()
        chk.final(expected)
        return None
    except Violation as v:
        return str(v)
    except Exception as e:     # the simulation itself fell over
        return "simulation raised %s: %s" % (type(e).__name__, e)
    finally:
        shutil.rmtree(tmp, ignore_errors=True)


def main(scenario):
    if len(sys.argv) != 2:
        print("usage: demo.py <path-to-tree>")
        sys.exit(2)
    devnull = open(os.devnull, 'w')
    old = sys.stdout, sys.stderr
    sys.stdout = sys.stderr = devnull     # tqdm progress bars, stray prints
    try:
        msg = scenario(os.path.abspath(sys.argv[1]))
    finally:
        sys.stdout, sys.stderr = old
        devnull.close()
    if msg is None:
        print("PASS")
        sys.exit(0)
    print("FAIL: " + msg)
    sys.exit(1)


def scenario(tree):
    def build(tmp):
        # two sinks: 0 -> 1 (long), 0 -> 2 (short); 2 is last in exec order
        write_workflow(os.path.join(tmp, 'twosinks.json'),
                       {0: 20, 1: 90, 2: 20},
                       [(0, 1, 5), (0, 2, 5)])
        write_workflow(os.path.join(tmp, 'chain.json'),
                       {0: 30, 1: 30, 2: 20}, [(0, 1, 5), (1, 2, 5)])
        obs = [dict(name='a', start=0, duration=3, ingest_demand=2, workflow='twosinks.json'),
               dict(name='b', start=4, duration=3, ingest_demand=2, workflow='chain.json')]
        cfg = os.path.join(tmp, 'cfg.json')
        write_config(cfg, 4, obs, 2)
        return cfg
    def sched():
        from topsim.user.schedule.batch_allocation import BatchProcessing
        return BatchProcessing(max_resource_partitions=1, min_resources_per_workflow=3)
    size = {n: 4 for n in 'ab'}
    mn = {n: 3 for n in 'ab'}
    return run_scenario(tree, build, sched, 1, size, mn, ['a', 'b'])

if __name__ == '__main__':
    main(scenario)
