import sys, os, json, tempfile, shutil, logging

if len(sys.argv) != 2:
    print("usage: demo.py <path-to-tree>")
    sys.exit(2)
sys.path.insert(0, os.path.abspath(sys.argv[1]))
logging.disable(logging.CRITICAL)
os.environ.setdefault("TQDM_DISABLE", "1")

import simpy
import networkx as nx
from topsim.core.simulation import Simulation
from topsim.core.task import Task
from topsim.core.planner import WorkflowPlan, WorkflowStatus
from topsim.algorithms.planning import Planning
from topsim.user.telescope import Telescope
from topsim.user.schedule.dynamic_plan import DynamicSchedulingFromPlan


class PinPlanning(Planning):
    """Tiny static planner: the plan (machine, est, eft of every task) is
    written in the workflow file itself as node attributes."""

    def __init__(self):
        super().__init__('pin')
        self.planned = {}

    def generate_plan(self, clock, cluster, buffer, observation, max_ingest):
        with open(observation.workflow) as f:
            g = nx.readwrite.node_link_graph(json.load(f)['graph'],
                                             edges='edges')
        mapping, tasks = {}, []
        for n in nx.topological_sort(g):
            tid = self._create_observation_task_id(n, observation, clock)
            preds = [self._create_observation_task_id(p, observation, clock)
                     for p in g.predecessors(n)]
            io = {self._create_observation_task_id(p, observation, clock):
                      g.edges[p, n].get('transfer_data', 0)
                  for p in g.predecessors(n)}
            nd = g.nodes[n]
            t = Task(tid, nd['est'], nd['eft'], nd['machine'], preds,
                     nd['comp'], nd.get('task_data', 0), io, None, gid=n)
            self.planned[tid] = nd['machine']
            mapping[n] = t
            tasks.append(t)
        tasks.sort(key=lambda x: x.est)
        return WorkflowPlan(observation.name, observation.duration,
                            max(t.eft for t in tasks), tasks,
                            [t.id for t in tasks], WorkflowStatus.SCHEDULED,
                            max_ingest, nx.relabel_nodes(g, mapping))

    def to_df(self):
        pass


def write_inputs(tmp, machines, observations, workflows, max_ingest):
    for wn, (nodes, edges) in workflows.items():
        with open(os.path.join(tmp, wn + '.json'), 'w') as f:
            json.dump({'header': {}, 'graph': {
                'directed': True, 'multigraph': False, 'graph': {},
                'nodes': nodes,
                'edges': [{'source': s, 'target': t, 'transfer_data': d}
                          for s, t, d in edges]}}, f)
    cfg = {
        'instrument': {'telescope': {
            'total_arrays': 36, 'max_ingest_resources': max_ingest,
            'pipelines': {o['name']: {'workflow': o['wf'] + '.json',
                                      'ingest_demand': o['ingest_demand']}
                          for o in observations},
            'observations': [{'name': o['name'], 'start': o['start'],
                              'duration': o['duration'],
                              'instrument_demand': 1,
                              'data_product_rate': 1} for o in observations]}},
        'cluster': {'header': {}, 'system': {
            'resources': {m: {'flops': fl, 'compute_bandwidth': bw}
                          for m, (fl, bw) in machines.items()},
            'system_bandwidth': 1.0}},
        'buffer': {'hot': {'capacity': 1000, 'max_ingest_rate': 10},
                   'cold': {'capacity': 1000, 'max_data_rate': 10}},
        'timestep': 'seconds'}
    path = os.path.join(tmp, 'cfg.json')
    with open(path, 'w') as f:
        json.dump(cfg, f)
    return path


def simulate(machines, observations, workflows, runtime, max_ingest=2,
             scheduling=None):
    """Run one simulation; return (planned {task: machine id},
    executed [(task, machine id, time)])."""
    tmp = tempfile.mkdtemp(prefix='c17demo')
    executed = []
    orig = Task.do_work

    def spy(self, env, machine, predecessor_allocations=None):
        executed.append((self.id, machine.id, env.now))
        return orig(self, env, machine, predecessor_allocations)

    Task.do_work = spy
    try:
        cfg = write_inputs(tmp, machines, observations, workflows, max_ingest)
        planning = PinPlanning()
        sim = Simulation(env=simpy.Environment(), config=cfg,
                         instrument=Telescope, planning_model=planning,
                         planning_algorithm='pin',
                         scheduling=scheduling or DynamicSchedulingFromPlan(),
                         delay=None, timestamp=0)
        sim.start(runtime=runtime)
        return planning.planned, executed
    finally:
        Task.do_work = orig
        shutil.rmtree(tmp, ignore_errors=True)


def check(planned, executed, expect_tasks):
    """Every workflow task must have executed exactly once, on its planned
    machine. Returns list of problems."""
    problems = []
    ran = {}
    for tid, mid, now in executed:
        if tid not in planned:
            continue  # ingest task
        ran.setdefault(tid, []).append((mid, now))
    for tid, runs in sorted(ran.items()):
        for mid, now in runs:
            if mid != planned[tid]:
                problems.append("task %s executed on %s at t=%s but its plan "
                                "says %s" % (tid, mid, now, planned[tid]))
        if len(runs) != 1:
            problems.append("task %s executed %d times" % (tid, len(runs)))
    if len(ran) != expect_tasks:
        problems.append("%d workflow tasks executed, %d required"
                        % (len(ran), expect_tasks))
    return problems


MACHINES = {'fast0': (100, 10), 'fast1': (100, 10),
            'slow0': (10, 5), 'slow1': (10, 5)}
EDGES = [(0, 1, 5), (0, 2, 5), (1, 3, 5), (2, 3, 5)]


def workflow(placement):
    comp = {0: 500, 1: 500, 2: 50, 3: 300}
    win = {0: (0, 5), 1: (5, 10), 2: (5, 10), 3: (10, 13)}
    return ([{'id': n, 'comp': comp[n], 'machine': placement[n],
              'est': win[n][0], 'eft': win[n][1]} for n in range(4)], EDGES)


OBS = [dict(name='a', start=0, duration=5, ingest_demand=1, wf='wf'),
       dict(name='b', start=6, duration=5, ingest_demand=1, wf='wf')]

# The same scheduling policy object drives two simulations of the same
# telescope/cluster configuration, each with its own static plan (e.g. two
# planners being compared).
policy = DynamicSchedulingFromPlan()
plan_one = {0: 'fast0', 1: 'fast0', 2: 'slow0', 3: 'fast1'}
plan_two = {0: 'fast1', 1: 'slow1', 2: 'fast0', 3: 'slow0'}

problems = []
for label, placement in (('first', plan_one), ('second', plan_two)):
    planned, executed = simulate(MACHINES, OBS, {'wf': workflow(placement)},
                                 runtime=150, scheduling=policy)
    problems += ["%s simulation: %s" % (label, p)
                 for p in check(planned, executed, expect_tasks=8)]

if problems:
    print("FAIL: " + "; ".join(problems[:4])
          + (" (+%d more)" % (len(problems) - 4) if len(problems) > 4 else "")
          + " -- required: every task executes on its planned machine")
    sys.exit(1)
print("PASS")
