import sys, os, json, tempfile, shutil, logging

if len(sys.argv) != 2:
    print("usage: demo.py <path-to-tree>")
    sys.exit(2)
sys.path.insert(0, os.path.abspath(sys.argv[1]))
logging.disable(logging.CRITICAL)
os.environ.setdefault("TQDM_DISABLE", "1")

import simpy
import networkx as nx
from topsim.core.simulation import Simulation
from topsim.core.task import Task
from topsim.core.planner import WorkflowPlan, WorkflowStatus
from topsim.algorithms.planning import Planning
from topsim.user.telescope import Telescope
from topsim.user.schedule.dynamic_plan import DynamicSchedulingFromPlan


class PinPlanning(Planning):
    """Tiny static planner: the plan (machine, est, eft of every task) is
    written in the workflow file itself as node attributes."""

    def __init__(self):
        super().__init__('pin')
        self.planned = {}

    def generate_plan(self, clock, cluster, buffer, observation, max_ingest):
        with open(observation.workflow) as f:
            g = nx.readwrite.node_link_graph(json.load(f)['graph'],
                                             edges='edges')
        mapping, tasks = {}, []
        for n in nx.topological_sort(g):
            tid = self._create_observation_task_id(n, observation, clock)
            preds = [self._create_observation_task_id(p, observation, clock)
                     for p in g.predecessors(n)]
            io = {self._create_observation_task_id(p, observation, clock):
                      g.edges[p, n].get('transfer_data', 0)
                  for p in g.predecessors(n)}
            nd = g.nodes[n]
            t = Task(tid, nd['est'], nd['eft'], nd['machine'], preds,
                     nd['comp'], nd.get('task_data', 0), io, None, gid=n)
            self.planned[tid] = nd['machine']
            mapping[n] = t
            tasks.append(t)
        tasks.sort(key=lambda x: x.est)
        return WorkflowPlan(observation.name, observation.duration,
                            max(t.eft for t in tasks), tasks,
                            [t.id for t in tasks], WorkflowStatus.SCHEDULED,
                            max_ingest, nx.relabel_nodes(g, mapping))

    def to_df(self):
        pass


def write_inputs(tmp, machines, observations, workflows, max_ingest):
    for wn, (nodes, edges) in workflows.items():
        with open(os.path.join(tmp, wn + '.json'), 'w') as f:
            json.dump({'header': {}, 'graph': {
                'directed': True, 'multigraph': False, 'graph': {},
                'nodes': nodes,
                'edges': [{'source': s, 'target': t, 'transfer_data': d}
                          for s, t, d in edges]}}, f)
    cfg = {
        'instrument': {'telescope': {
            'total_arrays': 36, 'max_ingest_resources': max_ingest,
            'pipelines': {o['name']: {'workflow': o['wf'] + '.json',
                                      'ingest_demand': o['ingest_demand']}
                          for o in observations},
            'observations': [{'name': o['name'], 'start': o['start'],
                              'duration': o['duration'],
                              'instrument_demand': 1,
                              'data_product_rate': 1} for o in observations]}},
        'cluster': {'header': {}, 'system': {
            'resources': {m: {'flops': fl, 'compute_bandwidth': bw}
                          for m, (fl, bw) in machines.items()},
            'system_bandwidth': 1.0}},
        'buffer': {'hot': {'capacity': 1000, 'max_ingest_rate': 10},
                   'cold': {'capacity': 1000, 'max_data_rate': 10}},
        'timestep': 'seconds'}
    path = os.path.join(tmp, 'cfg.json')
    with open(path, 'w') as f:
        json.dump(cfg, f)
    return path


def simulate(machines, observations, workflows, runtime, max_ingest=2,
             scheduling=None):
    """Run one simulation; return (planned {task: machine id},
    executed [(task, machine id, time)])."""
    tmp = tempfile.mkdtemp(prefix='c17demo')
    executed = []
    orig = Task.do_work

    def spy(self, env, machine, predecessor_allocations=None):
        executed.append((self.id, machine.id, env.now))
        return orig(self, env, machine, predecessor_allocations)

    Task.do_work = spy
    try:
        cfg = write_inputs(tmp, machines, observations, workflows, max_ingest)
        planning = PinPlanning()
        sim = Simulation(env=simpy.Environment(), config=cfg,
                         instrument=Telescope, planning_model=planning,
                         planning_algorithm='pin',
                         scheduling=scheduling or DynamicSchedulingFromPlan(),
                         delay=None, timestamp=0)
        sim.start(runtime=runtime)
        return planning.planned, executed
    finally:
        Task.do_work = orig
        shutil.rmtree(tmp, ignore_errors=True)


def check(planned, executed, expect_tasks):
    """Every workflow task must have executed exactly once, on its planned
    machine. Returns list of problems."""
    problems = []
    ran = {}
    for tid, mid, now in executed:
        if tid not in planned:
            continue  # ingest task
        ran.setdefault(tid, []).append((mid, now))
    for tid, runs in sorted(ran.items()):
        for mid, now in runs:
            if mid != planned[tid]:
                problems.append("task %s executed on %s at t=%s but its plan "
                                "says %s" % (tid, mid, now, planned[tid]))
        if len(runs) != 1:
            problems.append("task %s executed %d times" % (tid, len(runs)))
    if len(ran) != expect_tasks:
        problems.append("%d workflow tasks executed, %d required"
                        % (len(ran), expect_tasks))
    return problems


# Heterogeneous cluster; the plan puts a pre-processing step on a slow node
# and the heavy step that consumes its (large) output on a fast node.
MACHINES = {'fast0': (100, 10), 'fast1': (100, 10),
            'slow0': (10, 5), 'slow1': (10, 5)}
NODES = [
    {'id': 0, 'comp': 30, 'machine': 'slow0', 'est': 0, 'eft': 3},
    {'id': 1, 'comp': 400, 'machine': 'fast0', 'est': 3, 'eft': 7},
    {'id': 2, 'comp': 200, 'machine': 'fast1', 'est': 3, 'eft': 5},
    {'id': 3, 'comp': 20, 'machine': 'slow1', 'est': 7, 'eft': 9},
]
# edge 0->1 carries 120 units: 12 timesteps over fast0's link, longer than
# the 4 timesteps task 1 is planned to run. The other edges are small.
EDGES = [(0, 1, 120), (0, 2, 5), (1, 3, 5), (2, 3, 5)]
OBS = [dict(name='a', start=0, duration=5, ingest_demand=1, wf='wf'),
       dict(name='b', start=6, duration=5, ingest_demand=1, wf='wf')]

planned, executed = simulate(MACHINES, OBS, {'wf': (NODES, EDGES)},
                             runtime=150)
problems = check(planned, executed, expect_tasks=8)
if problems:
    print("FAIL: " + "; ".join(problems[:4])
          + " -- required: every task executes on its planned machine, "
            "however costly the transfer of its input")
    sys.exit(1)
print("PASS")
