"""
demo1 - C14 (a generated plan is a faithful copy of the workflow graph).

Scenario: a workflow in which SOME nodes carry a data demand ('task_data')
and others do not, arranged so that a node WITHOUT data demand comes after a
node WITH data demand in the topological order.  Every task of the plan must
carry exactly its own node's compute and data demand (0 when absent).

usage: python demo1.py <path-to-tree>
"""
import sys

sys.path.insert(0, sys.argv[1])

import json
import os
import shutil
import tempfile
import warnings

warnings.simplefilter('ignore')

import networkx as nx  # noqa: E402

from topsim.core.instrument import Observation  # noqa: E402
from topsim.core.planner import Planner  # noqa: E402
from topsim.user.plan.batch_planning import BatchPlanning  # noqa: E402


class FakeEnv:
    def __init__(self, now):
        self.now = now


class FakeBuffer:
    def buffer_storage_summary(self):
        return {'coldbuffer': {'data_rate': 2}, 'hotbuffer': {'data_rate': 4}}


def write_workflow(directory, fname, nodes, edges):
    """nodes: {id: attrs}, edges: [(u, v, transfer)]"""
    desc = {
        'header': {'generator': 'demo'},
        'graph': {
            'directed': True, 'multigraph': False, 'graph': {},
            'nodes': [dict(id=n, **a) for n, a in nodes.items()],
            'edges': [
                {'source': u, 'target': v, 'transfer_data': w}
                for u, v, w in edges
            ],
        }
    }
    path = os.path.join(directory, fname)
    with open(path, 'w') as fp:
        json.dump(desc, fp)
    return path


def check_plan(plan, nodes, edges, obs_name, label):
    """Return a list of human readable violations of C14 (empty = ok)."""
    errs = []
    tasks = list(plan.tasks)
    # one task per node
    gids = [t.graph_id for t in tasks]
    if sorted(map(str, gids)) != sorted(map(str, nodes)):
        errs.append(f'{label}: tasks map to nodes {gids}, required exactly '
                    f'one per node of {list(nodes)}')
        return errs
    by_node = {t.graph_id: t for t in tasks}
    ids = [t.id for t in tasks]
    if len(set(ids)) != len(ids):
        errs.append(f'{label}: task ids not unique: {ids}')
    for t in tasks:
        if obs_name not in str(t.id):
            errs.append(f'{label}: task id {t.id!r} does not carry the '
                        f'observation name {obs_name!r}')
    # demands
    for n, attrs in nodes.items():
        t = by_node[n]
        want = (attrs['comp'], attrs.get('task_data', 0))
        got = (t.flops, t.task_data)
        if want != got:
            errs.append(f'{label}: node {n}: (comp, task_data) = {got}, '
                        f'required {want}')
    # predecessor lists and per-edge volumes
    for n in nodes:
        t = by_node[n]
        want_pred = sorted(by_node[u].id for u, v, _ in edges if v == n)
        if sorted(t.pred) != want_pred:
            errs.append(f'{label}: node {n}: pred = {sorted(t.pred)}, '
                        f'required {want_pred}')
        want_io = {by_node[u].id: w for u, v, w in edges if v == n}
        if dict(t.io) != want_io:
            errs.append(f'{label}: node {n}: edge volumes = {dict(t.io)}, '
                        f'required {want_io}')
    # edges of the plan graph + query symmetry
    want_edges = sorted((by_node[u].id, by_node[v].id) for u, v, _ in edges)
    got_edges = sorted((a.id, b.id) for a, b in plan.graph.edges())
    if want_edges != got_edges:
        errs.append(f'{label}: plan edges = {got_edges}, '
                    f'required {want_edges}')
    if sorted(x.id for x in plan.graph.nodes()) != sorted(ids):
        errs.append(f'{label}: plan graph nodes differ from plan tasks')
    else:
        for p in tasks:
            for t in tasks:
                a = any(x is p for x in plan.get_task_predecessors(t))
                b = any(x is t for x in plan.get_task_successors(p))
                c = any(u == p.graph_id and v == t.graph_id
                        for u, v, _ in edges)
                if not (a == b == c):
                    errs.append(f'{label}: {p.id}->{t.id}: predecessor '
                                f'query {a}, successor query {b}, graph {c}')
    # topological order of the task list and of exec_order
    pos = {t.graph_id: i for i, t in enumerate(tasks)}
    for u, v, _ in edges:
        if pos[u] > pos[v]:
            errs.append(f'{label}: task list not topological: task of node '
                        f'{v} listed before its predecessor {u} '
                        f'(order {[t.graph_id for t in tasks]})')
    eo = {n: i for i, n in enumerate(plan.exec_order)}
    if sorted(map(str, eo)) != sorted(map(str, nodes)):
        errs.append(f'{label}: exec_order {plan.exec_order} is not a '
                    f'permutation of the nodes')
    else:
        for u, v, _ in edges:
            if eo[u] > eo[v]:
                errs.append(f'{label}: exec_order not topological '
                            f'({u} after {v})')
    return errs


def make_plan(model, clock, obs):
    planner = Planner(FakeEnv(clock), cluster=None, model=model)
    return planner.run(obs, FakeBuffer(), 5)


def main():
    tmp = tempfile.mkdtemp(prefix='c14_demo1_')
    errs = []
    try:
        # 0 -> 1 -> 3, 0 -> 2 -> 3 (diamond) plus an isolated node 4.
        # nodes 0 and 2 have a data demand; 1, 3 and 4 have none.
        nodes = {
            0: {'comp': 100, 'task_data': 40},
            1: {'comp': 200},
            2: {'comp': 300, 'task_data': 70},
            3: {'comp': 400},
            4: {'comp': 50},
        }
        edges = [(0, 1, 11), (0, 2, 12), (1, 3, 13), (2, 3, 14)]
        wf = write_workflow(tmp, 'mixed.json', nodes, edges)
        obs = Observation('emu', 0, 10, 36, wf, 5)
        plan = make_plan(BatchPlanning('batch'), 0, obs)
        errs += check_plan(plan, nodes, edges, 'emu', 'mixed-demand diamond')

        # control: all nodes without data demand, and all nodes with
        nodes_b = {0: {'comp': 10}, 1: {'comp': 20}, 2: {'comp': 30}}
        edges_b = [(0, 1, 1), (1, 2, 2)]
        wf = write_workflow(tmp, 'nodata.json', nodes_b, edges_b)
        obs = Observation('dingo', 7, 10, 36, wf, 5)
        plan = make_plan(BatchPlanning('batch'), 7, obs)
        errs += check_plan(plan, nodes_b, edges_b, 'dingo', 'chain no data')

        nodes_c = {'a': {'comp': 10, 'task_data': 3},
                   'b': {'comp': 20, 'task_data': 0},
                   'c': {'comp': 30, 'task_data': 9}}
        edges_c = [('a', 'b', 1), ('a', 'c', 2)]
        wf = write_workflow(tmp, 'alldata.json', nodes_c, edges_c)
        obs = Observation('wallaby', 3, 10, 36, wf, 5)
        plan = make_plan(BatchPlanning('batch'), 3, obs)
        errs += check_plan(plan, nodes_c, edges_c, 'wallaby', 'fork all data')
    finally:
        shutil.rmtree(tmp, ignore_errors=True)

    if errs:
        print('FAIL: ' + ' | '.join(errs[:4]))
        return 1
    print('PASS')
    return 0


if __name__ == '__main__':
    sys.exit(main())
