"""
demo2 - C14 (a generated plan is a faithful copy of the workflow graph).

Scenario: workflows whose node labels do NOT sort (as text) in a topological
order: a 12-node pipeline 0 -> 1 -> ... -> 11 (so "10" < "2" as text), and a
small graph whose labels run against the edge direction ('z' -> 'm' -> 'a').
The plan's task list (plan.tasks) must be in a topological order of the graph.

usage: python demo2.py <path-to-tree>
"""
import sys

sys.path.insert(0, sys.argv[1])

import json
import os
import shutil
import tempfile
import warnings

warnings.simplefilter('ignore')

import networkx as nx  # noqa: E402

from topsim.core.instrument import Observation  # noqa: E402
from topsim.core.planner import Planner  # noqa: E402
from topsim.user.plan.batch_planning import BatchPlanning  # noqa: E402


class FakeEnv:
    def __init__(self, now):
        self.now = now


class FakeBuffer:
    def buffer_storage_summary(self):
        return {'coldbuffer': {'data_rate': 2}, 'hotbuffer': {'data_rate': 4}}


def write_workflow(directory, fname, nodes, edges):
    """nodes: {id: attrs}, edges: [(u, v, transfer)]"""
    desc = {
        'header': {'generator': 'demo'},
        'graph': {
            'directed': True, 'multigraph': False, 'graph': {},
            'nodes': [dict(id=n, **a) for n, a in nodes.items()],
            'edges': [
                {'source': u, 'target': v, 'transfer_data': w}
                for u, v, w in edges
            ],
        }
    }
    path = os.path.join(directory, fname)
    with open(path, 'w') as fp:
        json.dump(desc, fp)
    return path


def check_plan(plan, nodes, edges, obs_name, label):
    """Return a list of human readable violations of C14 (empty = ok)."""
    errs = []
    tasks = list(plan.tasks)
    # one task per node
    gids = [t.graph_id for t in tasks]
    if sorted(map(str, gids)) != sorted(map(str, nodes)):
        errs.append(f'{label}: tasks map to nodes {gids}, required exactly '
                    f'one per node of {list(nodes)}')
        return errs
    by_node = {t.graph_id: t for t in tasks}
    ids = [t.id for t in tasks]
    if len(set(ids)) != len(ids):
        errs.append(f'{label}: task ids not unique: {ids}')
    for t in tasks:
        if obs_name not in str(t.id):
            errs.append(f'{label}: task id {t.id!r} does not carry the '
                        f'observation name {obs_name!r}')
    # demands
    for n, attrs in nodes.items():
        t = by_node[n]
        want = (attrs['comp'], attrs.get('task_data', 0))
        got = (t.flops, t.task_data)
        if want != got:
            errs.append(f'{label}: node {n}: (comp, task_data) = {got}, '
                        f'required {want}')
    # predecessor lists and per-edge volumes
    for n in nodes:
        t = by_node[n]
        want_pred = sorted(by_node[u].id for u, v, _ in edges if v == n)
        if sorted(t.pred) != want_pred:
            errs.append(f'{label}: node {n}: pred = {sorted(t.pred)}, '
                        f'required {want_pred}')
        want_io = {by_node[u].id: w for u, v, w in edges if v == n}
        if dict(t.io) != want_io:
            errs.append(f'{label}: node {n}: edge volumes = {dict(t.io)}, '
                        f'required {want_io}')
    # edges of the plan graph + query symmetry
    want_edges = sorted((by_node[u].id, by_node[v].id) for u, v, _ in edges)
    got_edges = sorted((a.id, b.id) for a, b in plan.graph.edges())
    if want_edges != got_edges:
        errs.append(f'{label}: plan edges = {got_edges}, '
                    f'required {want_edges}')
    if sorted(x.id for x in plan.graph.nodes()) != sorted(ids):
        errs.append(f'{label}: plan graph nodes differ from plan tasks')
    else:
        for p in tasks:
            for t in tasks:
                a = any(x is p for x in plan.get_task_predecessors(t))
                b = any(x is t for x in plan.get_task_successors(p))
                c = any(u == p.graph_id and v == t.graph_id
                        for u, v, _ in edges)
                if not (a == b == c):
                    errs.append(f'{label}: {p.id}->{t.id}: predecessor '
                                f'query {a}, successor query {b}, graph {c}')
    # topological order of the task list and of exec_order
    pos = {t.graph_id: i for i, t in enumerate(tasks)}
    for u, v, _ in edges:
        if pos[u] > pos[v]:
            errs.append(f'{label}: task list not topological: task of node '
                        f'{v} listed before its predecessor {u} '
                        f'(order {[t.graph_id for t in tasks]})')
    eo = {n: i for i, n in enumerate(plan.exec_order)}
    if sorted(map(str, eo)) != sorted(map(str, nodes)):
        errs.append(f'{label}: exec_order {plan.exec_order} is not a '
                    f'permutation of the nodes')
    else:
        for u, v, _ in edges:
            if eo[u] > eo[v]:
                errs.append(f'{label}: exec_order not topological '
                            f'({u} after {v})')
    return errs


def make_plan(model, clock, obs):
    planner = Planner(FakeEnv(clock), cluster=None, model=model)
    return planner.run(obs, FakeBuffer(), 5)


def main():
    tmp = tempfile.mkdtemp(prefix='c14_demo2_')
    errs = []
    try:
        # 12-stage pipeline with a side branch 2 -> 10 (already implied order)
        nodes = {i: {'comp': 10 * (i + 1), 'task_data': i % 4}
                 for i in range(12)}
        edges = [(i, i + 1, i + 1) for i in range(11)] + [(2, 10, 99)]
        wf = write_workflow(tmp, 'pipeline12.json', nodes, edges)
        obs = Observation('emu', 0, 10, 36, wf, 5)
        plan = make_plan(BatchPlanning('batch'), 0, obs)
        errs += check_plan(plan, nodes, edges, 'emu', '12-stage pipeline')

        # labels running against the edge direction, plus a lone node
        nodes_b = {'z': {'comp': 5}, 'm': {'comp': 6},
                   'a': {'comp': 7}, 'q': {'comp': 1}}
        edges_b = [('z', 'm', 3), ('m', 'a', 4)]
        wf = write_workflow(tmp, 'reverse.json', nodes_b, edges_b)
        obs = Observation('dingo', 20, 10, 36, wf, 5)
        plan = make_plan(BatchPlanning('batch'), 20, obs)
        errs += check_plan(plan, nodes_b, edges_b, 'dingo', 'reverse labels')

        # control: 10-node diamond-ish graph with "well behaved" labels
        nodes_c = {i: {'comp': i + 1} for i in range(10)}
        edges_c = [(0, 1, 1), (0, 2, 1), (1, 3, 1), (2, 3, 1), (3, 4, 2),
                   (4, 5, 2), (4, 6, 2), (5, 7, 3), (6, 8, 3), (7, 9, 4),
                   (8, 9, 4)]
        wf = write_workflow(tmp, 'ten.json', nodes_c, edges_c)
        obs = Observation('wallaby', 3, 10, 36, wf, 5)
        plan = make_plan(BatchPlanning('batch'), 3, obs)
        errs += check_plan(plan, nodes_c, edges_c, 'wallaby', 'ten nodes')
    finally:
        shutil.rmtree(tmp, ignore_errors=True)

    if errs:
        print('FAIL: ' + ' | '.join(errs[:4]))
        return 1
    print('PASS')
    return 0


if __name__ == '__main__':
    sys.exit(main())
