"""
demo2 - C06: every workflow task runs for
    max(floor(compute demand / cpu), floor(data demand / bandwidth), 1)
timesteps, where the demands are the ones given for THAT node in the workflow
file (a node without a "task_data" attribute has data demand 0).

Scenario: a workflow that mixes data-heavy nodes (with "task_data") and pure
compute nodes (attribute absent), run end-to-end with BatchPlanning +
BatchProcessing on a homogeneous cluster.  The runtime of every finished task
(recorded aft - ast) is compared with the value required by the workflow file.

usage: demo2.py <path-to-tree>
"""
import sys
import os

sys.path.insert(0, sys.argv[1])

import json
import logging
import shutil
import tempfile
import warnings

warnings.simplefilter('ignore')
logging.disable(logging.CRITICAL)

import simpy

from topsim.core.simulation import Simulation
from topsim.user.telescope import Telescope
from topsim.user.plan.batch_planning import BatchPlanning
from topsim.user.schedule.batch_allocation import BatchProcessing

CPU, BW = 10, 10
OBS_DURATION = 3
# id -> node attributes as written to the workflow file
NODES = [
    {"id": 0, "comp": 20, "task_data": 60},   # data bound: 6 steps
    {"id": 1, "comp": 30},                    # compute only: 3 steps
    {"id": 2, "comp": 50, "task_data": 10},   # compute bound: 5 steps
    {"id": 3, "comp": 5},                     # sub-timestep: 1 step
    {"id": 4, "comp": 40, "task_data": 0},    # explicit zero data: 4 steps
]
EDGES = [
    {"source": 0, "target": 1, "transfer_data": 0},
    {"source": 1, "target": 2, "transfer_data": 0},
    {"source": 2, "target": 3, "transfer_data": 0},
    {"source": 3, "target": 4, "transfer_data": 0},
]


def write_config(tmp):
    wf = {"header": {}, "graph": {
        "directed": True, "multigraph": False, "graph": {},
        "nodes": NODES, "edges": EDGES}}
    with open(os.path.join(tmp, 'wf.json'), 'w') as f:
        json.dump(wf, f)
    cfg = {
        "instrument": {"telescope": {
            "total_arrays": 36, "max_ingest_resources": 1,
            "pipelines": {"obs1": {"workflow": "wf.json", "ingest_demand": 1}},
            "observations": [{"name": "obs1", "start": 0,
                              "duration": OBS_DURATION,
                              "instrument_demand": 36,
                              "data_product_rate": 1}]}},
        "cluster": {"header": {}, "system": {
            "resources": {"m%d" % i: {"flops": CPU, "compute_bandwidth": BW}
                          for i in range(3)},
            "system_bandwidth": 1.0}},
        "buffer": {"hot": {"capacity": 1000, "max_ingest_rate": 10},
                   "cold": {"capacity": 1000, "max_data_rate": 10}},
        "timestep": "seconds"}
    path = os.path.join(tmp, 'cfg.json')
    with open(path, 'w') as f:
        json.dump(cfg, f)
    return path


def main():
    tmp = tempfile.mkdtemp(prefix='c06_demo2_')
    try:
        env = simpy.Environment()
        sim = Simulation(env=env, config=write_config(tmp),
                         instrument=Telescope,
                         planning_model=BatchPlanning('batch'),
                         planning_algorithm='batch',
                         scheduling=BatchProcessing(
                             min_resources_per_workflow=1),
                         delay=None, timestamp=0)
        sim.start(runtime=80)
        finished = [t for t, done in sim.cluster._tasks['finished'].items()
                    if done]
    finally:
        shutil.rmtree(tmp, ignore_errors=True)

    problems = []
    workflow_tasks = [t for t in finished if 'ingest' not in t.id]
    ingest_tasks = [t for t in finished if 'ingest' in t.id]
    if len(workflow_tasks) != len(NODES) or len(ingest_tasks) != 1:
        problems.append("expected %d workflow + 1 ingest task to finish, got "
                        "%d + %d" % (len(NODES), len(workflow_tasks),
                                     len(ingest_tasks)))
    demands = {n["id"]: (n["comp"], n.get("task_data", 0)) for n in NODES}
    for t in sorted(workflow_tasks, key=lambda x: x.graph_id):
        comp, data = demands[t.graph_id]
        need = max(comp // CPU, data // BW, 1)
        got = t.aft - t.ast
        if got != need:
            problems.append(
                "node %s (comp=%s, task_data=%s) on cpu=%s/bw=%s ran %s "
                "timesteps [ast=%s aft=%s], required %s"
                % (t.graph_id, comp, data, CPU, BW, got, t.ast, t.aft, need))
    for t in ingest_tasks:
        if t.aft - t.ast != OBS_DURATION:
            problems.append("ingest task ran %s, required %s"
                            % (t.aft - t.ast, OBS_DURATION))
    if problems:
        print("FAIL: " + " | ".join(problems))
        return 1
    print("PASS")
    return 0


if __name__ == '__main__':
    sys.exit(main())
