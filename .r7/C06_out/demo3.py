"""
demo3 - C06: a task's runtime is its base runtime
    base = max(floor(compute / cpu), floor(data / bandwidth))
lengthened by exactly what the delay model makes of it, i.e. the task runs
max(delay_model.generate_delay(base), 1) timesteps - for ALL delay-model
outputs and ALL demands, including zero / sub-timestep demands (base == 0).

Scenario: a delay model that adds a fixed start-up overhead of 2 timesteps to
every task (generate_delay(r) == r + 2).  A workflow with a zero-demand node,
a sub-timestep node and ordinary nodes is run end-to-end (BatchPlanning with
that delay model + BatchProcessing), and the same is repeated on hand-built
Task objects.  Recorded aft - ast must equal generate_delay(base).

usage: demo3.py <path-to-tree>
"""
import sys
import os

sys.path.insert(0, sys.argv[1])

import json
import logging
import shutil
import tempfile
import warnings

warnings.simplefilter('ignore')
logging.disable(logging.CRITICAL)

import simpy

from topsim.core.simulation import Simulation
from topsim.core.delay import DelayModel
from topsim.core.task import Task
from topsim.user.telescope import Telescope
from topsim.user.plan.batch_planning import BatchPlanning
from topsim.user.schedule.batch_allocation import BatchProcessing

CPU, BW = 10, 10
OVERHEAD = 2
NODES = [
    {"id": 0, "comp": 30, "task_data": 0},    # base 3
    {"id": 1, "comp": 5, "task_data": 3},     # base 0 (sub-timestep)
    {"id": 2, "comp": 0, "task_data": 0},     # base 0 (zero demand)
    {"id": 3, "comp": 10, "task_data": 45},   # base 4 (data bound)
]
EDGES = [
    {"source": 0, "target": 1, "transfer_data": 0},
    {"source": 1, "target": 2, "transfer_data": 0},
    {"source": 2, "target": 3, "transfer_data": 0},
]


class StartupOverheadDelay(DelayModel):
    """Every task pays a fixed start-up overhead, whatever its length."""

    def __init__(self, overhead):
        super().__init__(1.0, "normal", DelayModel.DelayDegree.LOW)
        self.overhead = overhead

    def generate_delay(self, task_runtime, n=100):
        return task_runtime + self.overhead


def write_config(tmp):
    wf = {"header": {}, "graph": {
        "directed": True, "multigraph": False, "graph": {},
        "nodes": NODES, "edges": EDGES}}
    with open(os.path.join(tmp, 'wf.json'), 'w') as f:
        json.dump(wf, f)
    cfg = {
        "instrument": {"telescope": {
            "total_arrays": 36, "max_ingest_resources": 1,
            "pipelines": {"obs1": {"workflow": "wf.json", "ingest_demand": 1}},
            "observations": [{"name": "obs1", "start": 0, "duration": 3,
                              "instrument_demand": 36,
                              "data_product_rate": 1}]}},
        "cluster": {"header": {}, "system": {
            "resources": {"m%d" % i: {"flops": CPU, "compute_bandwidth": BW}
                          for i in range(3)},
            "system_bandwidth": 1.0}},
        "buffer": {"hot": {"capacity": 1000, "max_ingest_rate": 10},
                   "cold": {"capacity": 1000, "max_data_rate": 10}},
        "timestep": "seconds"}
    path = os.path.join(tmp, 'cfg.json')
    with open(path, 'w') as f:
        json.dump(cfg, f)
    return path


def required(comp, data, model):
    base = max(comp // CPU, data // BW)
    return max(model.generate_delay(base), 1)


def run_simulation(tmp):
    model = StartupOverheadDelay(OVERHEAD)
    env = simpy.Environment()
    sim = Simulation(env=env, config=write_config(tmp), instrument=Telescope,
                     planning_model=BatchPlanning('batch', delay_model=model),
                     planning_algorithm='batch',
                     scheduling=BatchProcessing(min_resources_per_workflow=1),
                     delay=model, timestamp=0)
    sim.start(runtime=80)
    tasks = [t for t, done in sim.cluster._tasks['finished'].items()
             if done and 'ingest' not in t.id]
    problems = []
    if len(tasks) != len(NODES):
        problems.append("simulation: %d of %d workflow tasks finished"
                        % (len(tasks), len(NODES)))
    demands = {n["id"]: (n["comp"], n["task_data"]) for n in NODES}
    for t in sorted(tasks, key=lambda x: x.graph_id):
        comp, data = demands[t.graph_id]
        need = required(comp, data, model)
        got = t.aft - t.ast
        if got != need:
            problems.append(
                "simulation: node %s (comp=%s, data=%s; base runtime %s) with "
                "a +%s delay model ran %s timesteps [ast=%s aft=%s], "
                "required %s" % (t.graph_id, comp, data,
                                 max(comp // CPU, data // BW), OVERHEAD, got,
                                 t.ast, t.aft, need))
    return problems


def run_direct():
    class M:
        id, cpu, bandwidth = 'm', CPU, BW

    problems = []
    model = StartupOverheadDelay(OVERHEAD)
    for comp, data in [(0, 0), (9, 0), (0, 9), (10, 0), (35, 70)]:
        env = simpy.Environment()
        task = Task('t', 0, 0, None, [], comp, data, {}, model)
        env.process(task.do_work(env, M()))
        env.run()
        need = required(comp, data, model)
        got = task.aft - task.ast
        if got != need:
            problems.append("direct: task comp=%s data=%s with a +%s delay "
                            "model ran %s timesteps, required %s"
                            % (comp, data, OVERHEAD, got, need))
    # the stock model must still behave as before on an ordinary task
    env = simpy.Environment()
    stock = DelayModel(0.3, "normal")
    task = Task('t', 0, 0, None, [], 110, 0, {}, stock)
    env.process(task.do_work(env, M()))
    env.run()
    if task.aft - task.ast != stock.generate_delay(11):
        problems.append("direct: stock delay model: ran %s, required %s"
                        % (task.aft - task.ast, stock.generate_delay(11)))
    return problems


def main():
    tmp = tempfile.mkdtemp(prefix='c06_demo3_')
    try:
        problems = run_simulation(tmp) + run_direct()
    finally:
        shutil.rmtree(tmp, ignore_errors=True)
    if problems:
        print("FAIL: " + " | ".join(problems))
        return 1
    print("PASS")
    return 0


if __name__ == '__main__':
    sys.exit(main())
