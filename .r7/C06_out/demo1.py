"""
demo1 - C06: a workflow task runs for max(floor(flops/cpu), floor(data/bw))
(at least 1) timesteps ON THE MACHINE IT ACTUALLY OCCUPIES.

Scenario: a static plan puts two independent tasks one after the other on the
slow machine.  At run time GreedySchedulingFromPlan finds the slow machine
occupied by the first task and moves the second task onto the idle FAST
machine.  The second task must then take floor(100/50) = 2 timesteps, not the
10 timesteps that were planned for the slow machine.

usage: demo1.py <path-to-tree>
"""
import sys
import os

sys.path.insert(0, sys.argv[1])

import json
import logging
import shutil
import tempfile
import warnings

warnings.simplefilter('ignore')
logging.disable(logging.CRITICAL)

import simpy
import networkx as nx

from topsim.core.simulation import Simulation
from topsim.core.task import Task
from topsim.core.planner import WorkflowPlan, WorkflowStatus
from topsim.algorithms.planning import Planning
from topsim.user.telescope import Telescope
from topsim.user.schedule.greedy import GreedySchedulingFromPlan

FLOPS = 100
MACHINES = {"slow": (10, 10), "fast": (50, 10)}  # id -> (cpu, bandwidth)


class SerialOnSlowPlanning(Planning):
    """Plans every workflow node back-to-back on the machine called 'slow'."""

    def generate_plan(self, clock, cluster, buffer, observation, max_ingest):
        with open(observation.workflow) as f:
            graph = nx.readwrite.node_link_graph(json.load(f)['graph'])
        slow = cluster.get_machine_from_id('slow')
        tasks, mapping, t = [], {}, 0
        order = list(nx.topological_sort(graph))
        for node in order:
            comp = graph.nodes[node]['comp']
            dur = max(int(comp / slow.cpu), 1)
            tid = self._create_observation_task_id(node, observation, clock)
            pred = [self._create_observation_task_id(p, observation, clock)
                    for p in graph.predecessors(node)]
            task = Task(tid, t, t + dur, 'slow', pred, comp, 0, {}, None,
                        gid=node)
            t += dur
            tasks.append(task)
            mapping[node] = task
        return WorkflowPlan(observation.name, 0, t, tasks, order,
                            WorkflowStatus.SCHEDULED, max_ingest,
                            nx.relabel_nodes(graph, mapping))

    def to_df(self):
        return None


def write_config(tmp):
    wf = {"header": {}, "graph": {
        "directed": True, "multigraph": False, "graph": {},
        "nodes": [{"id": 0, "comp": FLOPS}, {"id": 1, "comp": FLOPS}],
        "edges": []}}
    with open(os.path.join(tmp, 'wf.json'), 'w') as f:
        json.dump(wf, f)
    cfg = {
        "instrument": {"telescope": {
            "total_arrays": 36, "max_ingest_resources": 1,
            "pipelines": {"obs1": {"workflow": "wf.json", "ingest_demand": 1}},
            "observations": [{"name": "obs1", "start": 0, "duration": 3,
                              "instrument_demand": 36,
                              "data_product_rate": 1}]}},
        "cluster": {"header": {}, "system": {
            "resources": {k: {"flops": v[0], "compute_bandwidth": v[1]}
                          for k, v in MACHINES.items()},
            "system_bandwidth": 1.0}},
        "buffer": {"hot": {"capacity": 1000, "max_ingest_rate": 10},
                   "cold": {"capacity": 1000, "max_data_rate": 10}},
        "timestep": "seconds"}
    path = os.path.join(tmp, 'cfg.json')
    with open(path, 'w') as f:
        json.dump(cfg, f)
    return path


def required_runtime(flops, data, cpu, bw):
    return max(int(flops // cpu), int(data // bw), 1)


def run_simulation(tmp):
    """Returns a list of problems found in the full simulation."""
    env = simpy.Environment()
    sim = Simulation(env=env, config=write_config(tmp), instrument=Telescope,
                     planning_model=SerialOnSlowPlanning('serial'),
                     planning_algorithm='serial',
                     scheduling=GreedySchedulingFromPlan(),
                     delay=None, timestamp=0)
    # record the machine each task is really given
    ran_on = {}
    original = sim.cluster.allocate_task_to_cluster

    def spy(task, machine, *args, **kwargs):
        ran_on[task.id] = machine
        return original(task, machine, *args, **kwargs)

    sim.cluster.allocate_task_to_cluster = spy
    sim.start(runtime=60)

    problems = []
    finished = [t for t, done in sim.cluster._tasks['finished'].items()
                if done and 'ingest' not in t.id]
    if len(finished) != 2:
        return ["simulation: expected 2 finished workflow tasks, got %d"
                % len(finished)]
    moved = 0
    for t in finished:
        m = ran_on[t.id]
        cpu, bw = MACHINES[m.id]
        need = required_runtime(t.flops, t.task_data, cpu, bw)
        got = t.aft - t.ast
        if m.id == 'fast':
            moved += 1
        if got != need:
            problems.append(
                "simulation: task %s (flops=%s) ran on machine '%s' (cpu=%s) "
                "for %s timesteps [ast=%s aft=%s], required %s"
                % (t.id, t.flops, m.id, cpu, got, t.ast, t.aft, need))
    if moved != 1:
        problems.append("simulation: scenario did not move exactly one task "
                        "to the fast machine (moved=%d)" % moved)
    return problems


def run_direct():
    """Same thing on hand-built objects (scheduler protocol by hand)."""

    class M:
        def __init__(self, mid, cpu, bw):
            self.id, self.cpu, self.bandwidth = mid, cpu, bw

    problems = []
    for mid, (cpu, bw) in MACHINES.items():
        env = simpy.Environment()
        task = Task('t', 0, 10, 'slow', [], FLOPS, 0, {}, None)
        m = M(mid, cpu, bw)
        if m.id != task.allocated_machine_id:   # as the Scheduler does
            task.update_allocation(m)
        env.process(task.do_work(env, m))
        env.run()
        need = required_runtime(FLOPS, 0, cpu, bw)
        got = task.aft - task.ast
        if got != need:
            problems.append("direct: task planned for 10 steps on 'slow' ran "
                            "on '%s' (cpu=%s) for %s timesteps, required %s"
                            % (mid, cpu, got, need))
    return problems


def main():
    tmp = tempfile.mkdtemp(prefix='c06_demo1_')
    try:
        problems = run_simulation(tmp) + run_direct()
    finally:
        shutil.rmtree(tmp, ignore_errors=True)
    if problems:
        print("FAIL: " + " | ".join(problems))
        return 1
    print("PASS")
    return 0


if __name__ == '__main__':
    sys.exit(main())
