#!/usr/bin/env python
"""C01 demo 2: after a batch-processed workflow has handed its reservation
back, later ingest pipelines and workflows must still get distinct, free machines.

Usage: python demo2.py <path-to-topsim-tree>
Prints PASS (exit 0) if no machine ever executes two tasks at once,
otherwise FAIL: ... (exit 1).
"""
import sys
import os
import json
import shutil
import logging
import tempfile

if len(sys.argv) != 2:
    print("usage: %s <path-to-tree>" % sys.argv[0])
    sys.exit(2)
sys.path.insert(0, os.path.abspath(sys.argv[1]))
logging.disable(logging.CRITICAL)

import simpy  # noqa: E402
from topsim.core.simulation import Simulation  # noqa: E402
from topsim.core.task import Task  # noqa: E402
from topsim.user.telescope import Telescope  # noqa: E402
from topsim.user.plan.batch_planning import BatchPlanning  # noqa: E402
from topsim.user.schedule.batch_allocation import BatchProcessing  # noqa: E402
from topsim.user.schedule.queue_allocation import QueueProcessing  # noqa: E402

# --------------------------------------------------------------------------
# Observer: a machine "executes" a task for as long as the task's do_work()
# process is alive on it.  Record every moment a do_work() starts on a
# machine that still has another do_work() alive.
# --------------------------------------------------------------------------
ACTIVE = {}      # machine id -> list of tasks currently executing
EXECUTED = []    # (start, machine id, task id)
OVERLAPS = []    # (time, machine id, new task id, [running task ids])
_orig_do_work = Task.do_work


def _observed_do_work(self, env, machine, predecessor_allocations=None):
    running = ACTIVE.setdefault(machine.id, [])
    if running:
        OVERLAPS.append((env.now, machine.id, self.id,
                         [t.id for t in running]))
    running.append(self)
    EXECUTED.append((env.now, machine.id, self.id))
    try:
        yield from _orig_do_work(self, env, machine, predecessor_allocations)
    finally:
        running.remove(self)


Task.do_work = _observed_do_work


def workflow(chain, width, comp):
    """`width` independent chains of `chain` tasks each."""
    nodes, edges, k = [], [], 0
    for _ in range(width):
        prev = None
        for _ in range(chain):
            nodes.append({"id": k, "comp": comp, "task_data": 0})
            if prev is not None:
                edges.append({"source": prev, "target": k,
                              "transfer_data": 0})
            prev = k
            k += 1
    return {"graph": {"directed": True, "multigraph": False, "graph": {},
                      "nodes": nodes, "edges": edges}}


def obs(name, start, duration):
    return {"name": name, "start": start, "duration": duration,
            "instrument_demand": 1, "data_product_rate": 1}


def write_config(directory, n_machines, observations, pipelines):
    """pipelines: name -> (workflow dict, ingest demand)"""
    pl = {}
    for name, (wf, demand) in pipelines.items():
        with open(os.path.join(directory, "wf_%s.json" % name), 'w') as f:
            json.dump(wf, f)
        pl[name] = {"workflow": "wf_%s.json" % name, "ingest_demand": demand}
    cfg = {
        "instrument": {"telescope": {
            "total_arrays": 36, "max_ingest_resources": n_machines,
            "pipelines": pl, "observations": observations}},
        "cluster": {"header": {}, "system": {
            "resources": {"m%d" % i: {"flops": 10, "compute_bandwidth": 10}
                          for i in range(n_machines)},
            "system_bandwidth": 1.0}},
        "buffer": {"hot": {"capacity": 1000, "max_ingest_rate": 100},
                   "cold": {"capacity": 1000, "max_data_rate": 100}},
        "timestep": "seconds"}
    path = os.path.join(directory, "config.json")
    with open(path, 'w') as f:
        json.dump(cfg, f)
    return path


def run(config, scheduling, runtime):
    """Returns (overlaps, number of task executions, exception or None)"""
    ACTIVE.clear()
    del EXECUTED[:]
    del OVERLAPS[:]
    env = simpy.Environment()
    sim = Simulation(env=env, config=config, instrument=Telescope,
                     planning_model=BatchPlanning('batch'),
                     planning_algorithm='batch', scheduling=scheduling,
                     delay=None, timestamp=0)
    error = None
    try:
        sim.start(runtime=runtime)
    except Exception as e:  # a crash after an overlap is still an overlap
        error = e
    return list(OVERLAPS), len(EXECUTED), error


def scenarios(directory):
    """Yield (label, config path, scheduling object, runtime, expected
    number of task executions)"""
    # Four machines, batch processing with a single reservation at a time.
    # 'a' is observed and processed first; much later 'b' is observed and
    # processed, and 'c' starts its ingest while b's workflow is running.
    config = write_config(
        directory, 4,
        [obs('a', 0, 3), obs('b', 20, 4), obs('c', 24, 6)],
        {'a': (workflow(2, 2, 30), 1), 'b': (workflow(2, 2, 30), 1),
         'c': (workflow(1, 1, 30), 2)})
    yield ("batch-1-partition", config,
           BatchProcessing(max_resource_partitions=1,
                           min_resources_per_workflow=1), 80, 13)
    # same, three machines and longer chains
    config3 = write_config(
        directory, 3,
        [obs('a', 0, 3), obs('b', 20, 4), obs('c', 25, 6)],
        {'a': (workflow(3, 1, 30), 1), 'b': (workflow(2, 1, 30), 1),
         'c': (workflow(1, 1, 30), 2)})
    yield ("batch-1-partition-chain", config3,
           BatchProcessing(max_resource_partitions=1,
                           min_resources_per_workflow=1), 80, 10)


def main():
    directory = tempfile.mkdtemp(prefix="topsim_c01_")
    problems = []
    try:
        for label, config, scheduling, runtime, expected in scenarios(
                directory):
            overlaps, executed, error = run(config, scheduling, runtime)
            for (now, mid, new, old) in overlaps:
                problems.append(
                    "[%s] t=%s: machine %s started task %s while still "
                    "executing %s (required: at most one task per machine "
                    "at every instant)" % (label, now, mid, new,
                                           ", ".join(old)))
            if error is not None:
                problems.append("[%s] simulation raised %r (required: the "
                                "scenario runs to completion)" % (label,
                                                                  error))
            elif executed != expected:
                problems.append(
                    "[%s] %d task executions observed, %d required (every "
                    "ingest and workflow task runs exactly once)" % (
                        label, executed, expected))
    finally:
        shutil.rmtree(directory, ignore_errors=True)
    if problems:
        print("FAIL: " + problems[0])
        for p in problems[1:]:
            print("      " + p)
        return 1
    print("PASS")
    return 0


if __name__ == '__main__':
    sys.exit(main())
