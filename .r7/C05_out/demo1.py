"""
C05 demo 1 - an observation that fills the hot buffer to *exactly* the tiering
threshold (60 %) must still be processed.

usage: demo1.py <path-to-tree>

Scenario (hot buffer 100, threshold 0.6):
  * 'half' : one observation of 50 units  (50 % - sanity case)
  * 'exact': one observation of 60 units  (exactly 60 %)
With exactly 60 % in the hot tier Buffer.run does not regard the tier as over
its threshold (so it never moves the data to the cold tier); the scheduler
therefore has to pick the observation up from the hot tier.  Required: the run
completes without raising inside the serial bound.
"""
import contextlib
import io
import json
import logging
import os
import shutil
import sys
import tempfile
import warnings

sys.dont_write_bytecode = True
warnings.filterwarnings('ignore')

if len(sys.argv) != 2:
    print("usage: demo.py <path-to-tree>")
    sys.exit(2)
sys.path.insert(0, os.path.abspath(sys.argv[1]))
logging.disable(logging.CRITICAL)

import simpy  # noqa: E402

from topsim.core.simulation import Simulation  # noqa: E402
from topsim.user.telescope import Telescope  # noqa: E402
from topsim.user.plan.batch_planning import BatchPlanning  # noqa: E402
from topsim.user.schedule.batch_allocation import BatchProcessing  # noqa: E402

LATENCY = 5  # generous constant per-step latency used in the serial bound


def workflow(nodes, edges):
    """networkx node-link graph: nodes=[(id, comp)], edges=[(src, dst, data)]"""
    return {"header": {"time": False},
            "graph": {"directed": True, "multigraph": False, "graph": {},
                      "nodes": [{"id": i, "comp": c} for i, c in nodes],
                      "edges": [{"source": s, "target": t, "transfer_data": d}
                                for s, t, d in edges]}}


def make_config(machines, max_ingest, hot, cold, hot_rate, cold_rate,
                observations, pipelines):
    return {
        "instrument": {"telescope": {
            "total_arrays": 36, "max_ingest_resources": max_ingest,
            "pipelines": pipelines, "observations": observations}},
        "cluster": {"header": {}, "system": {
            "resources": {m: {"flops": f, "compute_bandwidth": bw}
                          for m, f, bw in machines},
            "system_bandwidth": 1.0}},
        "buffer": {"hot": {"capacity": hot, "max_ingest_rate": hot_rate},
                   "cold": {"capacity": cold, "max_data_rate": cold_rate}},
    }


def serial_bound(cfg, workflows):
    """latest planned start + sum over observations of (duration, two buffer
    tier transfers, every task on the slowest machine, every edge transfer
    wait) with LATENCY added for each of those steps."""
    tel = cfg["instrument"]["telescope"]
    res = cfg["cluster"]["system"]["resources"].values()
    slow_cpu = min(r["flops"] for r in res)
    slow_bw = min(r["compute_bandwidth"] for r in res)
    tier_rate = min(cfg["buffer"]["hot"]["max_ingest_rate"],
                    cfg["buffer"]["cold"]["max_data_rate"])
    bound = max(o["start"] for o in tel["observations"])
    for o in tel["observations"]:
        g = workflows[tel["pipelines"][o["name"]]["workflow"]]["graph"]
        size = o["duration"] * o["data_product_rate"]
        bound += o["duration"] + LATENCY
        bound += 2 * (-(-size // tier_rate) + LATENCY)
        for n in g["nodes"]:
            bound += -(-n["comp"] // slow_cpu) + LATENCY
        for e in g["edges"]:
            bound += -(-e["transfer_data"] // slow_bw) + LATENCY
    return int(bound)


def simulate(cfg, workflows, scheduling, runtime):
    """Run the configuration for `runtime` steps. Returns (sim, error)."""
    tmp = tempfile.mkdtemp(prefix="c05_demo_")
    try:
        for name, wf in workflows.items():
            with open(os.path.join(tmp, name), "w") as fp:
                json.dump(wf, fp)
        path = os.path.join(tmp, "config.json")
        with open(path, "w") as fp:
            json.dump(cfg, fp)
        sink = io.StringIO()
        with contextlib.redirect_stderr(sink), contextlib.redirect_stdout(sink):
            sim = Simulation(env=simpy.Environment(), config=path,
                             instrument=Telescope,
                             planning_model=BatchPlanning('batch'),
                             planning_algorithm='batch',
                             scheduling=scheduling, delay=None, timestamp=0)
            try:
                sim.start(runtime=runtime)
            except Exception as exc:  # the property forbids any raise
                return sim, exc
        return sim, None
    finally:
        shutil.rmtree(tmp, ignore_errors=True)


def finished_observations(sim):
    ev = sim.monitor.events
    if len(ev) == 0:
        return set()
    done = ev[(ev["actor"] == "buffer") & (ev["event"] == "removed")]
    return set(done["observation"])


def check(label, cfg, workflows, scheduling):
    """Returns None when the configuration ran to completion inside the
    serial bound, otherwise a description of what was observed."""
    bound = serial_bound(cfg, workflows)
    sim, err = simulate(cfg, workflows, scheduling, bound + 1)
    names = {o["name"] for o in cfg["instrument"]["telescope"]["observations"]}
    if err is not None:
        return (f"{label}: raised {type(err).__name__}: {err} at t="
                f"{sim.env.now}; required: no exception")
    done = finished_observations(sim)
    if done != names or not sim.is_finished():
        return (f"{label}: at the serial bound t={bound} finished="
                f"{sorted(done)}, simulation finished={sim.is_finished()}; "
                f"required: all of {sorted(names)} processed and the "
                f"simulation idle by then")
    return None


def scenario(rate):
    wf = workflow([(0, 100), (1, 200), (2, 100), (3, 100)],
                  [(0, 1, 10), (0, 2, 10), (1, 3, 10), (2, 3, 10)])
    machines = [("m%d" % i, 50, 10) for i in range(3)]
    pipelines = {"obs": {"workflow": "wf.json", "ingest_demand": 1}}
    observations = [{"name": "obs", "start": 0, "duration": 10,
                     "instrument_demand": 12, "data_product_rate": rate}]
    cfg = make_config(machines, 2, hot=100, cold=100, hot_rate=10,
                      cold_rate=5, observations=observations,
                      pipelines=pipelines)
    return cfg, {"wf.json": wf}


def main():
    problems = []
    for label, rate in (("half (50% of hot buffer)", 5),
                        ("exact (60% of hot buffer)", 6)):
        cfg, wfs = scenario(rate)
        sched = BatchProcessing(min_resources_per_workflow=1,
                                max_resource_partitions=1)
        msg = check(label, cfg, wfs, sched)
        if msg:
            problems.append(msg)
    if problems:
        print("FAIL: " + " | ".join(problems))
        return 1
    print("PASS")
    return 0


if __name__ == "__main__":
    sys.exit(main())
