#!/usr/bin/env python3
"""fast round-2 matrix: apply every .r2 diff to a temp copy and run all checks (no baseline/demos).
usage: tools_r2_quick.py [benign|bug] [Cnn ...]"""
import glob, os, re, shutil, subprocess, sys, tempfile
from concurrent.futures import ProcessPoolExecutor

PROPS = ['C%02d' % i for i in range(1, 20)]


def one(d):
    tmp = tempfile.mkdtemp(prefix='r2q_')
    try:
        shutil.copytree('/repo/topsim', tmp + '/topsim', ignore=shutil.ignore_patterns('__pycache__'))
        r = subprocess.run(['git', 'apply', '--unsafe-paths', '--directory=' + tmp, d], capture_output=True, text=True)
        if r.returncode != 0:
            return d, {'apply': (9, [r.stderr[-150:]])}
        det = {}
        for p in PROPS:
            r = subprocess.run(['/venv/bin/python', '-B', '-m', 'sa.cli', p, '--repo', tmp, '--no-evidence'],
                               cwd=os.environ.get('SA_ROOT', '/verif'), capture_output=True, text=True)
            if r.returncode != 0:
                lines = [l.strip().replace(tmp + '/', '') for l in r.stdout.splitlines()
                         if l.strip().startswith(('rule', 'ANALYSIS'))]
                det[p] = (r.returncode, lines[:3])
        return d, det
    finally:
        shutil.rmtree(tmp, ignore_errors=True)


def main():
    kind = None
    sel = []
    for a in sys.argv[1:]:
        if a in ('benign', 'bug'):
            kind = a
        else:
            sel.append(a)
    rdir = '/verif/.r%s' % os.environ.get('R', '2')
    diffs = sorted(glob.glob(rdir + '/C*_out/*.diff'))
    if kind:
        diffs = [d for d in diffs if os.path.basename(d).startswith(kind)]
    if sel:
        diffs = [d for d in diffs if any(('/%s_out/' % s) in d for s in sel)]
    with ProcessPoolExecutor(max_workers=16) as ex:
        for d, det in ex.map(one, diffs):
            name = d.split('/')[-2][:3] + '-' + os.path.basename(d)[:-5]
            print('%-14s %s' % (name, {k: v[0] for k, v in det.items()} or '-'))
            if '-v' in sys.argv or True:
                for k, v in det.items():
                    for l in v[1][:2]:
                        print('      %s: %s' % (k, l[:250]))


if __name__ == '__main__':
    main()
