"""
Demo for C07 / bug2: an observation whose actual start is LATER than its
planned start must still deposit its data rate for exactly `duration`
timesteps, rest in the hot buffer, and have exactly that amount freed when
its workflow completes.

usage: python demo2.py <path-to-tree>

Scenario (telescope with 36 arrays):
  a : planned start 1, duration 5, rate 4, needs all 36 arrays
  b : planned start 3, duration 6, rate 3, needs 20 arrays -> the telescope
      refuses b until a has finished (t=6), i.e. b starts 3 timesteps late.
Checked after every timestep:
  * 0 <= free(hot) <= capacity
  * used(hot) == data deposited so far by observations not yet removed
  * while an observation is ingesting, used(hot) grows by exactly its rate
and at the end: b made exactly 6 deposits of 3 (18 in total), both
observations were handed to the scheduler and removed, the simulation reports
finished and both tiers are back at full free capacity.
"""
import contextlib
import io
import json
import logging
import os
import shutil
import sys
import tempfile

TREE = os.path.abspath(sys.argv[1])
sys.path.insert(0, TREE)

import simpy  # noqa: E402
from topsim.core.simulation import Simulation  # noqa: E402
from topsim.user.telescope import Telescope  # noqa: E402
from topsim.user.plan.batch_planning import BatchPlanning  # noqa: E402
from topsim.user.schedule.batch_allocation import BatchProcessing  # noqa: E402

logging.disable(logging.CRITICAL)

HOT_CAP, COLD_CAP = 100, 100
OBS = [  # name, start, duration, rate, arrays
    ("a", 1, 5, 4, 36),
    ("b", 3, 6, 3, 20),
]
HORIZON = 60


def write_inputs(d):
    wf = {"header": {"time": False},
          "graph": {"directed": True, "multigraph": False, "graph": {},
                    "nodes": [{"comp": 300, "id": 0}, {"comp": 300, "id": 1}],
                    "edges": [{"transfer_data": 1, "source": 0,
                               "target": 1}]}}
    with open(os.path.join(d, "wf.json"), "w") as f:
        json.dump(wf, f)
    cfg = {
        "instrument": {"telescope": {
            "total_arrays": 36, "max_ingest_resources": 4,
            "pipelines": {n: {"workflow": "wf.json", "ingest_demand": 1}
                          for n, *_ in OBS},
            "observations": [
                {"name": n, "start": s, "duration": dur,
                 "instrument_demand": arr, "data_product_rate": r}
                for n, s, dur, r, arr in OBS]}},
        "cluster": {"header": {}, "system": {
            "resources": {"m%d" % i: {"flops": 100, "compute_bandwidth": 10}
                          for i in range(6)},
            "system_bandwidth": 1.0}},
        "buffer": {"hot": {"capacity": HOT_CAP, "max_ingest_rate": 10},
                   "cold": {"capacity": COLD_CAP, "max_data_rate": 4}},
    }
    path = os.path.join(d, "config.json")
    with open(path, "w") as f:
        json.dump(cfg, f)
    return path


def main():
    d = tempfile.mkdtemp(prefix="c07_demo2_")
    problems = []
    deposits = {n: 0 for n, *_ in OBS}
    try:
        cfg = write_inputs(d)
        with contextlib.redirect_stdout(io.StringIO()):
            sim = Simulation(
                env=simpy.Environment(), config=cfg, instrument=Telescope,
                planning_model=BatchPlanning('batch'),
                planning_algorithm='batch',
                scheduling=BatchProcessing(max_resource_partitions=2,
                                           min_resources_per_workflow=1),
                delay=None, timestamp=0)
            hot, cold = sim.buffer.hot[0], sim.buffer.cold[0]
            observations = {o.name: o for o in sim.instrument.observations}
            previous = {n: 0 for n in observations}
            for t in range(1, HORIZON + 1):
                if t == 1:
                    sim.start(runtime=1)
                else:
                    sim.resume(until=t)
                now = sim.env.now
                if not 0 <= hot.current_capacity <= hot.total_capacity:
                    problems.append(
                        "t=%s free(hot)=%s outside [0, %s]"
                        % (now, hot.current_capacity, hot.total_capacity))
                removed = hot.observations['finished']
                resident = sum(o.total_data_size
                               for o in observations.values()
                               if o not in removed)
                used = hot.total_capacity - hot.current_capacity
                if used != resident:
                    problems.append(
                        "t=%s used(hot)=%s but resident observations hold %s"
                        % (now, used, resident))
                for n, o in observations.items():
                    step = o.total_data_size - previous[n]
                    if step:
                        deposits[n] += 1
                        if step != o.ingest_data_rate:
                            problems.append(
                                "t=%s %s deposited %s in one timestep, "
                                "rate is %s" % (now, n, step,
                                                o.ingest_data_rate))
                    previous[n] = o.total_data_size
        b = observations['b']
        if b.ast is None or b.ast <= b.est:
            problems.append("scenario broken: b was not started late "
                            "(est=%s ast=%s)" % (b.est, b.ast))
        for n, o in observations.items():
            if deposits[n] != o.duration or \
                    o.total_data_size != o.ingest_data_rate * o.duration:
                problems.append(
                    "observation %s (planned start %s, actual start %s) made "
                    "%s deposits totalling %s; required %s deposits "
                    "totalling rate x duration = %s"
                    % (n, o.est, o.ast, deposits[n], o.total_data_size,
                       o.duration, o.ingest_data_rate * o.duration))
            if o not in hot.observations['finished']:
                problems.append(
                    "observation %s was never processed and removed from "
                    "the hot buffer" % n)
        if hot.current_capacity != hot.total_capacity or \
                cold.current_capacity != cold.total_capacity or \
                not sim.is_finished():
            problems.append(
                "after the last workflow (t=%s): free hot=%s/%s, free "
                "cold=%s/%s, finished=%s; required both full and finished"
                % (sim.env.now, hot.current_capacity, hot.total_capacity,
                   cold.current_capacity, cold.total_capacity,
                   sim.is_finished()))
    finally:
        shutil.rmtree(d, ignore_errors=True)
    if problems:
        print("FAIL: " + problems[0])
        for p in problems[1:4]:
            print("      " + p)
        return 1
    print("PASS")
    return 0


if __name__ == '__main__':
    sys.exit(main())
