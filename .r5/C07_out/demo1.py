"""
Demo for C07 / bug1: data conservation when an observation is moved from the
hot buffer to the cold buffer (and back) in chunks of the cold buffer's data
rate, and the observation size is NOT a multiple of that rate.

usage: python demo1.py <path-to-tree>

Scenario (hot capacity 100, cold capacity 100, cold data rate 4/timestep):
  c : 6 timesteps x 7  = 42  (long workflow, stays resident)
  a : 5 timesteps x 2  = 10  (short workflow)
  b : 5 timesteps x 3  = 15  (arrives while c and a are resident -> 67% used,
                              which is over the 60% threshold, so b is moved
                              hot -> cold in steps 4+4+4+3; once a's workflow
                              has finished b is moved back cold -> hot and is
                              processed).
Checked after every timestep:
  * 0 <= free <= capacity for both tiers
  * used(hot) + used(cold) == data of all observations not yet removed
  * while b rests in the cold buffer: used(cold) == 15, used(hot) == 42 + 10
and at the end: every observation deposited rate x duration, the simulation
reports finished and both tiers are back at full free capacity.
"""
import contextlib
import io
import json
import logging
import os
import shutil
import sys
import tempfile

TREE = os.path.abspath(sys.argv[1])
sys.path.insert(0, TREE)

import simpy  # noqa: E402
from topsim.core.simulation import Simulation  # noqa: E402
from topsim.user.telescope import Telescope  # noqa: E402
from topsim.user.plan.batch_planning import BatchPlanning  # noqa: E402
from topsim.user.schedule.batch_allocation import BatchProcessing  # noqa: E402

logging.disable(logging.CRITICAL)

HOT_CAP, COLD_CAP, COLD_RATE, HOT_RATE = 100, 100, 4, 10
OBS = [  # name, start, duration, rate, (workflow tasks, comp per task)
    ("c", 1, 6, 7, (3, 3000)),
    ("a", 8, 5, 2, (2, 500)),
    ("b", 14, 5, 3, (2, 300)),
]
HORIZON = 140


def workflow(ntasks, comp):
    return {"header": {"time": False},
            "graph": {"directed": True, "multigraph": False, "graph": {},
                      "nodes": [{"comp": comp, "id": i}
                                for i in range(ntasks)],
                      "edges": [{"transfer_data": 1, "source": i,
                                 "target": i + 1}
                                for i in range(ntasks - 1)]}}


def write_inputs(d):
    pipelines, observations = {}, []
    for name, start, dur, rate, (nt, comp) in OBS:
        wf = "wf_%s.json" % name
        with open(os.path.join(d, wf), "w") as f:
            json.dump(workflow(nt, comp), f)
        pipelines[name] = {"workflow": wf, "ingest_demand": 1}
        observations.append({"name": name, "start": start, "duration": dur,
                             "instrument_demand": 10,
                             "data_product_rate": rate})
    cfg = {
        "instrument": {"telescope": {
            "total_arrays": 36, "max_ingest_resources": 4,
            "pipelines": pipelines, "observations": observations}},
        "cluster": {"header": {}, "system": {
            "resources": {"m%d" % i: {"flops": 100, "compute_bandwidth": 10}
                          for i in range(9)},
            "system_bandwidth": 1.0}},
        "buffer": {"hot": {"capacity": HOT_CAP, "max_ingest_rate": HOT_RATE},
                   "cold": {"capacity": COLD_CAP,
                            "max_data_rate": COLD_RATE}},
    }
    path = os.path.join(d, "config.json")
    with open(path, "w") as f:
        json.dump(cfg, f)
    return path


def check(sim, problems, seen):
    hot, cold = sim.buffer.hot[0], sim.buffer.cold[0]
    now = sim.env.now
    used_hot = hot.total_capacity - hot.current_capacity
    used_cold = cold.total_capacity - cold.current_capacity
    for nm, buf in (("hot", hot), ("cold", cold)):
        if buf.current_capacity < 0 or \
                buf.current_capacity > buf.total_capacity:
            problems.append(
                "t=%s %s buffer free space %s outside [0, %s]"
                % (now, nm, buf.current_capacity, buf.total_capacity))
    removed = hot.observations['finished']
    resident = sum(o.total_data_size for o in sim.instrument.observations
                   if o not in removed)
    if used_hot + used_cold != resident:
        problems.append(
            "t=%s used(hot)+used(cold) = %s+%s = %s but the resident "
            "observations hold %s" % (now, used_hot, used_cold,
                                      used_hot + used_cold, resident))
    parked = [o.name for o in cold.observations['stored']]
    if parked == ['b']:
        seen['parked'] = True
        if (used_cold, used_hot) != (15, 52):
            problems.append(
                "t=%s b (15) parked in cold buffer, c+a (52) in hot buffer, "
                "but used(cold)=%s used(hot)=%s (required 15 and 52)"
                % (now, used_cold, used_hot))
    if 'parked' in seen and not parked and \
            any(o.name == 'b' for o in hot.observations['scheduled']
                + hot.observations['stored'] + removed):
        seen['returned'] = True


def main():
    d = tempfile.mkdtemp(prefix="c07_demo1_")
    problems, seen = [], {}
    try:
        cfg = write_inputs(d)
        with contextlib.redirect_stdout(io.StringIO()):
            sim = Simulation(
                env=simpy.Environment(), config=cfg, instrument=Telescope,
                planning_model=BatchPlanning('batch'),
                planning_algorithm='batch',
                scheduling=BatchProcessing(max_resource_partitions=3,
                                           min_resources_per_workflow=1),
                delay=None, timestamp=0)
            sim.start(runtime=1)
            check(sim, problems, seen)
            for t in range(2, HORIZON + 1):
                sim.resume(until=t)
                check(sim, problems, seen)
                if len(problems) > 3:
                    break
        if not problems:
            if not (seen.get('parked') and seen.get('returned')):
                problems.append(
                    "scenario did not exercise the hot->cold->hot round "
                    "trip of observation b (seen=%s)" % sorted(seen))
            for o in sim.instrument.observations:
                want = o.ingest_data_rate * o.duration
                if o.total_data_size != want:
                    problems.append(
                        "observation %s deposited %s, required rate x "
                        "duration = %s" % (o.name, o.total_data_size, want))
            hot, cold = sim.buffer.hot[0], sim.buffer.cold[0]
            if hot.current_capacity != hot.total_capacity or \
                    cold.current_capacity != cold.total_capacity or \
                    not sim.is_finished():
                problems.append(
                    "after the last workflow (t=%s): free hot=%s/%s, free "
                    "cold=%s/%s, finished=%s; required both full and "
                    "finished" % (sim.env.now, hot.current_capacity,
                                  hot.total_capacity, cold.current_capacity,
                                  cold.total_capacity, sim.is_finished()))
    finally:
        shutil.rmtree(d, ignore_errors=True)
    if problems:
        print("FAIL: " + problems[0])
        for p in problems[1:4]:
            print("      " + p)
        return 1
    print("PASS")
    return 0


if __name__ == '__main__':
    sys.exit(main())
