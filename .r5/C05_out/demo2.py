#!/venv/bin/python
"""
demo2 - C05 (every feasible configuration terminates).

Scenario: a 4-array telescope that may use at most 4 ingest machines.
Observation 'a' (2 arrays, 3 ingest machines, t=0..10) and observation 'b'
(2 arrays, 1 ingest machine, t=2..6) overlap on sub-arrays, so two ingest
pipelines with DIFFERENT machine demands run at the same time and 'b' ends
while 'a' is still ingesting.  Much later (t=30) observation 'c' needs 2
ingest machines.  Run once with QueueProcessing and once with
BatchProcessing.

Required: the run completes without raising, not later than the serial bound;
in particular 'c' is admitted once the earlier ingests have released their
machines.

usage: demo2.py <path-to-tree>
"""
import contextlib
import io
import json
import logging
import math
import os
import shutil
import sys
import tempfile
import traceback

TREE = os.path.abspath(sys.argv[1])
sys.path.insert(0, TREE)

import simpy  # noqa: E402
import warnings  # noqa: E402

warnings.simplefilter('ignore')
logging.disable(logging.CRITICAL)

from topsim.core.simulation import Simulation  # noqa: E402
from topsim.user.telescope import Telescope  # noqa: E402
from topsim.user.plan.batch_planning import BatchPlanning  # noqa: E402
from topsim.user.schedule.batch_allocation import BatchProcessing  # noqa: E402
from topsim.user.schedule.queue_allocation import QueueProcessing  # noqa: E402

LATENCY = 4  # constant per-step latency allowance (timesteps)

MACHINES = [(10, 2)] * 6  # (flops, compute_bandwidth)
HOT = dict(capacity=200, max_ingest_rate=10)
COLD = dict(capacity=200, max_data_rate=4)
# diamond workflow 0 -> {1,2} -> 3
NODES = [(0, 40), (1, 20), (2, 30), (3, 10)]
EDGES = [(0, 1, 4), (0, 2, 6), (1, 3, 2), (2, 3, 2)]
OBSERVATIONS = [
    dict(name='a', start=0, duration=10, instrument_demand=2,
         data_product_rate=2),
    dict(name='b', start=2, duration=4, instrument_demand=2,
         data_product_rate=2),
    dict(name='c', start=30, duration=5, instrument_demand=4,
         data_product_rate=2),
]
INGEST_DEMAND = {'a': 3, 'b': 1, 'c': 2}
MAX_INGEST = 4
TOTAL_ARRAYS = 4


def write_config(tmp):
    graph = {
        "directed": True, "multigraph": False, "graph": {},
        "nodes": [{"id": n, "comp": c} for n, c in NODES],
        "edges": [{"source": s, "target": t, "transfer_data": d}
                  for s, t, d in EDGES],
    }
    with open(os.path.join(tmp, 'wf.json'), 'w') as fp:
        json.dump({"header": {}, "graph": graph}, fp)
    cfg = {
        "instrument": {"telescope": {
            "total_arrays": TOTAL_ARRAYS,
            "max_ingest_resources": MAX_INGEST,
            "pipelines": {
                name: {"workflow": "wf.json", "ingest_demand": demand}
                for name, demand in INGEST_DEMAND.items()},
            "observations": OBSERVATIONS}},
        "cluster": {"header": {}, "system": {
            "resources": {
                f"m{i}": {"flops": f, "compute_bandwidth": b}
                for i, (f, b) in enumerate(MACHINES)},
            "system_bandwidth": 1.0}},
        "buffer": {"hot": HOT, "cold": COLD},
        "timestep": "seconds",
    }
    path = os.path.join(tmp, 'config.json')
    with open(path, 'w') as fp:
        json.dump(cfg, fp)
    return path


def serial_bound():
    """latest planned start + for every observation: duration, both tier
    transfers, every task on the slowest machine, every edge transfer on the
    slowest link, and a constant latency per step."""
    slow_cpu = min(f for f, _ in MACHINES)
    slow_bw = min(b for _, b in MACHINES)
    tier_rate = min(HOT['max_ingest_rate'], COLD['max_data_rate'])
    per_workflow = sum(
        max(1, math.ceil(c / slow_cpu)) + LATENCY for _, c in NODES
    ) + sum(math.ceil(d / slow_bw) for _, _, d in EDGES)
    bound = max(o['start'] for o in OBSERVATIONS)
    for o in OBSERVATIONS:
        size = o['duration'] * o['data_product_rate']
        bound += (o['duration'] + 2 * math.ceil(size / tier_rate)
                  + per_workflow + LATENCY)
    return bound


def run_once(cfg, label, scheduling, bound):
    """Returns None if fine, else the failure text"""
    sim = Simulation(
        env=simpy.Environment(), config=cfg, instrument=Telescope,
        planning_model=BatchPlanning('batch'), planning_algorithm='batch',
        scheduling=scheduling, delay=None, timestamp=0,
    )
    error = None
    sink = io.StringIO()
    with contextlib.redirect_stdout(sink), contextlib.redirect_stderr(sink):
        try:
            sim.start(runtime=1)
            while not sim.is_finished() and sim.env.now < bound:
                sim.resume(sim.env.now + 1)
        except Exception:  # noqa
            error = traceback.format_exc().strip().splitlines()[-1]
    if error is not None:
        return (f"[{label}] simulation raised '{error}' at t={sim.env.now}; "
                f"required: runs to completion without raising"), None
    if not sim.is_finished():
        status = {o.name: str(o.status.value)
                  for o in sim.instrument.observations}
        return (f"[{label}] not finished at the serial bound t={bound}: "
                f"observation status {status}, ingest machines still "
                f"reserved by the scheduler = {sim.scheduler.provision_ingest}"
                f" although no ingest is running; required: completion by "
                f"t<={bound}"), None
    return None, sim.env.now


def main():
    tmp = tempfile.mkdtemp(prefix='c05_demo2_')
    try:
        cfg = write_config(tmp)
        bound = serial_bound()
        finished = {}
        for label, scheduling in (
                ('QueueProcessing', QueueProcessing()),
                ('BatchProcessing',
                 BatchProcessing(min_resources_per_workflow=1))):
            failure, at = run_once(cfg, label, scheduling, bound)
            if failure:
                print("FAIL: " + failure)
                return 1
            finished[label] = at
        print(f"PASS (finished at {finished}, serial bound {bound})")
        return 0
    finally:
        shutil.rmtree(tmp, ignore_errors=True)


if __name__ == '__main__':
    sys.exit(main())
