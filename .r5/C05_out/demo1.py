#!/venv/bin/python
"""
demo1 - C05 (every feasible configuration terminates).

Scenario: BatchProcessing (one partition, min 1 machine per workflow) on a
3-machine cluster; two observations with a gap, each with a workflow whose
middle stage is THREE tasks wide, i.e. as wide as the partition the workflow
gets.  While the three middle tasks run, every machine provisioned for the
workflow is busy at the same time (the partition's idle pool is empty).

Required: the run completes without raising, not later than the serial bound.

usage: demo1.py <path-to-tree>
"""
import contextlib
import io
import json
import logging
import math
import os
import shutil
import sys
import tempfile
import traceback

TREE = os.path.abspath(sys.argv[1])
sys.path.insert(0, TREE)

import simpy  # noqa: E402
import warnings  # noqa: E402

warnings.simplefilter('ignore')
logging.disable(logging.CRITICAL)

from topsim.core.simulation import Simulation  # noqa: E402
from topsim.user.telescope import Telescope  # noqa: E402
from topsim.user.plan.batch_planning import BatchPlanning  # noqa: E402
from topsim.user.schedule.batch_allocation import BatchProcessing  # noqa: E402

LATENCY = 4  # constant per-step latency allowance (timesteps)

# (flops, compute_bandwidth) per machine
MACHINES = [(10, 2), (10, 2), (5, 2)]
HOT = dict(capacity=100, max_ingest_rate=10)
COLD = dict(capacity=100, max_data_rate=4)
# fan-out 3 / fan-in workflow: 0 -> {1,2,3} -> 4
NODES = [(0, 40), (1, 20), (2, 30), (3, 30), (4, 10)]
EDGES = [(0, 1, 4), (0, 2, 6), (0, 3, 2), (1, 4, 2), (2, 4, 2), (3, 4, 2)]
OBSERVATIONS = [
    dict(name='a', start=0, duration=5, instrument_demand=4,
         data_product_rate=2),
    dict(name='b', start=8, duration=5, instrument_demand=4,
         data_product_rate=2),
]
INGEST_DEMAND = 1
MAX_INGEST = 2
TOTAL_ARRAYS = 4


def write_config(tmp):
    graph = {
        "directed": True, "multigraph": False, "graph": {},
        "nodes": [{"id": n, "comp": c} for n, c in NODES],
        "edges": [{"source": s, "target": t, "transfer_data": d}
                  for s, t, d in EDGES],
    }
    with open(os.path.join(tmp, 'wf.json'), 'w') as fp:
        json.dump({"header": {}, "graph": graph}, fp)
    cfg = {
        "instrument": {"telescope": {
            "total_arrays": TOTAL_ARRAYS,
            "max_ingest_resources": MAX_INGEST,
            "pipelines": {
                o['name']: {"workflow": "wf.json",
                            "ingest_demand": INGEST_DEMAND}
                for o in OBSERVATIONS},
            "observations": OBSERVATIONS}},
        "cluster": {"header": {}, "system": {
            "resources": {
                f"m{i}": {"flops": f, "compute_bandwidth": b}
                for i, (f, b) in enumerate(MACHINES)},
            "system_bandwidth": 1.0}},
        "buffer": {"hot": HOT, "cold": COLD},
        "timestep": "seconds",
    }
    path = os.path.join(tmp, 'config.json')
    with open(path, 'w') as fp:
        json.dump(cfg, fp)
    return path


def serial_bound():
    """latest planned start + for every observation: duration, both tier
    transfers, every task on the slowest machine, every edge transfer on the
    slowest link, and a constant latency per step."""
    slow_cpu = min(f for f, _ in MACHINES)
    slow_bw = min(b for _, b in MACHINES)
    tier_rate = min(HOT['max_ingest_rate'], COLD['max_data_rate'])
    per_workflow = sum(
        max(1, math.ceil(c / slow_cpu)) + LATENCY for _, c in NODES
    ) + sum(math.ceil(d / slow_bw) for _, _, d in EDGES)
    bound = max(o['start'] for o in OBSERVATIONS)
    for o in OBSERVATIONS:
        size = o['duration'] * o['data_product_rate']
        bound += (o['duration'] + 2 * math.ceil(size / tier_rate)
                  + per_workflow + LATENCY)
    return bound


def main():
    tmp = tempfile.mkdtemp(prefix='c05_demo1_')
    try:
        cfg = write_config(tmp)
        bound = serial_bound()
        sim = Simulation(
            env=simpy.Environment(), config=cfg, instrument=Telescope,
            planning_model=BatchPlanning('batch'), planning_algorithm='batch',
            scheduling=BatchProcessing(min_resources_per_workflow=1),
            delay=None, timestamp=0,
        )
        error = None
        sink = io.StringIO()
        with contextlib.redirect_stdout(sink), \
                contextlib.redirect_stderr(sink):
            try:
                sim.start(runtime=1)
                while not sim.is_finished() and sim.env.now < bound:
                    sim.resume(sim.env.now + 1)
            except Exception:  # noqa
                error = traceback.format_exc().strip().splitlines()[-1]
        if error is not None:
            print(f"FAIL: simulation raised '{error}' at t={sim.env.now}; "
                  f"required: runs to completion without raising")
            return 1
        if not sim.is_finished():
            resources = sim.cluster._clusters['default']['resources']
            left = [o.name for o in sim.scheduler.observation_queue]
            print(f"FAIL: not finished at the serial bound t={bound}: "
                  f"workflows still queued {left}, partition pools "
                  f"{ {k: len(v) for k, v in resources['idle'].items()} }, "
                  f"free machines {len(resources['available'])}; "
                  f"required: completion by t<={bound}")
            return 1
        print(f"PASS (finished at t={sim.env.now}, serial bound {bound})")
        return 0
    finally:
        shutil.rmtree(tmp, ignore_errors=True)


if __name__ == '__main__':
    sys.exit(main())
