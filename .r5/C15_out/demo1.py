"""
demo1 - C15, clause "the delay model never shortens a task and never fails:
for every supported distribution and every non-negative whole-timestep runtime
the duration it returns is at least that runtime, equal to it when the degree
is 'none', the probability is zero or the runtime is zero, and identical for
identical seed and arguments".

Sweeps DelayModel.generate_delay over a grid of (distribution, degree,
probability, seed, runtime) and additionally runs a Task carrying such a model
through do_work() in a bare simpy environment.

The 'uniform' distribution is left out: it raises TypeError on the unmodified
code base (known defect).

usage: demo1.py <path-to-tree>
"""
import logging
import sys
import warnings

sys.path.insert(0, sys.argv[1] if len(sys.argv) > 1 else '.')
logging.disable(logging.CRITICAL)

import simpy  # noqa: E402

from topsim.core.delay import DelayModel  # noqa: E402
from topsim.core.task import Task  # noqa: E402

D = DelayModel.DelayDegree
DISTS = ('normal', 'poisson')
DEGREES = (D.NONE, D.LOW, D.MID, D.HIGH)
PROBS = (0.0, 0.3, 1.0)
SEEDS = range(0, 30)
RUNTIMES = range(0, 41)


def check_model(problems):
    n = 0
    for dist in DISTS:
        for degree in DEGREES:
            for prob in PROBS:
                for seed in SEEDS:
                    dm = DelayModel(prob, dist, degree, seed)
                    for rt in RUNTIMES:
                        n += 1
                        where = (f'DelayModel({prob}, {dist!r}, {degree.name}'
                                 f', seed={seed}).generate_delay({rt})')
                        try:
                            got = dm.generate_delay(rt)
                            again = dm.generate_delay(rt)
                            fresh = DelayModel(prob, dist, degree,
                                               seed).generate_delay(rt)
                        except Exception as exc:  # "never fails"
                            problems.append(f'{where} raised {exc!r}, '
                                            f'required a duration >= {rt}')
                            continue
                        if got < rt:
                            problems.append(f'{where} = {got}, required '
                                            f'>= {rt} (task shortened)')
                        if (degree is D.NONE or prob == 0.0 or rt == 0) \
                                and got != rt:
                            problems.append(f'{where} = {got}, required '
                                            f'exactly {rt}')
                        if not (got == again == fresh):
                            problems.append(
                                f'{where} not deterministic: {got}, {again}, '
                                f'{fresh}')
                        if len(problems) > 20:
                            return n
    return n


def check_task(problems):
    """A task that carries the model must run for at least its runtime and
    be flagged whenever it ran longer."""
    for dist in DISTS:
        for degree in (D.LOW, D.HIGH):
            for seed in SEEDS:
                for rt in (1, 2, 3, 5, 8, 13, 21):
                    env = simpy.Environment()
                    dm = DelayModel(1.0, dist, degree, seed)
                    t = Task('t', 0, rt, None, None, 0, 0, 0, dm)
                    env.process(t.do_work(env, None))
                    env.run()
                    ran = t.aft - t.ast
                    where = (f'Task(runtime={rt}) with DelayModel(1.0, '
                             f'{dist!r}, {degree.name}, seed={seed})')
                    if ran < rt:
                        problems.append(f'{where} ran {ran} timesteps, '
                                        f'required >= {rt}')
                    if ran > rt and not t.delay_flag:
                        problems.append(f'{where} ran {ran} > {rt} but '
                                        f'delay_flag is False')
                    if len(problems) > 20:
                        return


def check_reference(problems):
    """Values documented by the project's own tests (default seed 20)."""
    for prob, rt, want in ((0.1, 10, 10), (0.3, 10, 11), (0.1, 11, 11),
                           (0.3, 11, 12)):
        got = DelayModel(prob, 'normal').generate_delay(rt)
        if got != want:
            problems.append(f"DelayModel({prob}, 'normal').generate_delay("
                            f"{rt}) = {got}, reference value {want}")


def main():
    problems = []
    with warnings.catch_warnings():
        warnings.simplefilter('ignore')
        check_model(problems)
        check_task(problems)
        check_reference(problems)
    if problems:
        print('FAIL: ' + problems[0])
        for p in problems[1:4]:
            print('      ' + p)
        print(f'      ({len(problems)} violations collected)')
        return 1
    print('PASS')
    return 0


if __name__ == '__main__':
    sys.exit(main())
