"""
demo2 - C15, clause "whenever a delay is actually added to a task, that task
is flagged as delayed and the scheduler reports a delayed schedule once the
task has completed".

A full simulation is run with a tiny planning model of our own that pins every
task to a machine, gives it a generous planned finish time (so nothing is
"late" by itself) and injects a per-task delay vector.  The workflow is a
fork:  t0 -> {t1, t2, t3}.  t1 is LONG and undelayed, t2 is short and is the
ONLY task that receives a delay, so t2 completes while the earlier-listed t1
is still running.

Required (checked every timestep while the simulation runs):
  * every task whose injected delay is > 0 has delay_flag set once finished,
  * at most GRACE timesteps after such a task has finished (task_status
    FINISHED) the scheduler's schedule_status is DELAYED, and it stays so,
  * the task really ran for runtime + delay timesteps.

usage: demo2.py <path-to-tree>
"""
import json
import logging
import os
import shutil
import sys
import tempfile

sys.path.insert(0, sys.argv[1] if len(sys.argv) > 1 else '.')
logging.disable(logging.CRITICAL)

import networkx as nx  # noqa: E402
import simpy  # noqa: E402

from topsim.algorithms.planning import Planning  # noqa: E402
from topsim.core.planner import WorkflowPlan, WorkflowStatus  # noqa: E402
from topsim.core.scheduler import ScheduleStatus  # noqa: E402
from topsim.core.simulation import Simulation  # noqa: E402
from topsim.core.task import Task, TaskStatus  # noqa: E402
from topsim.user.schedule.dynamic_plan import \
    DynamicSchedulingFromPlan  # noqa: E402
from topsim.user.telescope import Telescope  # noqa: E402

HORIZON = 10 ** 6
GRACE = 3
CPU = 10  # flops per timestep of every machine


class FixedDelay:
    """Injected delay model: always adds exactly `extra` timesteps."""

    def __init__(self, extra):
        self.extra = extra

    def generate_delay(self, task_runtime, n=100):
        return task_runtime + self.extra


class PinnedPlanning(Planning):
    """Plan = tasks in topological (id) order, task i pinned to machine
    i % n, planned window [0, HORIZON], per-task injected delay."""

    def __init__(self, delays):
        super().__init__('pinned', None)
        self.delays = delays
        self.plans = []

    def generate_plan(self, clock, cluster, buffer, observation, max_ingest):
        with open(observation.workflow) as fp:
            graph = nx.readwrite.node_link_graph(json.load(fp)['graph'],
                                                 edges='edges')
        machines = sorted(cluster.machine_ids)
        order = sorted(graph.nodes)
        mapping = {}
        tasks = []
        for node in order:
            def tid(x):
                return self._create_observation_task_id(x, observation, clock)
            io = {tid(p): graph.edges[p, node]['transfer_data']
                  for p in graph.predecessors(node)}
            t = Task(tid(node), 0, HORIZON, machines[node % len(machines)],
                     [tid(p) for p in graph.predecessors(node)],
                     graph.nodes[node]['comp'], 0, io,
                     FixedDelay(self.delays.get(node, 0)), gid=node)
            mapping[node] = t
            tasks.append(t)
        plan = WorkflowPlan(observation.name, HORIZON, -1, tasks, order,
                            WorkflowStatus.SCHEDULED, max_ingest,
                            nx.relabel_nodes(graph, mapping))
        self.plans.append((observation.name, list(tasks)))
        return plan

    def to_df(self):
        return None


def write_config(tmp, runtimes, edges):
    wf = {"header": {"time": False}, "graph": {
        "directed": True, "multigraph": False, "graph": {},
        "nodes": [{"id": i, "comp": r * CPU} for i, r in enumerate(runtimes)],
        "edges": [{"source": u, "target": v, "transfer_data": 0}
                  for u, v in edges]}}
    with open(os.path.join(tmp, 'wf.json'), 'w') as fp:
        json.dump(wf, fp)
    cfg = {
        "instrument": {"telescope": {
            "total_arrays": 36, "max_ingest_resources": 1,
            "pipelines": {"obs": {"workflow": "wf.json", "ingest_demand": 1}},
            "observations": [{"name": "obs", "start": 0, "duration": 5,
                              "instrument_demand": 36,
                              "data_product_rate": 1}]}},
        "cluster": {"header": {"time": "false", "gen_specs": {}},
                    "system": {"resources": {
                        "m%d" % i: {"flops": CPU, "compute_bandwidth": 10}
                        for i in range(4)}, "system_bandwidth": 1.0}},
        "buffer": {"hot": {"capacity": 1000, "max_ingest_rate": 10},
                   "cold": {"capacity": 1000, "max_data_rate": 10}},
        "planning": "heft", "scheduling": "fifo", "timestep": "seconds"}
    path = os.path.join(tmp, 'cfg.json')
    with open(path, 'w') as fp:
        json.dump(cfg, fp)
    return path


def run_case(tmp, runtimes, edges, delays, label):
    cfg = write_config(tmp, runtimes, edges)
    planning = PinnedPlanning(delays)
    env = simpy.Environment()
    sim = Simulation(env=env, config=cfg, instrument=Telescope,
                     planning_model=planning, planning_algorithm='pinned',
                     scheduling=DynamicSchedulingFromPlan(), delay=None,
                     timestamp=0)
    sim.start(runtime=1)
    finished_at = {}
    problems = []
    for now in range(2, 200):
        sim.resume(until=now)
        status = sim.scheduler.schedule_status
        for _, tasks in planning.plans:
            for t in tasks:
                if (t.task_status is TaskStatus.FINISHED
                        and t.id not in finished_at):
                    finished_at[t.id] = now
                d = delays.get(t.graph_id, 0)
                if d > 0 and t.id in finished_at:
                    if not t.delay_flag:
                        problems.append(
                            f'{label}: task {t.id} got +{d} but '
                            f'delay_flag is False')
                    if (now >= finished_at[t.id] + GRACE
                            and status is not ScheduleStatus.DELAYED):
                        problems.append(
                            f'{label}: task {t.id} (+{d}) finished at '
                            f't={finished_at[t.id]} but at t={now} '
                            f'schedule_status={status.value}, '
                            f'required DELAYED')
        if problems:
            break
        if sim.is_finished():
            break
    all_tasks = [t for _, tasks in planning.plans for t in tasks]
    if not problems:
        if not all_tasks or any(
                t.task_status is not TaskStatus.FINISHED for t in all_tasks):
            problems.append(f'{label}: workflow did not complete '
                            f'(tasks={all_tasks})')
        for t in all_tasks:
            want = runtimes[t.graph_id] + delays.get(t.graph_id, 0)
            if t.aft - t.ast != want:
                problems.append(f'{label}: task {t.id} ran '
                                f'{t.aft - t.ast}, required {want}')
        any_delay = any(v > 0 for v in delays.values())
        final = sim.scheduler.schedule_status
        if any_delay and final is not ScheduleStatus.DELAYED:
            problems.append(f'{label}: final schedule_status={final.value}, '
                            f'required DELAYED')
        if not any_delay and final is not ScheduleStatus.ONTIME:
            # sanity of the harness itself: nothing else marks the schedule
            problems.append(f'{label}: harness not neutral, schedule '
                            f'{final.value} without any injected delay')
    return problems


def main():
    tmp = tempfile.mkdtemp(prefix='c15_demo2_')
    try:
        fork = [(0, 1), (0, 2), (0, 3)]
        cases = [
            # neutral run: no delay anywhere -> ONTIME (harness sanity)
            ('no-delay', [2, 12, 3, 4], fork, {}),
            # delayed task is first in the list
            ('root-delayed', [2, 12, 3, 4], fork, {0: 2}),
            # delayed task is the long one, finishes last
            ('long-delayed', [2, 12, 3, 4], fork, {1: 2}),
            # the ONLY delayed task (t2) finishes while earlier-listed t1
            # is still running
            ('short-sibling-delayed', [2, 12, 3, 4], fork, {2: 3}),
        ]
        problems = []
        for label, runtimes, edges, delays in cases:
            problems += run_case(tmp, runtimes, edges, delays, label)
    finally:
        shutil.rmtree(tmp, ignore_errors=True)
    if problems:
        print('FAIL: ' + problems[0])
        for p in problems[1:4]:
            print('      ' + p)
        return 1
    print('PASS')
    return 0


if __name__ == '__main__':
    sys.exit(main())
