"""
demo1 - C14 (a generated plan is a faithful copy of the workflow graph)

Targets the clause "each task carries the node's compute and data demands ...
for node attributes with and without data demand".

Workflows in which SOME nodes declare a data demand ("task_data") and others
do not are planned with BatchPlanning through the real Planner / Cluster /
Buffer objects, for several observation names and planning clocks.  Every
clause of the property is checked against the source graph; what this demo is
really after is that a node WITHOUT a "task_data" attribute yields a task with
data demand 0, whatever node was handled before it.

usage: python demo1.py <path-to-tree>
"""
import sys

sys.dont_write_bytecode = True

sys.path.insert(0, sys.argv[1])

import json
import logging
import os
import shutil
import tempfile

import networkx as nx
import simpy

logging.disable(logging.CRITICAL)

from topsim.core.config import Config
from topsim.core.cluster import Cluster
from topsim.core.buffer import Buffer
from topsim.core.planner import Planner
from topsim.core.instrument import Observation
from topsim.user.plan.batch_planning import BatchPlanning


# --------------------------------------------------------------------------
# input construction
# --------------------------------------------------------------------------

def write_workflow(path, nodes, edges):
    """nodes: list of (id, comp, task_data-or-None); edges: (u, v, volume)"""
    nlist = []
    for nid, comp, task_data in nodes:
        d = {"comp": comp, "id": nid}
        if task_data is not None:
            d["task_data"] = task_data
        nlist.append(d)
    elist = [{"transfer_data": w, "source": u, "target": v}
             for (u, v, w) in edges]
    doc = {
        "header": {"time": False},
        "graph": {
            "directed": True, "multigraph": False, "graph": {},
            "nodes": nlist, "edges": elist,
        }
    }
    with open(path, 'w') as f:
        json.dump(doc, f)
    g = nx.DiGraph()
    for nid, comp, task_data in nodes:
        g.add_node(nid, comp=comp, task_data=task_data)
    for u, v, w in edges:
        g.add_edge(u, v, transfer_data=w)
    return g


def write_config(path, workflow_file):
    cfg = {
        "instrument": {"telescope": {
            "total_arrays": 36, "max_ingest_resources": 5,
            "pipelines": {"obsA": {"workflow": workflow_file,
                                   "ingest_demand": 5}},
            "observations": [{"name": "obsA", "start": 0, "duration": 10,
                              "instrument_demand": 36,
                              "data_product_rate": 4}]}},
        "cluster": {"header": {"time": "false", "gen_specs": {}},
                    "system": {"resources": {
                        "cat0_m0": {"flops": 84, "compute_bandwidth": 10},
                        "cat0_m1": {"flops": 84, "compute_bandwidth": 10}},
                        "system_bandwidth": 1.0}},
        "buffer": {"hot": {"capacity": 500, "max_ingest_rate": 5},
                   "cold": {"capacity": 250, "max_data_rate": 2}},
        "planning": "batch", "scheduling": "batch", "timestep": "seconds"
    }
    with open(path, 'w') as f:
        json.dump(cfg, f)


def make_plan(tmp, workflow_path, obs_name, clock):
    cfg_path = os.path.join(tmp, 'config.json')
    write_config(cfg_path, os.path.basename(workflow_path))
    env = simpy.Environment(initial_time=clock)
    config = Config(cfg_path)
    cluster = Cluster(env, config)
    planner = Planner(env, cluster, BatchPlanning('batch'))
    buffer = Buffer(env, cluster, planner, config)
    obs = Observation(obs_name, 0, 10, 36, workflow_path, data_rate=4)
    obs.ast = 0
    return planner.run(obs, buffer, 5)


# --------------------------------------------------------------------------
# the property
# --------------------------------------------------------------------------

def check_plan(label, g, plan, obs_name):
    """Return a list of violations of C14 for `plan` w.r.t. source graph g"""
    bad = []
    tasks = list(plan.tasks)
    by_node = {}
    for t in tasks:
        by_node.setdefault(t.graph_id, []).append(t)

    # exactly one task per node
    if sorted(map(str, by_node)) != sorted(map(str, g.nodes)) or \
            any(len(v) != 1 for v in by_node.values()):
        bad.append(
            f"{label}: tasks exist for nodes "
            f"{sorted((str(k), len(v)) for k, v in by_node.items())}, "
            f"required exactly one for each of {sorted(map(str, g.nodes))}")
        return bad
    task_of = {n: v[0] for n, v in by_node.items()}

    # identifiers
    ids = [t.id for t in tasks]
    if len(set(ids)) != len(ids):
        bad.append(f"{label}: task ids not unique: {ids}")
    for t in tasks:
        if obs_name not in str(t.id):
            bad.append(f"{label}: id {t.id!r} lacks observation name "
                       f"{obs_name!r}")

    # demands
    for n in g.nodes:
        t = task_of[n]
        want_data = g.nodes[n]['task_data']
        want_data = 0 if want_data is None else want_data
        if t.flops != g.nodes[n]['comp']:
            bad.append(f"{label}: node {n}: compute demand {t.flops}, "
                       f"required {g.nodes[n]['comp']}")
        if t.task_data != want_data:
            bad.append(f"{label}: node {n}: data demand {t.task_data}, "
                       f"required {want_data}")

    # edges of plan graph
    pg = plan.graph
    got_edges = sorted((str(u.graph_id), str(v.graph_id))
                       for u, v in pg.edges)
    want_edges = sorted((str(u), str(v)) for u, v in g.edges)
    if got_edges != want_edges:
        bad.append(f"{label}: plan edges {got_edges}, required {want_edges}")
    if sorted(str(t.graph_id) for t in pg.nodes) != sorted(map(str, g.nodes)):
        bad.append(f"{label}: plan graph nodes differ from workflow nodes")

    # predecessor lists and transfer volumes
    for n in g.nodes:
        t = task_of[n]
        want_pred = sorted(task_of[p].id for p in g.predecessors(n))
        if sorted(t.pred) != want_pred:
            bad.append(f"{label}: node {n}: pred list {sorted(t.pred)}, "
                       f"required {want_pred}")
        want_io = {task_of[p].id: g.edges[p, n]['transfer_data']
                   for p in g.predecessors(n)}
        if dict(t.io) != want_io:
            bad.append(f"{label}: node {n}: transfer volumes {t.io}, "
                       f"required {want_io}")

    # topological order
    pos = {t.graph_id: i for i, t in enumerate(tasks)}
    for u, v in g.edges:
        if not pos[u] < pos[v]:
            bad.append(f"{label}: task for {u} listed after its successor "
                       f"{v}")
    epos = {n: i for i, n in enumerate(plan.exec_order)}
    if sorted(map(str, epos)) != sorted(map(str, g.nodes)):
        bad.append(f"{label}: exec_order {plan.exec_order} is not a "
                   f"permutation of the nodes")
    else:
        for u, v in g.edges:
            if not epos[u] < epos[v]:
                bad.append(f"{label}: exec_order has {u} after {v}")

    # queries
    for n in g.nodes:
        t = task_of[n]
        gp = sorted(str(x.graph_id) for x in plan.get_task_predecessors(t))
        gs = sorted(str(x.graph_id) for x in plan.get_task_successors(t))
        if gp != sorted(map(str, g.predecessors(n))):
            bad.append(f"{label}: predecessors({n}) = {gp}, required "
                       f"{sorted(map(str, g.predecessors(n)))}")
        if gs != sorted(map(str, g.successors(n))):
            bad.append(f"{label}: successors({n}) = {gs}, required "
                       f"{sorted(map(str, g.successors(n)))}")
    for p in tasks:
        for t in tasks:
            a = p in list(plan.get_task_predecessors(t))
            b = t in list(plan.get_task_successors(p))
            if a != b:
                bad.append(f"{label}: {p.id} precedes {t.id} is {a} but "
                           f"{t.id} succeeds {p.id} is {b}")
    return bad


# --------------------------------------------------------------------------
# cases: workflows mixing nodes with and without a data demand
# --------------------------------------------------------------------------

CASES = [
    # chain; the middle and last node have NO data demand
    ("chain-mixed", "obsA", 0,
     [(0, 400, 900), (1, 300, None), (2, 200, None)],
     [(0, 1, 11), (1, 2, 12)]),
    # diamond; only the two branches declare a data demand
    ("diamond-mixed", "survey_7", 13,
     [(0, 100, None), (1, 200, 55), (2, 300, 66), (3, 400, None)],
     [(0, 1, 1), (0, 2, 2), (1, 3, 3), (2, 3, 4)]),
    # string labelled nodes, alternating
    ("named-alternating", "dingo", 250,
     [("load", 10, 5), ("cal", 20, None), ("grid", 30, 7),
      ("img", 40, None)],
     [("load", "cal", 9), ("cal", "grid", 8), ("grid", "img", 7)]),
    # controls: all nodes with / all nodes without data demand
    ("all-with", "obsB", 3,
     [(0, 1, 10), (1, 2, 20), (2, 3, 30)], [(0, 1, 5), (0, 2, 6)]),
    ("all-without", "obsC", 4,
     [(0, 1, None), (1, 2, None), (2, 3, None)], [(0, 2, 5), (1, 2, 6)]),
]


def main():
    tmp = tempfile.mkdtemp(prefix='c14_demo1_')
    try:
        bad = []
        for label, name, clock, nodes, edges in CASES:
            wf = os.path.join(tmp, f'wf_{label}.json')
            g = write_workflow(wf, nodes, edges)
            plan = make_plan(tmp, wf, name, clock)
            bad += check_plan(label, g, plan, name)
    finally:
        shutil.rmtree(tmp, ignore_errors=True)
    if bad:
        print("FAIL: " + " | ".join(bad[:6])
              + (f" | ... ({len(bad)} violations)" if len(bad) > 6 else ""))
        return 1
    print("PASS")
    return 0


if __name__ == '__main__':
    sys.exit(main())
