"""
demo2 - C08: an observation begins only if the hot AND the cold buffer both
have room for its whole data volume (data rate x duration).

usage: python demo2.py <path-to-tree>

Scenario 1 (configuration): cold tier (150) smaller than the hot tier (1000).
    small : start 0,  rate 10 x 10 = 100   fits both tiers  -> must start at 0
    big   : start 25, rate 20 x 10 = 200   fits hot, NOT cold -> must not start
Scenario 2 (load state left behind by an earlier observation): hot 1000,
    cold 800.  'first' (70 x 10 = 700) fills the hot tier beyond its 60 %
    threshold and is therefore moved to the cold tier, which is left with 100
    free.  'second' (20 x 10 = 200) falls due at 30: the hot tier is empty
    again but the cold tier cannot take 200 -> must not start while the cold
    tier is that full.
In both scenarios the free space of both tiers is sampled right before every
timestep; whenever an observation begins in a timestep the free space of each
tier at that moment must be >= its whole data volume.  Runs are bounded with
start(runtime=..)/resume().
"""
import sys
import os
import json
import shutil
import logging
import tempfile

TREE = os.path.abspath(sys.argv[1])
sys.path.insert(0, TREE)

import simpy  # noqa: E402
from topsim.core.simulation import Simulation  # noqa: E402
from topsim.core.instrument import RunStatus  # noqa: E402
from topsim.user.telescope import Telescope  # noqa: E402
from topsim.user.plan.batch_planning import BatchPlanning  # noqa: E402
from topsim.user.schedule.batch_allocation import BatchProcessing  # noqa: E402

logging.disable(logging.CRITICAL)


def write_config(d, observations, hot, cold):
    wf = {"header": {}, "graph": {
        "directed": True, "multigraph": False, "graph": {},
        "nodes": [{"id": 0, "comp": 200}, {"id": 1, "comp": 200}],
        "edges": [{"source": 0, "target": 1, "transfer_data": 0}]}}
    with open(os.path.join(d, 'wf.json'), 'w') as f:
        json.dump(wf, f)
    cfg = {
        "instrument": {"telescope": {
            "total_arrays": 36, "max_ingest_resources": 5,
            "pipelines": {o['name']: {"workflow": "wf.json",
                                      "ingest_demand": 2}
                          for o in observations},
            "observations": observations}},
        "cluster": {"header": {}, "system": {
            "resources": {"m%d" % i: {"flops": 100, "compute_bandwidth": 10}
                          for i in range(10)},
            "system_bandwidth": 1.0}},
        "buffer": {"hot": {"capacity": hot, "max_ingest_rate": 100},
                   "cold": {"capacity": cold, "max_data_rate": 100}},
        "timestep": "seconds"}
    path = os.path.join(d, 'cfg.json')
    with open(path, 'w') as f:
        json.dump(cfg, f)
    return path


def obs(name, start, duration, rate):
    return {"name": name, "start": start, "duration": duration,
            "instrument_demand": 10, "data_product_rate": rate}


def run_scenario(label, d, observations, hot, cold, horizon):
    """Returns (problems, {name: observation})."""
    sub = os.path.join(d, label)
    os.mkdir(sub)
    cfg = write_config(sub, observations, hot, cold)
    env = simpy.Environment()
    sim = Simulation(env=env, config=cfg, instrument=Telescope,
                     planning_model=BatchPlanning('batch'),
                     planning_algorithm='batch',
                     scheduling=BatchProcessing(max_resource_partitions=2,
                                                min_resources_per_workflow=1),
                     delay=None, timestamp=0)
    tel = sim.instrument
    hotb, coldb = sim.buffer.hot[0], sim.buffer.cold[0]
    problems = []
    seen = set()
    t = 0
    while t < horizon:
        # free space as the telescope will see it in timestep t
        hot_free, cold_free = hotb.current_capacity, coldb.current_capacity
        if t == 0:
            sim.start(runtime=1)
        else:
            sim.resume(until=t + 1)
        for o in tel.observations:
            if o.ast is not None and o.name not in seen:
                seen.add(o.name)
                size = o.ingest_data_rate * o.duration
                if o.ast != t:
                    problems.append("%s: %s has ast %s but began in step %d"
                                    % (label, o.name, o.ast, t))
                if o.ast < o.est:
                    problems.append("%s: %s began at %s before its planned "
                                    "start %s" % (label, o.name, o.ast, o.est))
                if hot_free < size or cold_free < size:
                    problems.append(
                        "%s: %s (whole volume %s) began at t=%d with free "
                        "space hot=%s cold=%s; required both >= %s"
                        % (label, o.name, size, t, hot_free, cold_free, size))
        if hotb.current_capacity < 0 or coldb.current_capacity < 0:
            problems.append("%s: buffer over-filled at t=%d (hot %s, cold %s)"
                            % (label, t, hotb.current_capacity,
                               coldb.current_capacity))
            break
        t += 1
    return problems, {o.name: o for o in tel.observations}


def main():
    d = tempfile.mkdtemp(prefix='c08_demo2_')
    problems = []
    try:
        # --- scenario 1 : cold tier smaller than the observation ----------
        p, o = run_scenario(
            's1', d, [obs('small', 0, 10, 10), obs('big', 25, 10, 20)],
            hot=1000, cold=150, horizon=60)
        problems += p
        if o['small'].ast != 0 or o['small'].status is not RunStatus.FINISHED:
            problems.append(
                "s1: small fits both tiers and fell due on an idle system at "
                "0; observed ast=%s status=%s"
                % (o['small'].ast, o['small'].status.value))
        if o['big'].status is not RunStatus.WAITING:
            problems.append(
                "s1: big (200) can never fit the cold tier (150) and must "
                "stay WAITING; observed status=%s ast=%s"
                % (o['big'].status.value, o['big'].ast))

        # --- scenario 2 : cold tier filled by an earlier observation ------
        p, o = run_scenario(
            's2', d, [obs('first', 0, 10, 70), obs('second', 30, 10, 20)],
            hot=1000, cold=800, horizon=60)
        problems += p
        if o['first'].ast != 0 or o['first'].status is not RunStatus.FINISHED:
            problems.append(
                "s2: first fell due on an idle system at 0; observed ast=%s "
                "status=%s" % (o['first'].ast, o['first'].status.value))
    finally:
        shutil.rmtree(d, ignore_errors=True)

    if problems:
        print("FAIL: " + "; ".join(problems[:3]))
        return 1
    print("PASS")
    return 0


if __name__ == '__main__':
    sys.exit(main())
