"""
demo1 - C08: array use never exceeds the telescope total, even when two
observations fall due in the very same timestep.

usage: python demo1.py <path-to-tree>

Three observations on a 36-array telescope:
    warm : start 0, duration 3, 36 arrays    (ordinary single observation)
    a    : start 6, duration 6, 20 arrays
    b    : start 6, duration 4, 20 arrays    (due in the same timestep as a)
a and b each fit on the idle telescope, but not together (40 > 36).  The
cluster (10 machines, ingest demand 2 each, limit 5) and the buffers are
large, so the arrays are the only binding resource (BatchProcessing is run with
two resource partitions so the workflow of 'warm' leaves half the cluster free
for ingest).  Required: b is held back until a has released its arrays; at no
time do the running observations hold more than 36 arrays.
"""
import sys
import os
import json
import shutil
import logging
import tempfile

TREE = os.path.abspath(sys.argv[1])
sys.path.insert(0, TREE)

import simpy  # noqa: E402
from topsim.core.simulation import Simulation  # noqa: E402
from topsim.core.instrument import RunStatus  # noqa: E402
from topsim.user.telescope import Telescope  # noqa: E402
from topsim.user.plan.batch_planning import BatchPlanning  # noqa: E402
from topsim.user.schedule.batch_allocation import BatchProcessing  # noqa: E402

logging.disable(logging.CRITICAL)

TOTAL_ARRAYS = 36
HORIZON = 80


def write_config(d):
    wf = {"header": {}, "graph": {
        "directed": True, "multigraph": False, "graph": {},
        "nodes": [{"id": 0, "comp": 200}, {"id": 1, "comp": 200}],
        "edges": [{"source": 0, "target": 1, "transfer_data": 0}]}}
    with open(os.path.join(d, 'wf.json'), 'w') as f:
        json.dump(wf, f)

    def obs(name, start, duration, demand):
        return {"name": name, "start": start, "duration": duration,
                "instrument_demand": demand, "data_product_rate": 5}

    cfg = {
        "instrument": {"telescope": {
            "total_arrays": TOTAL_ARRAYS, "max_ingest_resources": 5,
            "pipelines": {n: {"workflow": "wf.json", "ingest_demand": 2}
                          for n in ('warm', 'a', 'b')},
            "observations": [obs('warm', 0, 3, 36), obs('a', 6, 6, 20),
                             obs('b', 6, 4, 20)]}},
        "cluster": {"header": {}, "system": {
            "resources": {"m%d" % i: {"flops": 100, "compute_bandwidth": 10}
                          for i in range(10)},
            "system_bandwidth": 1.0}},
        "buffer": {"hot": {"capacity": 10000, "max_ingest_rate": 100},
                   "cold": {"capacity": 10000, "max_data_rate": 100}},
        "timestep": "seconds"}
    path = os.path.join(d, 'cfg.json')
    with open(path, 'w') as f:
        json.dump(cfg, f)
    return path


def main():
    d = tempfile.mkdtemp(prefix='c08_demo1_')
    try:
        cfg = write_config(d)
        env = simpy.Environment()
        sim = Simulation(env=env, config=cfg, instrument=Telescope,
                         planning_model=BatchPlanning('batch'),
                         planning_algorithm='batch',
                         scheduling=BatchProcessing(
                             max_resource_partitions=2,
                             min_resources_per_workflow=1),
                         delay=None, timestamp=0)
        tel = sim.instrument
        problems = []
        sim.start(runtime=1)
        t = 1
        while True:
            # state after timestep t-1 has been completely processed
            if tel.telescope_use > tel.total_arrays:
                problems.append(
                    "after t=%d the telescope uses %d arrays, total is %d"
                    % (t - 1, tel.telescope_use, tel.total_arrays))
            if t >= HORIZON or sim.is_finished():
                break
            sim.resume(until=t + 1)
            t += 1

        obs = {o.name: o for o in tel.observations}
        for o in obs.values():
            if o.status is not RunStatus.FINISHED or o.ast is None:
                problems.append("%s did not run to FINISHED (status %s)"
                                % (o.name, o.status.value))
            elif o.ast < o.est:
                problems.append("%s began at %s before planned start %s"
                                % (o.name, o.ast, o.est))
        started = [o for o in obs.values() if o.ast is not None]
        for now in range(HORIZON):
            held = [(o.name, o.demand) for o in started
                    if o.ast <= now < o.ast + o.duration]
            if sum(x[1] for x in held) > TOTAL_ARRAYS:
                problems.append(
                    "at t=%d observations %s hold %d arrays, only %d exist"
                    % (now, held, sum(x[1] for x in held), TOTAL_ARRAYS))
                break
        if not problems and obs['warm'].ast != 0:
            problems.append("warm fell due on an idle system at 0 but "
                            "began at %s" % obs['warm'].ast)
        if not problems and not (obs['a'].ast == 6 and
                                 obs['b'].ast >= 6 + 6):
            problems.append(
                "expected a to begin at 6 and b once a is done (>=12); "
                "observed a@%s b@%s" % (obs['a'].ast, obs['b'].ast))
    finally:
        shutil.rmtree(d, ignore_errors=True)

    if problems:
        print("FAIL: " + "; ".join(problems[:3]))
        return 1
    print("PASS")
    return 0


if __name__ == '__main__':
    sys.exit(main())
