"""
demo2 - C02: "the cluster's reported number of free machines always equals the
true number".

The cluster counts a machine as free while it is in the available pool OR
reserved-idle for an observation (the reported number does not move when a
batch reservation is made or released, only when a task starts or ends).

Part 1 (cluster level): reserve 2 of 4 machines for 'a', THEN start an ingest
on 1 machine, let it finish, release 'a'.
Part 2 (simulation): 6 machines, two observations, BatchProcessing with TWO
resource partitions, so that the ingest of 'b' starts while 'a' still holds
its reservation.

After every timestep the reported number (Cluster.to_df()
['available_resources']) must equal len(available) + reserved-idle machines,
and at the end it must equal the size of the cluster.

usage: demo2.py <path-to-tree>
"""
import sys
import os
import json
import shutil
import logging
import tempfile

sys.path.insert(0, sys.argv[1])
logging.disable(logging.CRITICAL)

import simpy  # noqa: E402
from topsim.core.config import Config  # noqa: E402
from topsim.core.cluster import Cluster  # noqa: E402
from topsim.core.simulation import Simulation  # noqa: E402
from topsim.user.telescope import Telescope  # noqa: E402
from topsim.user.plan.batch_planning import BatchPlanning  # noqa: E402
from topsim.user.schedule.batch_allocation import BatchProcessing  # noqa: E402

BOUND = 100


def layered_workflow(layers, comp):
    nodes, edges, previous, n = [], [], [], 0
    for width in layers:
        current = []
        for _ in range(width):
            nodes.append({"id": n, "comp": comp})
            current.append(n)
            n += 1
        for u in previous:
            for v in current:
                edges.append({"source": u, "target": v, "transfer_data": 0})
        previous = current
    return {"graph": {"directed": True, "multigraph": False, "graph": {},
                      "nodes": nodes, "edges": edges}}


def write_config(directory, n_machines):
    workflows = {'a': layered_workflow([2, 2], comp=500),
                 'b': layered_workflow([1, 2], comp=200)}
    for name, workflow in workflows.items():
        with open(os.path.join(directory, name + '.json'), 'w') as fp:
            json.dump(workflow, fp)
    cfg = {
        "instrument": {"telescope": {
            "total_arrays": 36, "max_ingest_resources": 2,
            "pipelines": {
                "a": {"workflow": "a.json", "ingest_demand": 1},
                "b": {"workflow": "b.json", "ingest_demand": 1}},
            "observations": [
                {"name": "a", "start": 0, "duration": 3,
                 "instrument_demand": 18, "data_product_rate": 1},
                {"name": "b", "start": 5, "duration": 3,
                 "instrument_demand": 18, "data_product_rate": 1}]}},
        "cluster": {"header": {}, "system": {
            "resources": {f"m{i}": {"flops": 100, "compute_bandwidth": 10}
                          for i in range(n_machines)},
            "system_bandwidth": 1.0}},
        "buffer": {"hot": {"capacity": 1000, "max_ingest_rate": 10},
                   "cold": {"capacity": 1000, "max_data_rate": 10}},
        "timestep": "seconds"}
    path = os.path.join(directory, 'config.json')
    with open(path, 'w') as fp:
        json.dump(cfg, fp)
    return path


def free_numbers(cluster):
    """(reported, true) number of free machines."""
    reported = int(cluster.to_df()['available_resources'][0])
    true = len(cluster.get_available_resources()) + sum(
        len(cluster.get_idle_resources(name))
        for name in cluster._get_batch_observations())
    return reported, true


class _Obs:
    """The two attributes of an Observation that ingest provisioning uses"""
    def __init__(self, name, duration):
        self.name = name
        self.duration = duration


def part1(directory):
    env = simpy.Environment()
    cluster = Cluster(env, Config(write_config(directory, 4)))
    env.process(cluster.run())
    problems = []

    def look(what):
        reported, true = free_numbers(cluster)
        if reported != true and not problems:
            problems.append(
                f"part 1, {what} (t={env.now}): cluster reports {reported} "
                f"free machines, true number is {true}")

    cluster.provision_batch_resources(2, 'a')
    look("after reserving 2 machines for 'a'")
    env.process(cluster.provision_ingest_resources(1, _Obs('b', 3)))
    for _ in range(5):
        env.run(until=env.now + 1)
        look("ingest of 'b' started while 'a' holds 2 machines")
    cluster.release_batch_resources('a')
    look("after releasing 'a'")
    reported, _ = free_numbers(cluster)
    if reported != len(cluster.machines) and len(problems) < 2:
        problems.append(
            f"part 1, everything idle again: cluster reports {reported} free "
            f"machines, required {len(cluster.machines)}")
    return problems


def part2(directory):
    env = simpy.Environment()
    sim = Simulation(
        env=env, config=write_config(directory, 6), instrument=Telescope,
        planning_model=BatchPlanning('batch'), planning_algorithm='batch',
        scheduling=BatchProcessing(min_resources_per_workflow=1,
                                   max_resource_partitions=2),
        delay=None, timestamp=0)
    problems = []
    overlap = False
    sim.start(runtime=1)
    now = 1
    while not sim.is_finished() and now < BOUND:
        now += 1
        sim.resume(now)
        cluster = sim.cluster
        # did an ingest run while a reservation was outstanding?
        if cluster._get_batch_observations() and any(
                not cluster.is_task_finished(t)
                for t in cluster.finished_tasks if 'ingest' in t.id):
            overlap = True
        reported, true = free_numbers(cluster)
        if reported != true and not problems:
            problems.append(
                f"part 2, t={env.now}: cluster reports {reported} free "
                f"machines, true number is {true} (available="
                f"{len(cluster.get_available_resources())}, reserved-idle="
                f"{true - len(cluster.get_available_resources())})")
    if not sim.is_finished():
        problems.append(f"part 2: simulation not finished after {BOUND} steps")
    elif not overlap:
        problems.append("part 2: scenario did not overlap an ingest with a "
                        "reservation (demo is not exercising the situation)")
    else:
        reported, _ = free_numbers(sim.cluster)
        if reported != len(sim.cluster.machines):
            problems.append(
                f"part 2, end of simulation (t={env.now}): cluster reports "
                f"{reported} free machines, required "
                f"{len(sim.cluster.machines)}")
    return problems


def main():
    directory = tempfile.mkdtemp(prefix='c02demo2_')
    try:
        problems = part1(directory) + part2(directory)
    finally:
        shutil.rmtree(directory, ignore_errors=True)
    if problems:
        print("FAIL: " + " | ".join(problems))
        return 1
    print("PASS")
    return 0


if __name__ == '__main__':
    sys.exit(main())
