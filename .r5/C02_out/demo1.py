"""
demo1 - C02: "when a simulation ends every machine is back in the available
pool with no reservation outstanding".

Scenario: ONE observation 'a' on a 4-machine cluster, BatchProcessing with a
single partition (so the workflow reserves all 4 machines).  The workflow is a
two-layer DAG whose LAST layer has exactly as many tasks (4) as machines are
reserved, so that in the final wave every reserved machine is busy and all of
them finish in the same timestep.  The simulation is stepped one timestep at a
time until Simulation.is_finished().

Required: the run finishes; afterwards all 4 machines are in the available
pool, no reservation is left, and the cluster reports 4 free machines and 0
provisioned observations.  A second run with a 3-task last layer (one reserved
machine stays idle) is used as a control.

usage: demo1.py <path-to-tree>
"""
import sys
import os
import json
import shutil
import logging
import tempfile

sys.path.insert(0, sys.argv[1])
logging.disable(logging.CRITICAL)

import simpy  # noqa: E402
from topsim.core.simulation import Simulation  # noqa: E402
from topsim.user.telescope import Telescope  # noqa: E402
from topsim.user.plan.batch_planning import BatchPlanning  # noqa: E402
from topsim.user.schedule.batch_allocation import BatchProcessing  # noqa: E402

N_MACHINES = 4
BOUND = 100


def layered_workflow(layers, comp):
    nodes, edges, previous, n = [], [], [], 0
    for width in layers:
        current = []
        for _ in range(width):
            nodes.append({"id": n, "comp": comp})
            current.append(n)
            n += 1
        for u in previous:
            for v in current:
                edges.append({"source": u, "target": v, "transfer_data": 0})
        previous = current
    return {"graph": {"directed": True, "multigraph": False, "graph": {},
                      "nodes": nodes, "edges": edges}}


def write_config(directory, layers):
    with open(os.path.join(directory, 'a.json'), 'w') as fp:
        json.dump(layered_workflow(layers, comp=200), fp)
    cfg = {
        "instrument": {"telescope": {
            "total_arrays": 36, "max_ingest_resources": 1,
            "pipelines": {"a": {"workflow": "a.json", "ingest_demand": 1}},
            "observations": [{"name": "a", "start": 0, "duration": 3,
                              "instrument_demand": 36,
                              "data_product_rate": 1}]}},
        "cluster": {"header": {}, "system": {
            "resources": {f"m{i}": {"flops": 100, "compute_bandwidth": 10}
                          for i in range(N_MACHINES)},
            "system_bandwidth": 1.0}},
        "buffer": {"hot": {"capacity": 1000, "max_ingest_rate": 10},
                   "cold": {"capacity": 1000, "max_data_rate": 10}},
        "timestep": "seconds"}
    path = os.path.join(directory, 'config.json')
    with open(path, 'w') as fp:
        json.dump(cfg, fp)
    return path


def run(layers):
    """Returns a list of problems (empty = fine)."""
    directory = tempfile.mkdtemp(prefix='c02demo1_')
    try:
        env = simpy.Environment()
        sim = Simulation(
            env=env, config=write_config(directory, layers),
            instrument=Telescope, planning_model=BatchPlanning('batch'),
            planning_algorithm='batch',
            scheduling=BatchProcessing(min_resources_per_workflow=1),
            delay=None, timestamp=0)
        sim.start(runtime=1)
        now = 1
        while not sim.is_finished() and now < BOUND:
            now += 1
            sim.resume(now)
        cluster = sim.cluster
        problems = []
        if not sim.is_finished():
            return [f"layers {layers}: simulation not finished after "
                    f"{BOUND} steps (required: it ends)"]
        n_tasks = sum(layers)
        finished_wf = [t for t in cluster.finished_tasks
                       if 'ingest' not in t.id and cluster.is_task_finished(t)]
        if len(finished_wf) != n_tasks:
            problems.append(f"{len(finished_wf)} workflow tasks finished, "
                            f"required {n_tasks}")
        available = sorted(m.id for m in cluster.get_available_resources())
        reserved = sorted(m.id for m in cluster.get_idle_resources('a'))
        expected = sorted(m.id for m in cluster.machines)
        report = cluster.to_df()
        if available != expected or reserved or \
                cluster.is_observation_provisioned('a'):
            problems.append(
                f"at the end (t={env.now}) available pool = {available}, "
                f"machines still reserved for 'a' = {reserved}, "
                f"reservation for 'a' outstanding = "
                f"{cluster.is_observation_provisioned('a')}; required: "
                f"available = {expected}, nothing reserved")
        if int(report['provisioned_observations'][0]) != 0 or \
                cluster.num_provisioned_obs != 0:
            problems.append(
                f"cluster reports "
                f"{int(report['provisioned_observations'][0])} provisioned "
                f"observation(s) (num_provisioned_obs="
                f"{cluster.num_provisioned_obs}) at the end, required 0")
        return [f"layers {layers}: " + p for p in problems]
    finally:
        shutil.rmtree(directory, ignore_errors=True)


def main():
    problems = []
    problems += run([2, 3])   # control: one reserved machine idle at the end
    problems += run([2, 4])   # last wave keeps every reserved machine busy
    if problems:
        print("FAIL: " + " | ".join(problems))
        return 1
    print("PASS")
    return 0


if __name__ == '__main__':
    sys.exit(main())
