"""
demo2 - C18: two OVERLAPPING hot->cold moves must each leave their own
observation stored in exactly one tier.

Usage: python demo2.py <path-to-topsim-tree>

Scenario (hand-built Buffer, no config files needed):
  hot  tier: capacity 1000, ingest rate 10, holds S(12) and L(50)
  cold tier: capacity 1000, data rate 5, empty
  t=0  move_hot_to_cold starts and picks L (last stored): ceil(50/5)=10 steps
  t=1  a second move_hot_to_cold starts and picks S: ceil(12/5)=3 steps,
       so S completes (end of t=3) while L is still in flight.
  Required at every step: hot free + cold free is constant (what leaves the
  hot tier enters the cold tier); once a move has completed its observation is
  stored exactly once in the cold tier and nowhere else; an observation still
  in flight is stored in neither tier; final free space hot +62 / cold -62.
  The mirrored scenario (a hot->cold move overlapping a cold->hot move of
  another observation) and a generic sanity sweep are checked as well.
"""
import contextlib
import io
import math
import sys

sys.path.insert(0, sys.argv[1])

import simpy  # noqa: E402

from topsim.core.buffer import Buffer, HotBuffer, ColdBuffer  # noqa: E402
from topsim.core.instrument import Observation  # noqa: E402


class _Cfg:
    def __init__(self, hot_cap, hot_rate, cold_cap, cold_rate):
        self.args = (hot_cap, hot_rate, cold_cap, cold_rate)

    def parse_buffer_config(self):
        hot_cap, hot_rate, cold_cap, cold_rate = self.args
        return ({0: HotBuffer(hot_cap, hot_rate)},
                {0: ColdBuffer(cold_cap, cold_rate)})


def build(hot_cap, hot_rate, cold_cap, cold_rate):
    env = simpy.Environment()
    buf = Buffer(env, None, None, _Cfg(hot_cap, hot_rate, cold_cap, cold_rate))
    return env, buf


def obs(name, size):
    o = Observation(name, 0, 1, 1, None, data_rate=1)
    o.total_data_size = size
    return o


def put(tier, o):
    tier.observations['stored'].append(o)
    tier.current_capacity -= o.total_data_size


def names(lst):
    return [o.name for o in lst]


def snapshot(buf):
    h, c = buf.hot[0], buf.cold[0]

    def slot(t):
        x = t.observations['transfer']
        return None if x is None else x.name

    return {
        'hot.free': h.current_capacity, 'cold.free': c.current_capacity,
        'hot.stored': names(h.observations['stored']),
        'cold.stored': names(c.observations['stored']),
        'hot.transfer': slot(h), 'cold.transfer': slot(c),
        'pending_volume': buf._data_left_to_transfer,
        'n_events': len(buf.events),
    }


def where(buf, o):
    h, c = buf.hot[0], buf.cold[0]
    return (h.observations['stored'].count(o),
            c.observations['stored'].count(o))


def run_move(env, buf, direction, o, rate, problems, tag):
    """Start one move of `o`, step it, check the C18 clauses."""
    h, c = buf.hot[0], buf.cold[0]
    size = o.total_data_size
    steps = int(math.ceil(size / rate))
    h0, c0 = h.current_capacity, c.current_capacity
    total = h0 + c0
    gen = buf.move_hot_to_cold(0) if direction == 'h2c' \
        else buf.move_cold_to_hot(0)
    proc = env.process(gen)
    start = env.now
    for k in range(1, steps + 1):
        env.run(until=start + k)
        if proc.processed and proc.value is False:
            problems.append(f"{tag}: move of {o.name} was refused although "
                            f"the destination has room")
            return
        moved = min(k * rate, size)
        exp_h = h0 + moved if direction == 'h2c' else h0 - moved
        exp_c = c0 - moved if direction == 'h2c' else c0 + moved
        if h.current_capacity + c.current_capacity != total:
            problems.append(
                f"{tag}: step {k}: free space hot+cold = "
                f"{h.current_capacity + c.current_capacity}, required {total}")
            return
        if (h.current_capacity, c.current_capacity) != (exp_h, exp_c):
            problems.append(
                f"{tag}: step {k}: (hot free, cold free) = "
                f"({h.current_capacity}, {c.current_capacity}), required "
                f"({exp_h}, {exp_c}) at rate {rate}")
            return
        done = where(buf, o) == ((0, 1) if direction == 'h2c' else (1, 0))
        if k < steps and done:
            problems.append(f"{tag}: {o.name} arrived after {k} steps, "
                            f"required ceil({size}/{rate}) = {steps}")
            return
    env.run(until=start + steps + 1)
    expected = (0, 1) if direction == 'h2c' else (1, 0)
    if where(buf, o) != expected:
        problems.append(
            f"{tag}: after {steps} steps {o.name} is stored (hot, cold) = "
            f"{where(buf, o)} times, required {expected}")
    if not proc.processed or proc.value is not True:
        problems.append(f"{tag}: move process did not finish with True")
    if h.observations['transfer'] is not None \
            or c.observations['transfer'] is not None:
        problems.append(f"{tag}: a transfer slot is still occupied after the "
                        f"move completed")


def stored_counts(buf, o):
    return where(buf, o)


def scenario_overlap(problems):
    env, buf = build(1000, 10, 1000, 5)
    h, c = buf.hot[0], buf.cold[0]
    s, l = obs('S', 12), obs('L', 50)
    put(h, s)
    put(h, l)
    total = h.current_capacity + c.current_capacity
    p_l = env.process(buf.move_hot_to_cold(0))
    env.run(until=1)
    p_s = env.process(buf.move_hot_to_cold(0))
    # S moves during t=1,2,3 ; L during t=0..9
    for t in range(2, 13):
        env.run(until=t)
        if h.current_capacity + c.current_capacity != total:
            problems.append(
                f"overlap: t={t}: hot free + cold free = "
                f"{h.current_capacity + c.current_capacity}, required {total}")
            break
        exp_s = (0, 1) if t >= 4 else (0, 0)
        exp_l = (0, 1) if t >= 10 else (0, 0)
        got_s, got_l = stored_counts(buf, s), stored_counts(buf, l)
        if got_s != exp_s or got_l != exp_l:
            problems.append(
                f"overlap: after step t={t - 1}: stored (hot, cold) counts "
                f"S={got_s} L={got_l}, required S={exp_s} L={exp_l}; "
                f"cold.stored={names(c.observations['stored'])}")
            break
    else:
        if (h.current_capacity, c.current_capacity) != (1000, 938):
            problems.append(
                f"overlap: final free (hot, cold) = ({h.current_capacity}, "
                f"{c.current_capacity}), required (1000, 938)")
        if sorted(names(c.observations['stored'])) != ['L', 'S'] \
                or h.observations['stored']:
            problems.append(
                f"overlap: final cold.stored = "
                f"{names(c.observations['stored'])}, hot.stored = "
                f"{names(h.observations['stored'])}; required each of L, S "
                f"exactly once in cold and none in hot")
        if not (p_l.processed and p_l.value is True
                and p_s.processed and p_s.value is True):
            problems.append("overlap: a move process did not finish with True")
        if c.observations['transfer'] is not None \
                or h.observations['transfer'] is not None:
            problems.append("overlap: transfer slot still occupied at the end")


def scenario_cross(problems):
    """X leaves the cold tier while Y arrives in it."""
    env, buf = build(1000, 10, 1000, 5)
    h, c = buf.hot[0], buf.cold[0]
    x, y = obs('X', 50), obs('Y', 12)
    put(c, x)
    put(h, y)
    total = h.current_capacity + c.current_capacity
    env.process(buf.move_cold_to_hot(0))   # X: 10 steps, t=0..9
    env.run(until=1)
    env.process(buf.move_hot_to_cold(0))   # Y: 3 steps, t=1..3
    for t in range(2, 13):
        env.run(until=t)
        if h.current_capacity + c.current_capacity != total:
            problems.append(f"cross: t={t}: free space not conserved")
            break
        exp_y = (0, 1) if t >= 4 else (0, 0)
        exp_x = (1, 0) if t >= 10 else (0, 0)
        got_x, got_y = stored_counts(buf, x), stored_counts(buf, y)
        if got_x != exp_x or got_y != exp_y:
            problems.append(
                f"cross: after step t={t - 1}: stored (hot, cold) counts "
                f"X={got_x} Y={got_y}, required X={exp_x} Y={exp_y}")
            break
    else:
        if (h.current_capacity, c.current_capacity) != (1000 - 50, 1000 - 12):
            problems.append("cross: final free space wrong")


def scenario_sweep(problems):
    # (hot cap, hot rate, cold cap, cold rate, size)
    for hc, hr, cc, cr, size in [(500, 5, 250, 2, 20), (500, 5, 250, 2, 21),
                                 (300, 7, 300, 7, 7), (100, 9, 100, 3, 1),
                                 (400, 10, 400, 4, 45)]:
        env, buf = build(hc, hr, cc, cr)
        o = obs('R', size)
        put(buf.hot[0], o)
        tag = f"sweep hot={hr}/cold={cr}/size={size}"
        run_move(env, buf, 'h2c', o, cr, problems, tag + ' h2c')
        run_move(env, buf, 'c2h', o, min(hr, cr), problems, tag + ' c2h')
        if (buf.hot[0].current_capacity, buf.cold[0].current_capacity) != \
                (hc - size, cc):
            problems.append(f"{tag}: round trip did not restore free space")
    # hot tier is the slower one: cold->hot must run at the hot rate
    for hr, cr, size in [(3, 8, 20), (2, 5, 9), (4, 6, 4)]:
        env, buf = build(200, hr, 200, cr)
        o = obs('S', size)
        put(buf.cold[0], o)
        run_move(env, buf, 'c2h', o, hr, problems,
                 f"sweep hot-slower hot={hr}/cold={cr}/size={size} c2h")
    # plain refusals, both directions
    env, buf = build(100, 5, 100, 5)
    a, filler = obs('A', 30), obs('F', 80)
    put(buf.hot[0], a)
    put(buf.cold[0], filler)
    before = snapshot(buf)
    proc = env.process(buf.move_hot_to_cold(0))
    env.run(until=1)
    if not (proc.processed and proc.value is False) \
            or snapshot(buf) != before:
        problems.append("sweep: refused hot->cold move changed state or was "
                        "not refused")


def main():
    problems = []
    # HotBuffer.receive_observation prints a progress line; keep stdout clean
    with contextlib.redirect_stdout(io.StringIO()):
        scenario_overlap(problems)
        scenario_cross(problems)
        scenario_sweep(problems)
    if problems:
        print("FAIL: " + " | ".join(problems))
        return 1
    print("PASS")
    return 0


if __name__ == '__main__':
    sys.exit(main())
