"""
demo1 - C18: a REFUSED cold->hot move must leave everything as it was.

Usage: python demo1.py <path-to-topsim-tree>

Scenario (hand-built Buffer, no config files needed):
  hot  tier: capacity 100, ingest rate 10, holds Y(50) and Z(45)  -> 5 free
  cold tier: capacity 100, data rate 4,    holds X(40)            -> 60 free
  1. move_cold_to_hot(X): the hot tier lacks room (5 < 40) -> refused.
     Required: refusal returns False and the complete tier state (free space,
     stored lists, transfer slots) is what it was before.
  2. follow-up that depends on step 1 having left no residue:
     move_hot_to_cold(Z): the cold tier has 60 free >= 45, so the move must be
     accepted, conserve data at every step, take ceil(45/4) = 12 steps and
     leave Z stored only in the cold tier with both free spaces adjusted by 45.
  3. a generic sanity sweep (round trips, either tier being the slower one).
"""
import contextlib
import io
import math
import sys

sys.path.insert(0, sys.argv[1])

import simpy  # noqa: E402

from topsim.core.buffer import Buffer, HotBuffer, ColdBuffer  # noqa: E402
from topsim.core.instrument import Observation  # noqa: E402


class _Cfg:
    def __init__(self, hot_cap, hot_rate, cold_cap, cold_rate):
        self.args = (hot_cap, hot_rate, cold_cap, cold_rate)

    def parse_buffer_config(self):
        hot_cap, hot_rate, cold_cap, cold_rate = self.args
        return ({0: HotBuffer(hot_cap, hot_rate)},
                {0: ColdBuffer(cold_cap, cold_rate)})


def build(hot_cap, hot_rate, cold_cap, cold_rate):
    env = simpy.Environment()
    buf = Buffer(env, None, None, _Cfg(hot_cap, hot_rate, cold_cap, cold_rate))
    return env, buf


def obs(name, size):
    o = Observation(name, 0, 1, 1, None, data_rate=1)
    o.total_data_size = size
    return o


def put(tier, o):
    tier.observations['stored'].append(o)
    tier.current_capacity -= o.total_data_size


def names(lst):
    return [o.name for o in lst]


def snapshot(buf):
    h, c = buf.hot[0], buf.cold[0]

    def slot(t):
        x = t.observations['transfer']
        return None if x is None else x.name

    return {
        'hot.free': h.current_capacity, 'cold.free': c.current_capacity,
        'hot.stored': names(h.observations['stored']),
        'cold.stored': names(c.observations['stored']),
        'hot.transfer': slot(h), 'cold.transfer': slot(c),
        'pending_volume': buf._data_left_to_transfer,
        'n_events': len(buf.events),
    }


def where(buf, o):
    h, c = buf.hot[0], buf.cold[0]
    return (h.observations['stored'].count(o),
            c.observations['stored'].count(o))


def run_move(env, buf, direction, o, rate, problems, tag):
    """Start one move of `o`, step it, check the C18 clauses."""
    h, c = buf.hot[0], buf.cold[0]
    size = o.total_data_size
    steps = int(math.ceil(size / rate))
    h0, c0 = h.current_capacity, c.current_capacity
    total = h0 + c0
    gen = buf.move_hot_to_cold(0) if direction == 'h2c' \
        else buf.move_cold_to_hot(0)
    proc = env.process(gen)
    start = env.now
    for k in range(1, steps + 1):
        env.run(until=start + k)
        if proc.processed and proc.value is False:
            problems.append(f"{tag}: move of {o.name} was refused although "
                            f"the destination has room")
            return
        moved = min(k * rate, size)
        exp_h = h0 + moved if direction == 'h2c' else h0 - moved
        exp_c = c0 - moved if direction == 'h2c' else c0 + moved
        if h.current_capacity + c.current_capacity != total:
            problems.append(
                f"{tag}: step {k}: free space hot+cold = "
                f"{h.current_capacity + c.current_capacity}, required {total}")
            return
        if (h.current_capacity, c.current_capacity) != (exp_h, exp_c):
            problems.append(
                f"{tag}: step {k}: (hot free, cold free) = "
                f"({h.current_capacity}, {c.current_capacity}), required "
                f"({exp_h}, {exp_c}) at rate {rate}")
            return
        done = where(buf, o) == ((0, 1) if direction == 'h2c' else (1, 0))
        if k < steps and done:
            problems.append(f"{tag}: {o.name} arrived after {k} steps, "
                            f"required ceil({size}/{rate}) = {steps}")
            return
    env.run(until=start + steps + 1)
    expected = (0, 1) if direction == 'h2c' else (1, 0)
    if where(buf, o) != expected:
        problems.append(
            f"{tag}: after {steps} steps {o.name} is stored (hot, cold) = "
            f"{where(buf, o)} times, required {expected}")
    if not proc.processed or proc.value is not True:
        problems.append(f"{tag}: move process did not finish with True")
    if h.observations['transfer'] is not None \
            or c.observations['transfer'] is not None:
        problems.append(f"{tag}: a transfer slot is still occupied after the "
                        f"move completed")


def scenario_refusal(problems):
    env, buf = build(100, 10, 100, 4)
    h, c = buf.hot[0], buf.cold[0]
    x, y, z = obs('X', 40), obs('Y', 50), obs('Z', 45)
    put(c, x)
    put(h, y)
    put(h, z)
    before = snapshot(buf)
    proc = env.process(buf.move_cold_to_hot(0))
    env.run(until=1)
    if not (proc.processed and proc.value is False):
        problems.append("refusal: cold->hot move into a hot tier with 5 free "
                        "was not refused")
        return
    after = snapshot(buf)
    if after != before:
        diff = {k: (before[k], after[k]) for k in before
                if before[k] != after[k]}
        problems.append(
            f"refusal: refused cold->hot move changed state (before, after): "
            f"{diff}; required: everything as it was")
    # follow-up: cold has 60 free, Z needs 45 -> must be accepted
    if not c.has_capacity_for(z.total_data_size):
        problems.append(
            "follow-up: cold tier with 60 free claims to have no room for "
            "Z(45) after the refused move")
    run_move(env, buf, 'h2c', z, 4, problems, 'follow-up hot->cold Z')
    if not problems:
        if (h.current_capacity, c.current_capacity) != (50, 15):
            problems.append(
                f"follow-up: final free (hot, cold) = "
                f"({h.current_capacity}, {c.current_capacity}), "
                f"required (50, 15)")
        if names(c.observations['stored']) != ['X', 'Z'] \
                or names(h.observations['stored']) != ['Y']:
            problems.append("follow-up: final stored lists wrong")


def scenario_sweep(problems):
    # (hot cap, hot rate, cold cap, cold rate, size)
    for hc, hr, cc, cr, size in [(500, 5, 250, 2, 20), (500, 5, 250, 2, 21),
                                 (300, 7, 300, 7, 7), (100, 9, 100, 3, 1),
                                 (400, 10, 400, 4, 45)]:
        env, buf = build(hc, hr, cc, cr)
        o = obs('R', size)
        put(buf.hot[0], o)
        tag = f"sweep hot={hr}/cold={cr}/size={size}"
        run_move(env, buf, 'h2c', o, cr, problems, tag + ' h2c')
        run_move(env, buf, 'c2h', o, min(hr, cr), problems, tag + ' c2h')
        if (buf.hot[0].current_capacity, buf.cold[0].current_capacity) != \
                (hc - size, cc):
            problems.append(f"{tag}: round trip did not restore free space")
    # hot tier is the slower one: cold->hot must run at the hot rate
    for hr, cr, size in [(3, 8, 20), (2, 5, 9), (4, 6, 4)]:
        env, buf = build(200, hr, 200, cr)
        o = obs('S', size)
        put(buf.cold[0], o)
        run_move(env, buf, 'c2h', o, hr, problems,
                 f"sweep hot-slower hot={hr}/cold={cr}/size={size} c2h")
    # plain refusals, both directions
    env, buf = build(100, 5, 100, 5)
    a, filler = obs('A', 30), obs('F', 80)
    put(buf.hot[0], a)
    put(buf.cold[0], filler)
    before = snapshot(buf)
    proc = env.process(buf.move_hot_to_cold(0))
    env.run(until=1)
    if not (proc.processed and proc.value is False) \
            or snapshot(buf) != before:
        problems.append("sweep: refused hot->cold move changed state or was "
                        "not refused")


def main():
    problems = []
    # HotBuffer.receive_observation prints a progress line; keep stdout clean
    with contextlib.redirect_stdout(io.StringIO()):
        scenario_refusal(problems)
        scenario_sweep(problems)
    if problems:
        print("FAIL: " + " | ".join(problems))
        return 1
    print("PASS")
    return 0


if __name__ == '__main__':
    sys.exit(main())
