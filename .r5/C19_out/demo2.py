"""
Demo for bug2 (C19, buffer emptiness).

A single observation fills 70% of the hot buffer, which is above the 60%
threshold, so the Buffer moves it to the cold tier. Once the transfer is
complete the hot tier is back at full free capacity while the cold tier
still holds the observation: buffer.is_empty() (and with it
simulation.is_finished()) has to say False.

Usage: demo2.py <path-to-tree>
"""
import sys
import os
import json
import shutil
import logging
import tempfile

if len(sys.argv) != 2:
    print("usage: demo.py <path-to-tree>")
    sys.exit(2)
sys.path.insert(0, os.path.abspath(sys.argv[1]))
logging.disable(logging.CRITICAL)

import simpy  # noqa: E402
from topsim.core.simulation import Simulation  # noqa: E402
from topsim.core.instrument import RunStatus  # noqa: E402
from topsim.user.telescope import Telescope  # noqa: E402
from topsim.user.plan.batch_planning import BatchPlanning  # noqa: E402
from topsim.user.schedule.batch_allocation import BatchProcessing  # noqa: E402


def write_config(directory, observations, n_machines, hot, cold, hot_rate,
                 cold_rate, max_ingest):
    """Write a tiny three-task fork workflow and a simulation config."""
    workflow = {"graph": {
        "directed": True, "multigraph": False, "graph": {},
        "nodes": [{"id": 0, "comp": 400}, {"id": 1, "comp": 400},
                  {"id": 2, "comp": 400}],
        "edges": [{"source": 0, "target": 1, "transfer_data": 0},
                  {"source": 0, "target": 2, "transfer_data": 0}]}}
    with open(os.path.join(directory, "wf.json"), "w") as fp:
        json.dump(workflow, fp)
    pipelines = {}
    obs_cfg = []
    for o in observations:
        o = dict(o)
        pipelines[o["name"]] = {"workflow": "wf.json",
                                "ingest_demand": o.pop("ingest_demand")}
        obs_cfg.append(o)
    cfg = {
        "instrument": {"telescope": {
            "total_arrays": 36, "max_ingest_resources": max_ingest,
            "pipelines": pipelines, "observations": obs_cfg}},
        "cluster": {"header": {}, "system": {
            "resources": {"m%d" % i: {"flops": 100, "compute_bandwidth": 10}
                          for i in range(n_machines)},
            "system_bandwidth": 10}},
        "buffer": {"hot": {"capacity": hot, "max_ingest_rate": hot_rate},
                   "cold": {"capacity": cold, "max_data_rate": cold_rate}}}
    path = os.path.join(directory, "cfg.json")
    with open(path, "w") as fp:
        json.dump(cfg, fp)
    return path


def ground_truth(sim):
    """Recompute, from the raw actor state, what each query has to say."""
    cl = sim.cluster._clusters['default']
    n_running = len(cl['tasks']['running']) + len(cl['tasks']['waiting'])
    n_busy = len(cl['resources']['occupied']) + len(cl['resources']['ingest'])
    tiers = ([("hot", t) for t in sim.buffer.hot.values()]
             + [("cold", t) for t in sim.buffer.cold.values()])
    used = {name: t.total_capacity - t.current_capacity for name, t in tiers}
    tel = sim.instrument
    unfinished = [o.name for o in tel.observations
                  if o.status != RunStatus.FINISHED]
    return {
        "cluster": (n_running == 0 and n_busy == 0,
                    "%d task(s) running, %d machine(s) busy"
                    % (n_running, n_busy)),
        "buffer": (all(v == 0 for v in used.values()),
                   "data held per tier = %s" % used),
        "scheduler": (len(sim.scheduler.observation_queue) == 0,
                      "%d observation(s) queued"
                      % len(sim.scheduler.observation_queue)),
        "telescope": (not unfinished and tel.telescope_use == 0,
                      "unfinished=%s arrays_in_use=%s"
                      % (unfinished, tel.telescope_use)),
    }


def check_queries(sim):
    """Return a failure message if any idle/empty/finished query lies."""
    now = sim.env.now
    truth = ground_truth(sim)
    answers = {
        "cluster": ("cluster.is_idle()", sim.cluster.is_idle()),
        "buffer": ("buffer.is_empty()", sim.buffer.is_empty()),
        "scheduler": ("scheduler.is_idle()", sim.scheduler.is_idle()),
        "telescope": ("telescope.is_idle()", sim.instrument.is_idle()),
    }
    for key, (label, answer) in answers.items():
        really, detail = truth[key]
        if answer and not really:
            return ("t=%s: %s returned True although %s; required False"
                    % (now, label, detail))
    finished = sim.is_finished()
    all_four = all(a for _, a in answers.values())
    if bool(finished) != all_four:
        return ("t=%s: simulation.is_finished() returned %s but the four "
                "actor queries give %s; required %s"
                % (now, finished, {k: a for k, (_, a) in answers.items()},
                   all_four))
    if finished and not all(really for really, _ in truth.values()):
        return ("t=%s: simulation.is_finished() returned True although %s; "
                "required False"
                % (now, "; ".join(d for r, d in truth.values() if not r)))
    return None


def run_stepwise(sim, horizon, witness):
    """
    Run the simulation one timestep at a time up to `horizon`, checking all
    queries after every timestep. `witness(sim)` says whether the specific
    situation this demo is about has been reached.
    """
    seen_witness = False
    sim.start(runtime=1)
    t = 1
    while True:
        failure = check_queries(sim)
        if failure:
            return failure, seen_witness
        seen_witness = seen_witness or witness(sim)
        if t >= horizon:
            return None, seen_witness
        t += 1
        sim.resume(until=t)


def main():
    tmp = tempfile.mkdtemp(prefix="c19_demo2_")
    try:
        observations = [
            {"name": "a", "start": 0, "duration": 7, "instrument_demand": 18,
             "data_product_rate": 10, "ingest_demand": 1},
        ]
        cfg = write_config(tmp, observations, n_machines=4, hot=100, cold=100,
                           hot_rate=10, cold_rate=20, max_ingest=2)
        sim = Simulation(
            env=simpy.Environment(), config=cfg, instrument=Telescope,
            planning_model=BatchPlanning('batch'), planning_algorithm='batch',
            scheduling=BatchProcessing(min_resources_per_workflow=1),
            delay=None, timestamp=0)

        def witness(s):
            # hot tier completely free again, data sitting in the cold tier
            hot, cold = s.buffer.hot[0], s.buffer.cold[0]
            return (hot.current_capacity == hot.total_capacity
                    and cold.current_capacity < cold.total_capacity)

        failure, seen = run_stepwise(sim, horizon=30, witness=witness)
        if failure:
            print("FAIL: " + failure)
            return 1
        if not seen:
            print("FAIL: scenario did not reach the state with the "
                  "observation parked in the cold tier (demo precondition)")
            return 1
        print("PASS")
        return 0
    finally:
        shutil.rmtree(tmp, ignore_errors=True)


if __name__ == "__main__":
    sys.exit(main())
