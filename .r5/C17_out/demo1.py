"""
C17 demo 1 - plan-following scheduling on a workflow with SEVERAL ENTRY TASKS.

usage: python demo1.py <path-to-topsim-tree>

A four-machine heterogeneous cluster, two observations ("alpha", "beta") whose
workflows are DAGs with more than one entry task, a hand-written static plan
(every task carries a planned machine id, est and eft), and the plan-following
policy DynamicSchedulingFromPlan.  The ingest of "beta" grabs a machine while
the workflow of "alpha" is running, so some tasks have to wait.

Checked for every workflow task (trace taken from Task.do_work):
  1. it was executed exactly once, on the machine its plan names;
  2. it did not start on that machine before the previous user of the machine
     (ingest or another task) had finished.
"""
import json
import os
import shutil
import sys
import tempfile

TREE = os.path.abspath(sys.argv[1]) if len(sys.argv) > 1 else os.getcwd()
sys.path.insert(0, TREE)

import logging

logging.disable(logging.CRITICAL)

import networkx as nx  # noqa: E402
import pandas as pd  # noqa: E402
import simpy  # noqa: E402

from topsim.algorithms.planning import Planning  # noqa: E402
from topsim.core.planner import WorkflowPlan, WorkflowStatus  # noqa: E402
from topsim.core.simulation import Simulation  # noqa: E402
from topsim.core.task import Task  # noqa: E402
from topsim.user.schedule.dynamic_plan import \
    DynamicSchedulingFromPlan  # noqa: E402
from topsim.user.telescope import Telescope  # noqa: E402

RUNTIME = 120

CLUSTER = {
    "m0": {"flops": 10, "compute_bandwidth": 10},
    "m1": {"flops": 20, "compute_bandwidth": 10},
    "m2": {"flops": 5, "compute_bandwidth": 10},
    "m3": {"flops": 10, "compute_bandwidth": 10},
}

# node -> (comp, planned machine, est, eft); edges as (u, v)
WORKFLOWS = {
    "alpha": {
        "nodes": {
            0: (40, "m1", 0, 2),   # entry
            1: (20, "m2", 0, 4),   # entry
            2: (40, "m1", 2, 4),   # entry, same machine as node 0: must wait
            3: (30, "m3", 4, 7),   # join of 0 and 1
            4: (20, "m0", 4, 6),   # child of 2
            5: (20, "m2", 7, 11),  # join of 3 and 4
        },
        "edges": [(0, 3), (1, 3), (2, 4), (3, 5), (4, 5)],
    },
    "beta": {
        "nodes": {
            0: (20, "m2", 0, 4),   # entry
            1: (30, "m3", 0, 3),   # entry
            2: (20, "m0", 0, 2),   # entry
            3: (20, "m1", 4, 5),   # join of 0, 1, 2
        },
        "edges": [(0, 3), (1, 3), (2, 3)],
    },
}

OBSERVATIONS = [
    {"name": "alpha", "start": 0, "duration": 5, "instrument_demand": 18,
     "data_product_rate": 4},
    {"name": "beta", "start": 8, "duration": 6, "instrument_demand": 18,
     "data_product_rate": 4},
]


def write_inputs(tmp):
    pipelines = {}
    for name, wf in WORKFLOWS.items():
        graph = {
            "directed": True, "multigraph": False, "graph": {},
            "nodes": [{"id": n, "comp": spec[0]}
                      for n, spec in wf["nodes"].items()],
            "edges": [{"source": u, "target": v, "transfer_data": 0}
                      for u, v in wf["edges"]],
        }
        path = os.path.join(tmp, "%s_workflow.json" % name)
        with open(path, "w") as fp:
            json.dump({"header": {}, "graph": graph}, fp)
        pipelines[name] = {"workflow": os.path.basename(path),
                           "ingest_demand": 1}
    cfg = {
        "instrument": {"telescope": {
            "total_arrays": 36, "max_ingest_resources": 2,
            "pipelines": pipelines, "observations": OBSERVATIONS}},
        "cluster": {"header": {}, "system": {
            "resources": CLUSTER, "system_bandwidth": 10}},
        "buffer": {"hot": {"capacity": 500, "max_ingest_rate": 50},
                   "cold": {"capacity": 500, "max_data_rate": 50}},
        "timestep": "seconds",
    }
    path = os.path.join(tmp, "config.json")
    with open(path, "w") as fp:
        json.dump(cfg, fp)
    return path


class FixedPlanning(Planning):
    """A static plan written down by hand (stands in for SHADOW/HEFT)."""

    def __init__(self):
        super().__init__("fixed")
        self.planned = {}  # task id -> planned machine id

    def generate_plan(self, clock, cluster, buffer, observation, max_ingest):
        spec = WORKFLOWS[observation.name]["nodes"]
        with open(observation.workflow) as fp:
            graph = nx.readwrite.node_link_graph(json.load(fp)["graph"],
                                                 edges="edges")
        mapping, tasks = {}, []
        for node in nx.topological_sort(graph):
            comp, machine_id, est, eft = spec[node]
            tid = self._create_observation_task_id(node, observation, clock)
            preds = [self._create_observation_task_id(p, observation, clock)
                     for p in graph.predecessors(node)]
            io = {self._create_observation_task_id(p, observation, clock):
                  graph.pred[node][p]["transfer_data"]
                  for p in graph.predecessors(node)}
            task = Task(tid, est, eft, machine_id, preds, comp, 0, io, None,
                        gid=node)
            self.planned[tid] = machine_id
            mapping[node] = task
            tasks.append(task)
        tasks.sort(key=lambda t: t.est)
        exec_order = [t.id for t in tasks]
        makespan = max(t.eft for t in tasks)
        return WorkflowPlan(observation.name, observation.duration, makespan,
                            tasks, exec_order, WorkflowStatus.SCHEDULED,
                            max_ingest, nx.relabel_nodes(graph, mapping))

    def to_df(self):
        return pd.DataFrame()


TRACE = []


def install_trace():
    original = Task.do_work

    def traced(self, env, machine, predecessor_allocations=None):
        rec = {"task": self.id, "machine": machine.id, "begin": env.now,
               "end": None}
        TRACE.append(rec)
        yield from original(self, env, machine, predecessor_allocations)
        rec["end"] = env.now

    Task.do_work = traced


def run(tmp, planning):
    config = write_inputs(tmp)
    sim = Simulation(env=simpy.Environment(), config=config,
                     instrument=Telescope, planning_model=planning,
                     planning_algorithm="fixed",
                     scheduling=DynamicSchedulingFromPlan(), delay=None,
                     timestamp=0)
    sim.start(runtime=RUNTIME)


def check(planned, crashed=False):
    problems = []
    expected = sum(len(w["nodes"]) for w in WORKFLOWS.values())
    if len(planned) != expected and not crashed:
        problems.append("only %d of %d workflow tasks were planned"
                        % (len(planned), expected))
    runs = {}
    for rec in TRACE:
        runs.setdefault(rec["task"], []).append(rec)
    # 1. executed once, on the planned machine
    for tid in sorted(planned):
        recs = runs.get(tid, [])
        if not recs and crashed:
            continue
        if not recs:
            problems.append("%s (planned on %s) never executed within %d "
                            "steps" % (tid, planned[tid], RUNTIME))
            continue
        if len(recs) > 1:
            problems.append("%s executed %d times on %s" % (
                tid, len(recs), [r["machine"] for r in recs]))
        for rec in recs:
            if rec["machine"] != planned[tid]:
                problems.append(
                    "%s executed on %s at t=%s but its plan assigns it to %s"
                    % (tid, rec["machine"], rec["begin"], planned[tid]))
            if rec["end"] is None and not crashed:
                problems.append("%s did not finish within %d steps"
                                % (tid, RUNTIME))
    # 2. a task waits for a busy machine
    by_machine = {}
    for rec in TRACE:
        by_machine.setdefault(rec["machine"], []).append(rec)
    for machine, recs in sorted(by_machine.items()):
        recs.sort(key=lambda r: r["begin"])
        for prev, cur in zip(recs, recs[1:]):
            prev_end = RUNTIME if prev["end"] is None else prev["end"]
            if cur["begin"] < prev_end:
                problems.append(
                    "%s started on %s at t=%s while %s was using it until "
                    "t=%s (should have waited)" % (
                        cur["task"], machine, cur["begin"], prev["task"],
                        prev_end))
    return problems


def main():
    install_trace()
    tmp = tempfile.mkdtemp(prefix="c17_demo1_")
    cwd = os.getcwd()
    try:
        os.chdir(tmp)
        planning = FixedPlanning()
        try:
            run(tmp, planning)
            problems = check(planning.planned)
        except Exception as exc:  # a crash is not plan-following either
            problems = check(planning.planned, crashed=True)
            problems.append("simulation raised %s: %s"
                            % (type(exc).__name__, exc))
    finally:
        os.chdir(cwd)
        shutil.rmtree(tmp, ignore_errors=True)
    if os.environ.get("C17_DEMO_VERBOSE"):
        for rec in TRACE:
            print(rec)
    if problems:
        print("FAIL: " + "; ".join(problems[:4])
              + (" (+%d more)" % (len(problems) - 4) if len(problems) > 4
                 else ""))
        return 1
    print("PASS")
    return 0


if __name__ == "__main__":
    sys.exit(main())
