"""
demo2 - C12: the per-timestep table reports the true state, one row per step.

Scenario: two overlapping observations where the SECOND one listed ('b') is
nested inside the first ('a'): it starts later and finishes earlier, so for a
while the list of observations reads [RUNNING, FINISHED].  Run with both the
QueueProcessing and the BatchProcessing pairing.  At every timestep the row of
the monitor table is compared with the state of the actors captured at the
beginning of that timestep.

usage: python demo2.py <path-to-tree>
"""
import sys
import os
import json
import shutil
import tempfile
import logging

TREE = os.path.abspath(sys.argv[1]) if len(sys.argv) > 1 else os.getcwd()
sys.path.insert(0, TREE)
logging.disable(logging.CRITICAL)

import simpy  # noqa: E402
from topsim.core.simulation import Simulation  # noqa: E402
from topsim.core.instrument import RunStatus  # noqa: E402
from topsim.user.telescope import Telescope  # noqa: E402
from topsim.user.plan.batch_planning import BatchPlanning  # noqa: E402
from topsim.user.schedule.batch_allocation import BatchProcessing  # noqa: E402
from topsim.user.schedule.queue_allocation import QueueProcessing  # noqa: E402

COLUMNS = [
    'available_resources', 'ingest_resources', 'running_tasks',
    'finished_tasks', 'provisioned_observations', 'hot_buffer', 'cold_buffer',
    'stored', 'observations_waiting', 'observations_finished',
    'scheduler_observation_queue',
]


def write_config(tmpdir, observations, n_machines=10):
    """Write a workflow (diamond 0 -> 1,2 -> 3) and a simulation config."""
    workflow = {
        "header": {"time": False},
        "graph": {
            "directed": True, "multigraph": False, "graph": {},
            "nodes": [{"id": 0, "comp": 600}, {"id": 1, "comp": 800},
                      {"id": 2, "comp": 500}, {"id": 3, "comp": 700}],
            "edges": [
                {"source": 0, "target": 1, "transfer_data": 10},
                {"source": 0, "target": 2, "transfer_data": 20},
                {"source": 1, "target": 3, "transfer_data": 10},
                {"source": 2, "target": 3, "transfer_data": 10},
            ],
        },
    }
    with open(os.path.join(tmpdir, 'workflow.json'), 'w') as fp:
        json.dump(workflow, fp)
    pipelines = {
        o['name']: {"workflow": "workflow.json", "ingest_demand": o['ingest']}
        for o in observations
    }
    cfg = {
        "instrument": {"telescope": {
            "total_arrays": 36, "max_ingest_resources": 5,
            "pipelines": pipelines,
            "observations": [
                {"name": o['name'], "start": o['start'],
                 "duration": o['duration'], "instrument_demand": o['demand'],
                 "data_product_rate": o['rate']} for o in observations],
        }},
        "cluster": {"header": {}, "system": {
            "resources": {
                f"m{i}": {"flops": 100, "compute_bandwidth": 10}
                for i in range(n_machines)},
            "system_bandwidth": 1.0}},
        "buffer": {"hot": {"capacity": 1000, "max_ingest_rate": 50},
                   "cold": {"capacity": 1000, "max_data_rate": 20}},
        "timestep": "seconds",
    }
    path = os.path.join(tmpdir, 'config.json')
    with open(path, 'w') as fp:
        json.dump(cfg, fp)
    return path


def true_state(sim):
    """State of the actors read from their primary data structures."""
    res = sim.cluster._clusters['default']['resources']
    tasks = sim.cluster._clusters['default']['tasks']
    obs = sim.instrument.observations
    return {
        'available_resources':
            len(sim.cluster.machines) - len(res['occupied'])
            - len(res['ingest']),
        'ingest_resources': len(res['ingest']),
        'running_tasks': len(tasks['running']),
        'finished_tasks': sum(1 for v in tasks['finished'].values() if v),
        'provisioned_observations': len(res['idle']),
        'hot_buffer': sim.buffer.hot[0].current_capacity,
        'cold_buffer': sim.buffer.cold[0].current_capacity,
        'stored': len(sim.buffer.hot[0].observations['stored'])
            + len(sim.buffer.cold[0].observations['stored']),
        'observations_waiting':
            sum(1 for o in obs if o.status == RunStatus.WAITING),
        'observations_finished':
            sum(1 for o in obs if o.status == RunStatus.FINISHED),
        'scheduler_observation_queue': len(sim.scheduler.observation_queue),
    }


def run_and_check(label, config, scheduling, horizon):
    """
    Run the simulation one timestep at a time (start(runtime=1) followed by
    resume()); the pause before timestep t exposes the state at the beginning
    of timestep t, which row t of the table must report.
    Returns a list of problems (empty if all is well).
    """
    sim = Simulation(
        env=simpy.Environment(), config=config, instrument=Telescope,
        planning_model=BatchPlanning('batch'), planning_algorithm='batch',
        scheduling=scheduling, delay=None, timestamp=0)
    expected = [true_state(sim)]          # beginning of timestep 0
    sim.start(runtime=1)
    expected.append(true_state(sim))      # beginning of timestep 1
    for t in range(2, horizon):
        sim.resume(until=t)
        expected.append(true_state(sim))  # beginning of timestep t
    sim.resume(until=horizon)
    df = sim.monitor.df
    problems = []
    if len(df) != horizon:
        problems.append(
            f"[{label}] table has {len(df)} rows, required one row for each "
            f"of the {horizon} simulated timesteps")
        return problems, sim
    if list(df.index) != list(range(horizon)):
        problems.append(f"[{label}] row index is not 0..{horizon - 1}")
        return problems, sim
    for t in range(horizon):
        for col in COLUMNS:
            got = df[col][t]
            want = expected[t][col]
            if got != want:
                problems.append(
                    f"[{label}] row {t} column '{col}' reports {got}, "
                    f"true state at the beginning of timestep {t} is {want}")
                break
        if problems:
            break
    return problems, sim


def main():
    tmpdir = tempfile.mkdtemp(prefix='c12_demo2_')
    try:
        observations = [
            dict(name='a', start=0, duration=20, demand=18, rate=5, ingest=2),
            dict(name='b', start=5, duration=5, demand=18, rate=5, ingest=2),
        ]
        config = write_config(tmpdir, observations)
        problems = []
        for label, sched in (
                ('queue', QueueProcessing()),
                ('batch', BatchProcessing(max_resource_partitions=2,
                                          min_resources_per_workflow=1))):
            p, sim = run_and_check(label, config, sched, horizon=70)
            problems.extend(p)
            if not p:
                # sanity: the scenario really is the one described above
                a, b = sim.instrument.observations
                nested = (a.ast == 0 and b.ast == 5
                          and b.ast + b.duration < a.ast + a.duration)
                if not nested or not sim.is_finished():
                    problems.append(
                        f"[{label}] scenario did not run 'b' nested inside "
                        f"'a' / did not finish")
    finally:
        shutil.rmtree(tmpdir, ignore_errors=True)
    if problems:
        print("FAIL: " + problems[0])
        return 1
    print("PASS")
    return 0


if __name__ == '__main__':
    sys.exit(main())
