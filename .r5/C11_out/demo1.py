"""
demo1 - C11 (pausing and resuming is transparent), event log.

usage: python demo1.py <path-to-tree>

Runs a small two-observation simulation once uninterrupted for T timesteps and
then again with a pause at every k in 1..T-1 (resumed in one segment, and in
two segments k -> k+1 -> T).  The event log, the per-timestep table and the
state the monitor sees must be exactly those of the uninterrupted run.  Also
checks that start() twice / resume() before start() are refused and change
nothing.

bug1 (Monitor.collate_events clears the instrument's event list instead of the
scheduler's after copying the scheduler events) only shows when the pause falls
exactly one timestep after a timestep in which the scheduler logged an event:
the pause-time collate_events() copies these events without clearing them and
the monitor process copies them a second time when the run is resumed.
"""
import sys
import os

if len(sys.argv) != 2:
    print("usage: demo1.py <path-to-tree>")
    sys.exit(2)
sys.path.insert(0, os.path.abspath(sys.argv[1]))

import json
import logging
import shutil
import tempfile
import warnings

warnings.filterwarnings('ignore')
logging.disable(logging.CRITICAL)

import simpy
from topsim.core.simulation import Simulation
from topsim.user.telescope import Telescope
from topsim.user.plan.batch_planning import BatchPlanning
from topsim.user.schedule.batch_allocation import BatchProcessing

T = 40


def write_config(directory):
    workflow = {"header": {}, "graph": {
        "directed": True, "multigraph": False, "graph": {},
        "nodes": [{"comp": 40, "id": 0}, {"comp": 60, "id": 1},
                  {"comp": 20, "id": 2}, {"comp": 30, "id": 3}],
        "edges": [{"transfer_data": 4, "source": 0, "target": 1},
                  {"transfer_data": 6, "source": 0, "target": 2},
                  {"transfer_data": 2, "source": 1, "target": 3},
                  {"transfer_data": 2, "source": 2, "target": 3}]}}
    with open(os.path.join(directory, 'wf.json'), 'w') as fp:
        json.dump(workflow, fp)
    config = {
        "instrument": {"telescope": {
            "total_arrays": 36, "max_ingest_resources": 2,
            "pipelines": {
                "a": {"workflow": "wf.json", "ingest_demand": 2},
                "b": {"workflow": "wf.json", "ingest_demand": 1}},
            "observations": [
                {"name": "a", "start": 0, "duration": 5,
                 "instrument_demand": 18, "data_product_rate": 4},
                {"name": "b", "start": 8, "duration": 4,
                 "instrument_demand": 18, "data_product_rate": 4}]}},
        "cluster": {"header": {}, "system": {
            "resources": {"m%d" % i: {"flops": 10, "compute_bandwidth": 2}
                          for i in range(6)},
            "system_bandwidth": 1.0}},
        "buffer": {"hot": {"capacity": 400, "max_ingest_rate": 10},
                   "cold": {"capacity": 400, "max_data_rate": 5}},
        "timestep": "seconds"}
    path = os.path.join(directory, 'cfg.json')
    with open(path, 'w') as fp:
        json.dump(config, fp)
    return path


def make_sim(cfg):
    return Simulation(
        env=simpy.Environment(), config=cfg, instrument=Telescope,
        planning_model=BatchPlanning('batch'), planning_algorithm='batch',
        scheduling=BatchProcessing(min_resources_per_workflow=2),
        delay=None, timestamp=0)


def timestep_table(sim):
    df = sim.monitor.df
    # '<obs>-algtime' columns are wall-clock measurements
    return df[[c for c in df.columns if not c.endswith('algtime')]]


def event_rows(sim):
    ev = sim.monitor.events
    if len(ev) == 0:
        return []
    return [tuple(r) for r in
            ev[['time', 'actor', 'observation', 'event', 'resource']
               ].itertuples(index=False, name=None)]


def main(cfg):
    # ---- reference: one uninterrupted run ------------------------------
    ref = make_sim(cfg)
    ref.start(runtime=T)          # start() collates the events itself
    ref_table = timestep_table(ref)
    ref_events = event_rows(ref)
    ref_index = list(ref.monitor.events.index)
    if len(ref_table) != T or len(ref_events) < 10:
        return "demo set-up broken: %d rows, %d events" % (
            len(ref_table), len(ref_events))
    sched_times = sorted({e[0] for e in ref_events if e[1] == 'scheduler'})
    if not [t for t in sched_times if t + 1 < T]:
        return "demo set-up broken: no scheduler events"

    # ---- refusals change nothing -------------------------------------
    sim = make_sim(cfg)
    try:
        sim.resume(until=3)
        return "resume() before start() was not refused"
    except RuntimeError:
        pass
    if sim.env.now != 0 or sim.running or len(sim.monitor.df) != 0:
        return "refused resume() changed the simulation"
    sim.start(runtime=7)
    try:
        sim.start(runtime=9)
        return "second start() was not refused"
    except RuntimeError:
        pass
    if sim.env.now != 7 or len(sim.monitor.df) != 7:
        return "refused start() changed the simulation"
    sim.resume(until=T)
    sim.monitor.collate_events()
    if not timestep_table(sim).equals(ref_table):
        return ("per-timestep table after a refused second start() differs "
                "from the uninterrupted run")
    if event_rows(sim) != ref_events:
        return ("event log after a refused second start() differs from the "
                "uninterrupted run")

    # ---- every pause point ------------------------------------------
    for k in range(1, T):
        splits = [[T]]
        if k + 1 < T:
            splits.append([k + 1, T])
        if k + 5 < T:
            splits.append([k + 2, k + 5, T])
        for split in splits:
            sim = make_sim(cfg)
            sim.start(runtime=k)
            for until in split:
                sim.resume(until=until)
            # resume() leaves the last timestep's events with the actors;
            # hand them to the monitor exactly once, as start() does.
            sim.monitor.collate_events()
            where = "pause at k=%d, resumed via %s" % (k, split)
            if sim.env.now != T:
                return "%s: clock is %s, required %s" % (where, sim.env.now, T)
            if not timestep_table(sim).equals(ref_table):
                return ("%s: per-timestep table differs from the "
                        "uninterrupted run" % where)
            got = event_rows(sim)
            if got != ref_events:
                extra = list(got)
                for e in ref_events:
                    if e in extra:
                        extra.remove(e)
                return ("%s: event log has %d rows, the uninterrupted run "
                        "has %d; surplus rows %s (required: identical logs)"
                        % (where, len(got), len(ref_events), extra[:4]))
            if list(sim.monitor.events.index) != ref_index:
                return "%s: event log index differs" % where
    return None


if __name__ == '__main__':
    tmp = tempfile.mkdtemp(prefix='c11_demo1_')
    try:
        problem = main(write_config(tmp))
    finally:
        shutil.rmtree(tmp, ignore_errors=True)
    if problem:
        print("FAIL: " + problem)
        sys.exit(1)
    print("PASS")
    sys.exit(0)
