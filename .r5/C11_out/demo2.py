"""
demo2 - C11 (pausing and resuming is transparent), task table.

usage: python demo2.py <path-to-tree>

Runs a small two-observation simulation once uninterrupted for T timesteps and
then again with a pause at every k in 1..T-1 (resumed in one, two or three
segments).  The task table produced after the resumed run
(Simulation._generate_final_task_data(), the second value start() returns)
and the per-timestep table must be exactly those of the uninterrupted run;
the task table start(runtime=k) hands back at the pause must be the one an
uninterrupted run of k timesteps returns.

bug2 (Cluster.finished_task_time_data keeps the row it built for a task and
never rebuilds it) only shows when a task table is generated while an ingest
pipeline is running, i.e. when the pause falls inside an observation: ingest
tasks are entered in the cluster's 'finished' dictionary (with value False)
as soon as they are allocated, so the pause-time table caches their rows with
aft = -1 and every later table repeats that stale value.
"""
import sys
import os

if len(sys.argv) != 2:
    print("usage: demo2.py <path-to-tree>")
    sys.exit(2)
sys.path.insert(0, os.path.abspath(sys.argv[1]))

import json
import logging
import shutil
import tempfile
import warnings

warnings.filterwarnings('ignore')
logging.disable(logging.CRITICAL)

import simpy
from topsim.core.simulation import Simulation
from topsim.user.telescope import Telescope
from topsim.user.plan.batch_planning import BatchPlanning
from topsim.user.schedule.batch_allocation import BatchProcessing

T = 40


def write_config(directory):
    workflow = {"header": {}, "graph": {
        "directed": True, "multigraph": False, "graph": {},
        "nodes": [{"comp": 40, "id": 0}, {"comp": 60, "id": 1},
                  {"comp": 20, "id": 2}, {"comp": 30, "id": 3}],
        "edges": [{"transfer_data": 4, "source": 0, "target": 1},
                  {"transfer_data": 6, "source": 0, "target": 2},
                  {"transfer_data": 2, "source": 1, "target": 3},
                  {"transfer_data": 2, "source": 2, "target": 3}]}}
    with open(os.path.join(directory, 'wf.json'), 'w') as fp:
        json.dump(workflow, fp)
    config = {
        "instrument": {"telescope": {
            "total_arrays": 36, "max_ingest_resources": 2,
            "pipelines": {
                "a": {"workflow": "wf.json", "ingest_demand": 2},
                "b": {"workflow": "wf.json", "ingest_demand": 1}},
            "observations": [
                {"name": "a", "start": 0, "duration": 5,
                 "instrument_demand": 18, "data_product_rate": 4},
                {"name": "b", "start": 8, "duration": 4,
                 "instrument_demand": 18, "data_product_rate": 4}]}},
        "cluster": {"header": {}, "system": {
            "resources": {"m%d" % i: {"flops": 10, "compute_bandwidth": 2}
                          for i in range(6)},
            "system_bandwidth": 1.0}},
        "buffer": {"hot": {"capacity": 400, "max_ingest_rate": 10},
                   "cold": {"capacity": 400, "max_data_rate": 5}},
        "timestep": "seconds"}
    path = os.path.join(directory, 'cfg.json')
    with open(path, 'w') as fp:
        json.dump(config, fp)
    return path


def make_sim(cfg):
    return Simulation(
        env=simpy.Environment(), config=cfg, instrument=Telescope,
        planning_model=BatchPlanning('batch'), planning_algorithm='batch',
        scheduling=BatchProcessing(min_resources_per_workflow=2),
        delay=None, timestamp=0)


def timestep_table(sim):
    df = sim.monitor.df
    # '<obs>-algtime' columns are wall-clock measurements
    return df[[c for c in df.columns if not c.endswith('algtime')]]


def describe_difference(got, want):
    if list(got.index) != list(want.index):
        return "rows %s, required %s" % (list(got.index), list(want.index))
    if list(got.columns) != list(want.columns):
        return "columns %s, required %s" % (
            list(got.columns), list(want.columns))
    for col in want.columns:
        for row in want.index:
            g, w = got.loc[row, col], want.loc[row, col]
            if not (g == w):
                return "%s[%s] = %r, required %r" % (row, col, g, w)
    return "dtypes %s, required %s" % (
        got.dtypes.to_dict(), want.dtypes.to_dict())


def main(cfg):
    # ---- reference: uninterrupted runs of every length ---------------
    ref_tasks_at = {}
    ref_table = None
    for length in range(1, T + 1):
        ref = make_sim(cfg)
        table, tasks = ref.start(runtime=length)
        ref_tasks_at[length] = tasks
        if length == T:
            ref_table = timestep_table(ref)
    ref_tasks = ref_tasks_at[T]
    if len(ref_table) != T or len(ref_tasks) < 8 or \
            not any('ingest' in str(i) for i in ref_tasks.index):
        return "demo set-up broken: %d rows, %d tasks" % (
            len(ref_table), len(ref_tasks))

    # ---- every pause point ------------------------------------------
    for k in range(1, T):
        splits = [[T]]
        if k + 1 < T:
            splits.append([k + 1, T])
        if k + 5 < T:
            splits.append([k + 2, k + 5, T])
        for split in splits:
            sim = make_sim(cfg)
            _, paused_tasks = sim.start(runtime=k)
            where = "pause at k=%d" % k
            if not paused_tasks.equals(ref_tasks_at[k]):
                return ("%s: task table returned at the pause differs from "
                        "an uninterrupted run of %d steps: %s" % (
                            where, k, describe_difference(
                                paused_tasks, ref_tasks_at[k])))
            for until in split:
                sim.resume(until=until)
                where = "pause at k=%d, resumed via %s up to %d" % (
                    k, split, until)
                tasks = sim._generate_final_task_data()
                if not tasks.equals(ref_tasks_at[until]):
                    return ("%s: task table differs from the uninterrupted "
                            "run of %d steps: %s" % (
                                where, until, describe_difference(
                                    tasks, ref_tasks_at[until])))
                direct = sim.cluster.finished_task_time_data().T
                if list(direct.index) != list(tasks.index):
                    return "%s: cluster table and final table disagree" % where
            if sim.env.now != T:
                return "%s: clock is %s, required %s" % (where, sim.env.now, T)
            if not timestep_table(sim).equals(ref_table):
                return ("%s: per-timestep table differs from the "
                        "uninterrupted run" % where)
    return None


if __name__ == '__main__':
    tmp = tempfile.mkdtemp(prefix='c11_demo2_')
    try:
        problem = main(write_config(tmp))
    finally:
        shutil.rmtree(tmp, ignore_errors=True)
    if problem:
        print("FAIL: " + problem)
        sys.exit(1)
    print("PASS")
    sys.exit(0)
