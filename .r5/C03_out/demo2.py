"""
Demo for bug2 (C03): data-transfer wait after a DELAYED predecessor.

Usage: /venv/bin/python demo2.py <path-to-topsim-tree>

A three-task chain 0 -> 1 -> 2 is run through a complete Simulation
(BatchPlanning + BatchProcessing) on a two-machine heterogeneous cluster, so
that every task runs on a different machine than its predecessor.  A
DelayModel that fires for every task (prob 0.3 with the fixed seed) makes
each predecessor run longer than its nominal duration.

Required (property C03): every task's recorded start equals
    max(allocation time, max over cross-machine preds (pred.aft + volume/bw))
and is never earlier than any predecessor's finish.
"""
import sys
import os
import json
import shutil
import tempfile
import logging

TREE = os.path.abspath(sys.argv[1])
sys.path.insert(0, TREE)
logging.disable(logging.CRITICAL)

import simpy  # noqa: E402
from topsim.core.simulation import Simulation  # noqa: E402
from topsim.core.delay import DelayModel  # noqa: E402
from topsim.user.telescope import Telescope  # noqa: E402
from topsim.user.plan.batch_planning import BatchPlanning  # noqa: E402
from topsim.user.schedule.batch_allocation import BatchProcessing  # noqa: E402


def make_workflow(nodes, edges):
    return {"header": {"time": False}, "graph": {
        "directed": True, "multigraph": False, "graph": {},
        "nodes": [{"id": i, "comp": c, "task_data": 0} for i, c in nodes],
        "edges": [{"source": s, "target": t, "transfer_data": v}
                  for s, t, v in edges]}}


def make_config(tmp, machines, observations, workflows):
    pipelines = {}
    for name, wf in workflows.items():
        with open(os.path.join(tmp, "wf_%s.json" % name), "w") as f:
            json.dump(wf, f)
        pipelines[name] = {"workflow": "wf_%s.json" % name,
                           "ingest_demand": 1}
    cfg = {
        "instrument": {"telescope": {
            "total_arrays": 36, "max_ingest_resources": 1,
            "pipelines": pipelines, "observations": observations}},
        "cluster": {"header": {}, "system": {
            "resources": {m: {"flops": f, "compute_bandwidth": b}
                          for m, f, b in machines},
            "system_bandwidth": 1.0}},
        "buffer": {"hot": {"capacity": 1000, "max_ingest_rate": 10},
                   "cold": {"capacity": 1000, "max_data_rate": 10}},
        "timestep": "seconds"}
    path = os.path.join(tmp, "config.json")
    with open(path, "w") as f:
        json.dump(cfg, f)
    return path


def run(cfgpath, scheduling, delay_model, runtime):
    env = simpy.Environment()
    sim = Simulation(env=env, config=cfgpath, instrument=Telescope,
                     planning_model=BatchPlanning('batch', delay_model),
                     planning_algorithm='batch', scheduling=scheduling,
                     delay=None, timestamp=0)
    log = {}
    orig = sim.cluster.allocate_task_to_cluster

    def recording(task, machine, predecessor_allocations=None,
                  observation=None, ingest=False, c='default'):
        if not ingest:
            log[task.id] = (task, machine, env.now)
        return orig(task, machine, predecessor_allocations, observation,
                    ingest, c)

    sim.cluster.allocate_task_to_cluster = recording
    sim.start(runtime=runtime)
    return sim, log


def check(log):
    """Return list of violations of property C03 in a finished run."""
    errs = []
    for tid, (t, m, alloc) in sorted(log.items()):
        arrivals = []
        for p in t.pred:
            if p not in log:
                errs.append("%s started although predecessor %s was never "
                            "allocated" % (tid, p))
                continue
            pt, pm, _ = log[p]
            if pt.aft < 0 or t.ast < pt.aft - 1e-9:
                errs.append("%s started at %s, required >= finish %s of "
                            "predecessor %s" % (tid, t.ast, pt.aft, p))
            arrivals.append(
                pt.aft + (t.io[p] / m.bandwidth if pm != m else 0))
        required = max([alloc] + arrivals)
        if abs(t.ast - required) > 1e-9:
            errs.append("%s recorded start %s, required %s (= max(alloc %s, "
                        "arrivals %s))" % (tid, t.ast, required, alloc,
                                           arrivals))
    return errs


def main():
    tmp = tempfile.mkdtemp(prefix="c03_demo2_")
    try:
        wf = make_workflow([(0, 400), (1, 300), (2, 200)],
                           [(0, 1, 12), (1, 2, 20)])
        cfg = make_config(
            tmp, [("m0", 10, 3), ("m1", 10, 4)],
            [{"name": "obsA", "start": 0, "duration": 5,
              "instrument_demand": 36, "data_product_rate": 2}],
            {"obsA": wf})
        delay = DelayModel(0.3, "normal", DelayModel.DelayDegree.LOW)
        sim, log = run(cfg, BatchProcessing(min_resources_per_workflow=1),
                       delay, runtime=400)
    finally:
        shutil.rmtree(tmp, ignore_errors=True)

    if len(log) != 3 or any(t.aft < 0 for t, _, _ in log.values()):
        print("FAIL: scenario did not complete: %s" % sorted(log))
        return 1
    errs = check(log)
    # Scenario sanity: predecessors really were delayed and really ran on a
    # different machine than their successor (otherwise the run is vacuous).
    tasks = [log[k] for k in sorted(log)]
    delayed = [t.aft > t.ast + t.duration for t, _, _ in tasks[:2]]
    remote = [tasks[i][1] != tasks[i + 1][1] for i in range(2)]
    if not errs and not (all(delayed) and all(remote)):
        errs.append("scenario precondition lost: delayed=%s remote=%s"
                    % (delayed, remote))
    if errs:
        print("FAIL: " + "; ".join(errs))
        return 1
    print("PASS")
    return 0


if __name__ == '__main__':
    sys.exit(main())
