"""
demo2 - C16 (timestep units rescale every time-dependent quantity consistently)

Scenario: a configuration whose per-second quantities are written as JSON
*integers* (data_product_rate 8 rather than 8.0, integer buffer rates, integer
machine speeds) - every shipped configuration happens to use floating point
data product rates.  Three observations, heterogeneous machines.

For every unit (seconds, minutes, hours, custom 5, custom 60, custom 7200) the
same physical scenario is written down (all starts/durations are whole
multiples of every unit) and we require

  * config level : start/duration divided, observation rate, hot and cold
                   rate limit, machine speed/bandwidth and system bandwidth
                   multiplied by the unit's factor, capacities/demands left
                   alone;
  * behaviour    : streaming the observation into the hot buffer
                   (Buffer.ingest_data_stream) is accepted by the ingest
                   rate-limit comparison in every unit and produces the same
                   data volume, and a task's runtime in seconds is the same.

usage: python demo2.py <path-to-tree>
"""
import json
import os
import shutil
import sys
import tempfile

TREE = os.path.abspath(sys.argv[1]) if len(sys.argv) > 1 else os.getcwd()
sys.path.insert(0, TREE)

import simpy  # noqa: E402

from topsim.core.config import Config  # noqa: E402
from topsim.core.buffer import Buffer  # noqa: E402
from topsim.core.cluster import Cluster  # noqa: E402
from topsim.core.instrument import RunStatus  # noqa: E402
from topsim.core.task import Task  # noqa: E402

UNITS = [None, 'seconds', 'minutes', 'hours', 5, 60, 7200]
FACTOR = {None: 1, 'seconds': 1, 'minutes': 60, 'hours': 3600, 5: 5, 60: 60,
          7200: 7200}

# per-second description of the scenario
OBSERVATIONS = [
    {"name": "emu", "start": 0, "duration": 14400, "instrument_demand": 36,
     "data_product_rate": 8},
    {"name": "dingo", "start": 21600, "duration": 7200,
     "instrument_demand": 18, "data_product_rate": 5},
    {"name": "vast", "start": 36000, "duration": 28800,
     "instrument_demand": 18, "data_product_rate": 3},
]
HOT = {"capacity": 10 ** 9, "max_ingest_rate": 8}     # == emu's rate
COLD = {"capacity": 10 ** 9, "max_data_rate": 4}
MACHINES = {
    "cat0_m0": {"flops": 84, "compute_bandwidth": 10},
    "cat1_m0": {"flops": 120, "compute_bandwidth": 4},
}
SYSTEM_BANDWIDTH = 2


def write_config(directory, unit):
    cfg = {
        "instrument": {"telescope": {
            "total_arrays": 36, "max_ingest_resources": 1,
            "pipelines": {
                "emu": {"workflow": "wf.json", "ingest_demand": 1},
                "dingo": {"workflow": "wf.json", "ingest_demand": 1},
                "vast": {"workflow": "wf.json", "ingest_demand": 1}},
            "observations": OBSERVATIONS}},
        "cluster": {"header": {"time": "false", "gen_specs": {}},
                    "system": {"resources": MACHINES,
                               "system_bandwidth": SYSTEM_BANDWIDTH}},
        "buffer": {"hot": HOT, "cold": COLD},
        "planning": "heft", "scheduling": "fifo",
    }
    if unit is not None:
        cfg["timestep"] = unit
    path = os.path.join(directory, f"cfg_{unit}.json")
    with open(path, "w") as fp:
        json.dump(cfg, fp)
    return path


def check_unit(directory, unit, problems):
    m = FACTOR[unit]
    tag = f"timestep={unit!r}"
    config = Config(write_config(directory, unit))

    # ---- config level ---------------------------------------------------
    hot, cold = config.parse_buffer_config()
    hot, cold = hot[0], cold[0]
    if hot.max_ingest_data_rate != HOT["max_ingest_rate"] * m:
        problems.append(
            f"{tag}: hot max_ingest_data_rate is {hot.max_ingest_data_rate}"
            f" but {HOT['max_ingest_rate']}/s * {m} = "
            f"{HOT['max_ingest_rate'] * m} is required")
    if cold.max_data_rate != COLD["max_data_rate"] * m:
        problems.append(
            f"{tag}: cold max_data_rate is {cold.max_data_rate} but "
            f"{COLD['max_data_rate'] * m} is required")
    if (hot.total_capacity, cold.total_capacity) != (HOT["capacity"],
                                                     COLD["capacity"]):
        problems.append(f"{tag}: buffer capacities were rescaled")

    arrays, _, observations, max_ingest = config.parse_instrument_config(
        "telescope")
    if (arrays, max_ingest) != (36, 1):
        problems.append(f"{tag}: instrument counts were rescaled")
    for raw, obs in zip(OBSERVATIONS, observations):
        want = (raw["start"] / m, raw["duration"] / m,
                raw["data_product_rate"] * m, raw["instrument_demand"])
        got = (obs.est, obs.duration, obs.ingest_data_rate, obs.demand)
        if got != want:
            problems.append(
                f"{tag}: observation {raw['name']} (start, duration, rate, "
                f"demand) is {got} but {want} is required")

    machines, system_bandwidth = config.parse_cluster_config()
    if system_bandwidth != SYSTEM_BANDWIDTH * m:
        problems.append(
            f"{tag}: system bandwidth is {system_bandwidth} but "
            f"{SYSTEM_BANDWIDTH * m} is required")
    for mach in machines:
        want = (MACHINES[mach.id]["flops"] * m,
                MACHINES[mach.id]["compute_bandwidth"] * m)
        if (mach.cpu, mach.bandwidth) != want:
            problems.append(
                f"{tag}: machine {mach.id} (cpu, bandwidth) is "
                f"{(mach.cpu, mach.bandwidth)} but {want} is required")

    # ---- behaviour ---------------------------------------------------------
    env = simpy.Environment()
    cluster = Cluster(env, config)
    for idx, raw in enumerate(OBSERVATIONS):
        env = simpy.Environment()
        buffer = Buffer(env, cluster, None, config)
        obs = config.parse_instrument_config("telescope")[2][idx]
        obs.status = RunStatus.RUNNING
        obs.ast = 0
        env.process(buffer.ingest_data_stream(obs))
        volume_required = raw["data_product_rate"] * raw["duration"]
        try:
            env.run(until=obs.duration + 2)
        except ValueError as exc:
            problems.append(
                f"{tag}: ingest of {raw['name']} at "
                f"{raw['data_product_rate']}/s into a hot buffer limited to "
                f"{HOT['max_ingest_rate']}/s was refused ({exc}) although "
                f"the same ingest is accepted with timestep='seconds'")
            continue
        if obs.total_data_size != volume_required:
            problems.append(
                f"{tag}: ingested volume of {raw['name']} is "
                f"{obs.total_data_size} but {raw['data_product_rate']}/s * "
                f"{raw['duration']}s = {volume_required} is required in "
                f"every unit")
        used = buffer.hot[0].total_capacity - buffer.hot[0].current_capacity
        if used != volume_required:
            problems.append(
                f"{tag}: hot buffer holds {used} after {raw['name']} but "
                f"{volume_required} is required in every unit")

    # task runtime in seconds on every machine
    flops, data = 84 * 120 * 7200, 10 * 4 * 7200
    for mach in cluster.machines:
        task = Task("t", 0, 0, None, [], flops=flops, task_data=data, io={})
        seconds = task.calculate_runtime(mach) * m
        raw = MACHINES[mach.id]
        want = max(flops // raw["flops"], data // raw["compute_bandwidth"])
        if seconds != want:
            problems.append(
                f"{tag}: task runtime on {mach.id} is {seconds}s but {want}s "
                f"is required in every unit")


def main():
    problems = []
    directory = tempfile.mkdtemp(prefix="c16_demo2_")
    try:
        for unit in UNITS:
            check_unit(directory, unit, problems)
    finally:
        shutil.rmtree(directory, ignore_errors=True)
    if problems:
        print("FAIL: " + " | ".join(problems[:4])
              + (f" | ... ({len(problems)} problems)"
                 if len(problems) > 4 else ""))
        return 1
    print("PASS")
    return 0


if __name__ == "__main__":
    sys.exit(main())
