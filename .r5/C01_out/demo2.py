"""
C01 demo 2 - a user-supplied scheduling algorithm that runs a provisioned
(batch-reserved) workflow on its reservation first and lets the overflow spill
onto machines of the shared 'available' pool.  While such a spilled task is
still running, the ingest pipeline of the next observation is provisioned.

Required: every machine executes at most one task (ingest or workflow) at any
instant.  The demo traces the lifetime of every Task.do_work() process per
machine and fails if two of them are alive on the same machine at once.

usage: python demo2.py <path-to-tree>
"""
import sys

TREE = sys.argv[1]
sys.path.insert(0, TREE)

import json
import logging
import os
import shutil
import tempfile

import simpy

logging.disable(logging.CRITICAL)

from topsim.core.simulation import Simulation
from topsim.core.task import Task, TaskStatus
from topsim.core.planner import WorkflowStatus
from topsim.algorithms.scheduling import Scheduling
from topsim.user.telescope import Telescope
from topsim.user.plan.batch_planning import BatchPlanning

N_MACHINES = 5
RESERVE = 2

OBSERVATIONS = [
    # name, start, duration, ingest machines, task FLOPs (independent tasks)
    ("first", 0, 3, 1, [200, 200, 200]),
    ("second", 8, 5, 2, [50]),
]


def write_config(directory):
    pipelines, observations = {}, []
    for name, start, duration, demand, comps in OBSERVATIONS:
        wf = f"{name}_workflow.json"
        graph = {
            "header": {},
            "graph": {
                "directed": True, "multigraph": False, "graph": {},
                "nodes": [{"id": i, "comp": c} for i, c in enumerate(comps)],
                "edges": [],
            },
        }
        with open(os.path.join(directory, wf), "w") as fp:
            json.dump(graph, fp)
        pipelines[name] = {"workflow": wf, "ingest_demand": demand}
        observations.append({
            "name": name, "start": start, "duration": duration,
            "instrument_demand": 1, "data_product_rate": 1,
        })
    config = {
        "instrument": {"telescope": {
            "total_arrays": 36, "max_ingest_resources": 2,
            "pipelines": pipelines, "observations": observations}},
        "cluster": {"header": {}, "system": {
            "resources": {
                f"m{i}": {"flops": 10, "compute_bandwidth": 10}
                for i in range(N_MACHINES)},
            "system_bandwidth": 1.0}},
        "buffer": {
            "hot": {"capacity": 1000, "max_ingest_rate": 100},
            "cold": {"capacity": 1000, "max_data_rate": 100}},
        "timestep": "seconds",
    }
    path = os.path.join(directory, "config.json")
    with open(path, "w") as fp:
        json.dump(config, fp)
    return path


class ReservedThenShared(Scheduling):
    """
    Reserve RESERVE machines for the workflow (SLURM-like provisioning through
    the public Cluster API); hand ready tasks to the reserved machines first
    and, when those are exhausted, to machines that are currently marked
    'available' (TopSim's documented free-for-all policy).
    """

    def __repr__(self):
        return "ReservedThenShared"

    def to_df(self):
        return None

    def run(self, cluster, clock, workflow_plan, existing_schedule, task_pool):
        wid = workflow_plan.id
        if workflow_plan.tasks and not cluster.is_observation_provisioned(wid):
            if len(cluster.get_available_resources()) >= RESERVE:
                cluster.provision_batch_resources(RESERVE, wid)
        allocations = dict(existing_schedule)
        free = [
            m for m in (cluster.get_idle_resources(wid)
                        + cluster.get_available_resources())
            if m not in allocations.values()
        ]
        for task in sorted(workflow_plan.tasks, key=lambda t: t.id):
            if not free:
                break
            if (task.task_status is TaskStatus.UNSCHEDULED
                    and task not in allocations
                    and all(cluster.is_task_finished(p) for p in
                            workflow_plan.graph.predecessors(task))):
                allocations[task] = free.pop(0)
        if not workflow_plan.tasks:
            workflow_plan.status = WorkflowStatus.FINISHED
            cluster.release_batch_resources(wid)
        return allocations, workflow_plan.status, task_pool


def trace_do_work(log):
    original = Task.do_work

    def traced(self, env, machine, predecessor_allocations=None):
        log.append(("start", env.now, machine.id, self.id))
        yield from original(self, env, machine, predecessor_allocations)
        log.append(("end", env.now, machine.id, self.id))

    Task.do_work = traced
    return original


def first_overlap(log):
    live = {}
    for kind, now, machine, task in log:
        if kind == "start":
            if live.get(machine):
                return now, machine, live[machine][0], task
            live.setdefault(machine, []).append(task)
        else:
            live[machine].remove(task)
    return None


def main():
    log = []
    original = trace_do_work(log)
    workdir = tempfile.mkdtemp(prefix="c01_demo2_")
    try:
        config = write_config(workdir)
        sim = Simulation(
            env=simpy.Environment(), config=config, instrument=Telescope,
            planning_model=BatchPlanning('batch'), planning_algorithm='batch',
            scheduling=ReservedThenShared(), delay=None, timestamp=0)
        sim.start(runtime=70)
    finally:
        Task.do_work = original
        shutil.rmtree(workdir, ignore_errors=True)

    started = {task for kind, _, _, task in log if kind == "start"}
    expected = sum(d + len(c) for _, _, _, d, c in OBSERVATIONS)
    if len(started) != expected:
        print(f"FAIL: scenario did not run to completion: {len(started)} tasks "
              f"started, {expected} required")
        return 1
    clash = first_overlap(log)
    if clash:
        now, machine, running, new = clash
        print(f"FAIL: at t={now} machine {machine} started {new} while it was "
              f"still executing {running}; required: at most one task per "
              f"machine at any instant")
        return 1
    print("PASS")
    return 0


if __name__ == "__main__":
    sys.exit(main())
