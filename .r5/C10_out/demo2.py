#!/venv/bin/python
"""
C10 (reproducibility) demonstration 2 - the interpreter's string-hash seed.

usage:  /venv/bin/python demo2.py <path-to-topsim-tree>

A small heterogeneous cluster (four machines of different speed) processes
TWO observations one after the other.  The same simulation is executed in
separate interpreter processes that differ only in PYTHONHASHSEED (and twice
inside one process) for the shipped Batch / Queue allocation algorithms and
for DynamicSchedulingFromPlan driven by a tiny planner of our own.

Required: per-timestep table (without the '*-algtime' wall-clock columns),
task table and event log are byte-identical in every one of these runs.

PASS -> exit 0,  "FAIL: ..." -> exit 1.
"""
import sys
import os

TREE = os.path.abspath(sys.argv[1])
sys.path.insert(0, TREE)

import json
import shutil
import hashlib
import logging
import tempfile
import subprocess

HASH_SEEDS = ['0', '1', '2', '3', '7', '11', '42', '1234']
SCENARIOS = ['batch', 'queue', 'dynamic']
RUNTIME = 150


# --------------------------------------------------------------------------
# configuration
# --------------------------------------------------------------------------
def write_config(directory):
    """Two observations, four machines of different speed, 9-task workflow"""
    nodes = [
        {"id": 0, "comp": 100},
        {"id": 1, "comp": 300}, {"id": 2, "comp": 225},
        {"id": 3, "comp": 175}, {"id": 4, "comp": 375},
        {"id": 5, "comp": 150},
        {"id": 6, "comp": 275}, {"id": 7, "comp": 200}, {"id": 8, "comp": 125},
    ]
    edges = [{"source": 0, "target": t, "transfer_data": 10 * t}
             for t in (1, 2, 3, 4)]
    edges += [{"source": s, "target": 5, "transfer_data": 5 * s}
              for s in (1, 2, 3, 4)]
    edges += [{"source": 5, "target": t, "transfer_data": 20}
              for t in (6, 7, 8)]
    workflow = {
        "header": {"time": False},
        "graph": {"directed": True, "multigraph": False, "graph": {},
                  "nodes": nodes, "edges": edges}
    }
    with open(os.path.join(directory, 'workflow.json'), 'w') as fp:
        json.dump(workflow, fp)

    machines = {
        "node_alpha": {"flops": 10, "compute_bandwidth": 10},
        "node_bravo": {"flops": 25, "compute_bandwidth": 10},
        "node_charlie": {"flops": 40, "compute_bandwidth": 10},
        "node_delta": {"flops": 60, "compute_bandwidth": 10},
    }
    config = {
        "instrument": {"telescope": {
            "total_arrays": 36,
            "max_ingest_resources": 1,
            "pipelines": {
                "first": {"workflow": "workflow.json", "ingest_demand": 1},
                "second": {"workflow": "workflow.json", "ingest_demand": 1},
            },
            "observations": [
                {"name": "first", "start": 0, "duration": 5,
                 "instrument_demand": 36, "data_product_rate": 2},
                {"name": "second", "start": 20, "duration": 5,
                 "instrument_demand": 36, "data_product_rate": 2},
            ]}},
        "cluster": {"header": {"time": "false", "gen_specs": {}},
                    "system": {"resources": machines,
                               "system_bandwidth": 1.0}},
        "buffer": {"hot": {"capacity": 100, "max_ingest_rate": 5},
                   "cold": {"capacity": 100, "max_data_rate": 5}},
        "timestep": "seconds",
    }
    path = os.path.join(directory, 'config.json')
    with open(path, 'w') as fp:
        json.dump(config, fp)
    return path


# --------------------------------------------------------------------------
# one simulation -> canonical text of the three outputs
# --------------------------------------------------------------------------
def make_planner_class():
    import copy
    import networkx as nx
    from topsim.core.task import Task
    from topsim.algorithms.planning import Planning
    from topsim.core.planner import WorkflowStatus, WorkflowPlan

    class LevelPlanning(Planning):
        """Round-robin static plan: machine and est/eft for every task"""

        def __str__(self):
            return 'LevelPlanning'

        def to_df(self):
            pass

        def generate_plan(self, clock, cluster, buffer, observation,
                          max_ingest):
            with open(observation.workflow) as fp:
                graph = nx.readwrite.node_link_graph(json.load(fp)['graph'])
            machines = cluster.machines
            free_at = {m.id: 0 for m in machines}
            finish = {}
            mapping = {}
            tasks = []
            order = list(nx.topological_sort(graph))
            for n, node in enumerate(order):
                machine = machines[n % len(machines)]
                preds = list(graph.predecessors(node))
                est = max([free_at[machine.id]] + [finish[p] for p in preds])
                comp = graph.nodes[node]['comp']
                eft = est + max(1, int(comp / machine.cpu))
                free_at[machine.id] = eft
                finish[node] = eft
                tid = self._create_observation_task_id(node, observation,
                                                       clock)
                pred_ids = [
                    self._create_observation_task_id(p, observation, clock)
                    for p in preds]
                io = {self._create_observation_task_id(p, observation, clock):
                      graph.edges[p, node]['transfer_data'] for p in preds}
                task = Task(tid, est, eft, machine.id, pred_ids, comp, 0, io,
                            copy.copy(self.delay_model), gid=node)
                mapping[node] = task
                tasks.append(task)
            tasks.sort(key=lambda t: t.est)
            return WorkflowPlan(
                observation.name, observation.duration, max(finish.values()),
                tasks, order, WorkflowStatus.SCHEDULED, max_ingest,
                nx.relabel_nodes(graph, mapping))

    return LevelPlanning


def build_models(scenario, delay):
    from topsim.user.plan.batch_planning import BatchPlanning
    from topsim.user.schedule.batch_allocation import BatchProcessing
    from topsim.user.schedule.queue_allocation import QueueProcessing
    from topsim.user.schedule.dynamic_plan import DynamicSchedulingFromPlan
    if scenario == 'batch':
        return (BatchPlanning('batch', delay), 'batch',
                BatchProcessing(min_resources_per_workflow=1))
    if scenario == 'queue':
        return BatchPlanning('batch', delay), 'batch', QueueProcessing()
    if scenario == 'dynamic':
        return (make_planner_class()('level', delay), 'level',
                DynamicSchedulingFromPlan())
    raise ValueError(scenario)


def run_once(config, scenario, delay_seed=None):
    import simpy
    from topsim.core.simulation import Simulation
    from topsim.core.delay import DelayModel
    from topsim.user.telescope import Telescope

    delay = None
    if delay_seed is not None:
        delay = DelayModel(0.5, 'normal', DelayModel.DelayDegree.MID,
                           seed=delay_seed)
    planning, name, scheduling = build_models(scenario, delay)
    sim = Simulation(env=simpy.Environment(), config=config,
                     instrument=Telescope, planning_model=planning,
                     planning_algorithm=name, scheduling=scheduling,
                     delay=delay, timestamp=0)
    stdout = sys.stdout
    sys.stdout = open(os.devnull, 'w')      # 'Added to hotbuffer' prints
    try:
        df, tasks = sim.start(runtime=RUNTIME)
    finally:
        sys.stdout.close()
        sys.stdout = stdout
    events = sim.monitor.events
    df = df[[c for c in df.columns if not str(c).endswith('-algtime')]]
    return {
        'timesteps': df.to_csv(),
        'tasks': tasks.to_csv(),
        'events': events.to_csv(),
        'n_tasks': int(len(tasks)),
    }


def child_main(config, out_path, delay_seed):
    logging.disable(logging.CRITICAL)
    result = {}
    for scenario in SCENARIOS:
        first = run_once(config, scenario, delay_seed)
        again = run_once(config, scenario, delay_seed)
        result[scenario] = {'first': first, 'again': again}
    with open(out_path, 'w') as fp:
        json.dump(result, fp)


# --------------------------------------------------------------------------
# driver
# --------------------------------------------------------------------------
def digest(text):
    return hashlib.sha1(text.encode()).hexdigest()[:10]


def spawn_all(config, workdir, jobs):
    """jobs: list of (key, hash_seed, delay_seed); children run concurrently"""
    procs = []
    for key, hash_seed, delay_seed in jobs:
        out = os.path.join(workdir, 'out_%s_%s.json' % (hash_seed, delay_seed))
        env = dict(os.environ)
        env['PYTHONHASHSEED'] = hash_seed
        proc = subprocess.Popen(
            [sys.executable, os.path.abspath(__file__), TREE, '--child',
             config, out, str(delay_seed)],
            env=env, stdout=subprocess.DEVNULL, stderr=subprocess.PIPE)
        procs.append((key, hash_seed, out, proc))
    results = {}
    for key, hash_seed, out, proc in procs:
        _, err = proc.communicate()
        if proc.returncode != 0:
            raise RuntimeError(
                'child with PYTHONHASHSEED=%s crashed:\n%s' % (
                    hash_seed, err.decode()[-2000:]))
        with open(out) as fp:
            results[key] = json.load(fp)
    return results


def compare(results, label_of, min_tasks):
    """results: {key: {scenario: {'first':..., 'again':...}}}"""
    problems = []
    keys = list(results)
    ref = results[keys[0]]
    for scenario in SCENARIOS:
        if ref[scenario]['first']['n_tasks'] < min_tasks:
            problems.append(
                '%s: scenario too weak, only %d finished tasks' % (
                    scenario, ref[scenario]['first']['n_tasks']))
        for table in ('timesteps', 'tasks', 'events'):
            for key in keys:
                this = results[key][scenario]
                if this['first'][table] != this['again'][table]:
                    problems.append(
                        '%s/%s: two runs inside one process (%s) differ: '
                        '%s vs %s' % (scenario, table, label_of(key),
                                      digest(this['first'][table]),
                                      digest(this['again'][table])))
                if this['first'][table] != ref[scenario]['first'][table]:
                    problems.append(
                        '%s/%s: %s gives %s but %s gives %s; required '
                        'identical' % (
                            scenario, table, label_of(key),
                            digest(this['first'][table]), label_of(keys[0]),
                            digest(ref[scenario]['first'][table])))
    return problems


def main():
    workdir = tempfile.mkdtemp(prefix='c10_demo2_')
    try:
        config = write_config(workdir)
        results = spawn_all(
            config, workdir, [(h, h, None) for h in HASH_SEEDS])
        problems = compare(results, lambda k: 'PYTHONHASHSEED=' + k, 20)
    finally:
        shutil.rmtree(workdir, ignore_errors=True)
    if problems:
        print('FAIL: %d differences between runs of the same configuration; '
              'first: %s' % (len(problems), problems[0]))
        return 1
    print('PASS')
    return 0


if __name__ == '__main__':
    if len(sys.argv) > 2 and sys.argv[2] == '--child':
        seed = None if sys.argv[5] == 'None' else int(sys.argv[5])
        child_main(sys.argv[3], sys.argv[4], seed)
        sys.exit(0)
    sys.exit(main())
