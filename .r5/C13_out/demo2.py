"""
demo2 - C13 event log: 'telescope finished' is logged exactly one observation
duration after 'telescope started', and the rest of the life cycle follows.

Scenario: observation 'b' is planned to start at t=2 while observation 'a'
(t=0..5) still occupies every array of the telescope, so 'b' can only start
late, at t=5 (actual start time != planned start time).

Usage: python demo2.py <path-to-tree>
"""
import sys
import os
import json
import shutil
import tempfile
import logging

tree = os.path.abspath(sys.argv[1])
sys.path.insert(0, tree)
logging.disable(logging.CRITICAL)

import simpy  # noqa: E402
from topsim.core.simulation import Simulation  # noqa: E402
from topsim.user.telescope import Telescope  # noqa: E402
from topsim.user.plan.batch_planning import BatchPlanning  # noqa: E402
from topsim.user.schedule.batch_allocation import BatchProcessing  # noqa: E402

TRANSITIONS = [
    ("telescope", "started"), ("telescope", "finished"),
    ("buffer", "added"), ("buffer", "removed"),
    ("queue", "added"), ("queue", "removed"),
    ("allocation", "started"), ("allocation", "stopped"),
]


def chain_workflow(n_tasks, comp):
    nodes = [{"id": i, "comp": comp} for i in range(n_tasks)]
    edges = [{"source": i, "target": i + 1, "transfer_data": 0}
             for i in range(n_tasks - 1)]
    return {"graph": {"directed": True, "multigraph": False, "graph": {},
                      "nodes": nodes, "edges": edges}}


def write_config(tmp, observations, workflows, n_machines=4):
    pipelines = {}
    for o in observations:
        wname = "wf_%s.json" % o["name"]
        with open(os.path.join(tmp, wname), "w") as f:
            json.dump(workflows[o["name"]], f)
        pipelines[o["name"]] = {"workflow": wname, "ingest_demand": 1}
    cfg = {
        "instrument": {"telescope": {
            "total_arrays": 36, "max_ingest_resources": 2,
            "pipelines": pipelines, "observations": observations}},
        "cluster": {"header": {}, "system": {
            "resources": {"m%d" % i: {"flops": 10, "compute_bandwidth": 10}
                          for i in range(n_machines)},
            "system_bandwidth": 1.0}},
        "buffer": {"hot": {"capacity": 1000, "max_ingest_rate": 10},
                   "cold": {"capacity": 1000, "max_data_rate": 10}},
        "timestep": "seconds"}
    path = os.path.join(tmp, "cfg.json")
    with open(path, "w") as f:
        json.dump(cfg, f)
    return path


def check_log(events, durations):
    """Return a list of violations of C13 found in the event log."""
    problems = []
    for name, duration in durations.items():
        t = {}
        for resource, event in TRANSITIONS:
            rows = events[(events["observation"] == name)
                          & (events["resource"] == resource)
                          & (events["event"] == event)]
            if len(rows) != 1:
                problems.append(
                    "%s: %d '%s %s' entries, exactly 1 required"
                    % (name, len(rows), resource, event))
            else:
                t[(resource, event)] = int(rows["time"].iloc[0])
        S, F = ("telescope", "started"), ("telescope", "finished")
        if S in t and F in t and t[F] - t[S] != duration:
            problems.append(
                "%s: 'finished' @%d is %d after 'started' @%d, required "
                "exactly the duration %d"
                % (name, t[F], t[F] - t[S], t[S], duration))
        order = [("telescope", "started"), ("queue", "added"),
                 ("allocation", "started"), ("allocation", "stopped"),
                 ("queue", "removed")]
        for x, y in zip(order, order[1:]):
            if x in t and y in t and t[x] > t[y]:
                problems.append(
                    "%s: '%s %s' @%d is after '%s %s' @%d"
                    % (name, x[0], x[1], t[x], y[0], y[1], t[y]))
        same = [(("buffer", "added"), ("telescope", "started")),
                (("buffer", "removed"), ("allocation", "stopped"))]
        for x, y in same:
            if x in t and y in t and t[x] != t[y]:
                problems.append(
                    "%s: '%s %s' @%d but '%s %s' @%d, required equal"
                    % (name, x[0], x[1], t[x], y[0], y[1], t[y]))
    return problems


def main():
    tmp = tempfile.mkdtemp(prefix="c13demo2_")
    try:
        observations = [
            {"name": "a", "start": 0, "duration": 5, "instrument_demand": 36,
             "data_product_rate": 4},
            {"name": "b", "start": 2, "duration": 6, "instrument_demand": 18,
             "data_product_rate": 4},
        ]
        durations = {o["name"]: o["duration"] for o in observations}
        workflows = {"a": chain_workflow(2, 20), "b": chain_workflow(2, 20)}
        cfg = write_config(tmp, observations, workflows)
        sim = Simulation(
            env=simpy.Environment(), config=cfg, instrument=Telescope,
            planning_model=BatchPlanning('batch'), planning_algorithm='batch',
            scheduling=BatchProcessing(max_resource_partitions=2,
                                       min_resources_per_workflow=1),
            delay=None, timestamp=0)
        # bounded run: everything is over by t=25 on a correct tree
        sim.start(runtime=60)
        events = sim.monitor.events
        if "-v" in sys.argv:
            print(events.to_string())
        # The scenario is only meaningful if b really started late
        started = events[(events["observation"] == "b")
                         & (events["resource"] == "telescope")
                         & (events["event"] == "started")]["time"]
        if len(started) != 1 or int(started.iloc[0]) <= 2:
            print("FAIL: scenario broken, b was not delayed: %s"
                  % list(started))
            return 1
        problems = check_log(events, durations)
    finally:
        shutil.rmtree(tmp, ignore_errors=True)
    if problems:
        print("FAIL: " + "; ".join(problems))
        return 1
    print("PASS")
    return 0


if __name__ == "__main__":
    sys.exit(main())
