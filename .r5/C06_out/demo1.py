"""
C06 demo 1: a workflow task runs for max(floor(flops/cpu),
floor(data/bandwidth)) steps (at least 1) on the machine it actually
occupies - also when the scheduler moved it at run time from the machine it
was planned on to a FASTER one (Task.update_allocation() followed by
Task.do_work() on the new machine).

Usage: python demo1.py <path-to-tree>
Prints PASS (exit 0) or FAIL: ... (exit 1).
"""
import json
import logging
import os
import shutil
import sys
import tempfile

sys.path.insert(0, sys.argv[1])
logging.disable(logging.CRITICAL)

import simpy  # noqa: E402

from topsim.core.machine import Machine  # noqa: E402
from topsim.core.task import Task  # noqa: E402


def required_runtime(flops, data, machine):
    return max(1, max(int(flops / machine.cpu), int(data / machine.bandwidth)))


def run_task(task, machine):
    env = simpy.Environment()
    env.process(task.do_work(env, machine, None))
    env.run()
    return task.aft - task.ast


def unit_level():
    problems = []
    slow = Machine('slow', cpu=5, memory=1, disk=1, bandwidth=10)
    fast = Machine('fast', cpu=10, memory=1, disk=1, bandwidth=10)
    faster = Machine('faster', cpu=20, memory=1, disk=1, bandwidth=10)

    def planned_on_slow():
        # 40 flops planned on 'slow': est 0, eft 8
        return Task('w_0_t', 0, 8, 'slow', [], flops=40, task_data=10, io={})

    # 1. runs where it was planned
    t = planned_on_slow()
    got = run_task(t, slow)
    if got != required_runtime(40, 10, slow):
        problems.append(f"unit: on planned machine finish-start={got}, "
                        f"required 8")

    # 2. run on another machine without the scheduler's re-allocation call
    t = planned_on_slow()
    got = run_task(t, fast)
    if got != required_runtime(40, 10, fast):
        problems.append(f"unit: on faster machine (no update_allocation) "
                        f"finish-start={got}, required 4")

    # 3. what Scheduler._process_current_schedule does when the algorithm
    #    picked a machine other than the planned one
    runs = []
    for machine in (slow, fast, faster):
        t = planned_on_slow()
        if machine.id != t.allocated_machine_id:
            t.update_allocation(machine)
        got = run_task(t, machine)
        runs.append(got)
        need = required_runtime(40, 10, machine)
        if got != need:
            problems.append(
                f"unit: task planned for 8 steps on 'slow', re-allocated to "
                f"'{machine.id}' (cpu {machine.cpu}): finish-start={got}, "
                f"required runtime {need}")
    if sorted(runs, reverse=True) != runs or len(set(runs)) != 3:
        problems.append(
            f"unit: same work on cpu 5/10/20 machines ran {runs} steps, "
            f"required [8, 4, 2]")

    # 4. moved to a slower machine than planned
    t = Task('w_0_u', 0, 4, 'fast', [], flops=40, task_data=10, io={})
    t.update_allocation(slow)
    got = run_task(t, slow)
    if got != 8:
        problems.append(f"unit: re-allocated to slower machine "
                        f"finish-start={got}, required 8")
    return problems


def write_config(tmp):
    wf = {"graph": {
        "directed": True, "multigraph": False, "graph": {},
        "nodes": [{"id": "A", "comp": 40, "task_data": 0},
                  {"id": "B", "comp": 60, "task_data": 20},
                  {"id": "C", "comp": 30, "task_data": 0}],
        "edges": [{"source": "A", "target": "C", "transfer_data": 0},
                  {"source": "B", "target": "C", "transfer_data": 0}]}}
    with open(os.path.join(tmp, "wf.json"), "w") as f:
        json.dump(wf, f)
    cfg = {
        "instrument": {"telescope": {
            "total_arrays": 36, "max_ingest_resources": 1,
            "pipelines": {"obs1": {"workflow": "wf.json", "ingest_demand": 1}},
            "observations": [
                {"name": "obs1", "start": 0, "duration": 3,
                 "instrument_demand": 36, "data_product_rate": 2}]}},
        "cluster": {"header": {}, "system": {
            "resources": {
                "m0": {"flops": 5, "compute_bandwidth": 10},
                "m1": {"flops": 10, "compute_bandwidth": 10},
                "m2": {"flops": 20, "compute_bandwidth": 10}},
            "system_bandwidth": 7}},
        "buffer": {"hot": {"capacity": 100, "max_ingest_rate": 5},
                   "cold": {"capacity": 100, "max_data_rate": 5}},
        "timestep": "seconds"}
    path = os.path.join(tmp, "cfg.json")
    with open(path, "w") as f:
        json.dump(cfg, f)
    return path, wf


def simulation_level(tmp):
    """
    Static plan that serialises the two root tasks A and B on the slow
    machine m0. The greedy scheduler starts A on m0 and, finding m0 occupied
    one step later, moves B to the first free machine - which is faster.
    """
    from topsim.core.simulation import Simulation
    from topsim.user.telescope import Telescope
    from topsim.user.plan.batch_planning import BatchPlanning
    from topsim.user.schedule.greedy import GreedySchedulingFromPlan

    placement = {'A': 'm0', 'B': 'm0', 'C': 'm2'}

    class SerialisingPlanning(BatchPlanning):
        def generate_plan(self, clock, cluster, buffer, observation,
                          max_ingest):
            plan = super().generate_plan(clock, cluster, buffer, observation,
                                         max_ingest)
            finish = {}
            machine_free = {}
            for task in plan.tasks:  # topological order
                machine = cluster.get_machine_from_id(placement[task.graph_id])
                start = max([finish[p] for p in task.pred]
                            + [machine_free.get(machine.id, 0)])
                length = max(int(task.flops / machine.cpu),
                             int(task.task_data / machine.bandwidth))
                task.est, task.eft = start, start + length
                task.duration = task.est_duration = length
                task.allocated_machine_id = machine.id
                finish[task.id] = machine_free[machine.id] = task.eft
            plan.eft = max(finish.values())
            return plan

    problems = []
    path, wf = write_config(tmp)
    demands = {n["id"]: (n["comp"], n["task_data"])
               for n in wf["graph"]["nodes"]}
    env = simpy.Environment()
    sim = Simulation(env=env, config=path, instrument=Telescope,
                     planning_model=SerialisingPlanning('batch'),
                     planning_algorithm='batch',
                     scheduling=GreedySchedulingFromPlan(),
                     delay=None, timestamp=0)
    sim.start(runtime=80)
    finished = [t for t, done in sim.cluster._tasks['finished'].items()
                if done]
    seen = {}
    for t in finished:
        if 'ingest' in t.id:
            if t.aft - t.ast != 3:
                problems.append(
                    f"sim: ingest task {t.id} ran {t.aft - t.ast}, "
                    f"observation duration is 3")
            continue
        gid = t.id.split('_')[-1]
        flops, data = demands[gid]
        machine = t.allocated_machine_id
        if not isinstance(machine, Machine):
            machine = sim.cluster.get_machine_from_id(machine)
        seen[gid] = machine.id
        need = required_runtime(flops, data, machine)
        got = t.aft - t.ast
        if got != need:
            problems.append(
                f"sim: task {t.id} planned on {placement[gid]} for "
                f"{t.est_duration} steps, ran on {machine.id} "
                f"(cpu {machine.cpu}): finish-start={got}, required runtime "
                f"{need}")
    if set(seen) != {"A", "B", "C"}:
        problems.append(f"sim: finished workflow tasks {sorted(seen)}, "
                        f"required A, B, C")
    elif seen['B'] == placement['B']:
        problems.append("sim: scenario broken, B was not re-allocated")
    return problems


def main():
    tmp = tempfile.mkdtemp(prefix="c06_demo1_")
    try:
        problems = unit_level()
        problems += simulation_level(tmp)
    finally:
        shutil.rmtree(tmp, ignore_errors=True)
    if problems:
        print("FAIL: " + " | ".join(problems))
        return 1
    print("PASS")
    return 0


if __name__ == '__main__':
    sys.exit(main())
