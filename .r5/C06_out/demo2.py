"""
C06 demo 2: an ingest task runs for exactly its observation's duration (in
timesteps) - also when that duration is not a whole number of timesteps,
e.g. a 150 s observation in a simulation whose timestep is one minute.
As a side check, workflow tasks in the same simulation (and tasks carrying a
delay model) run for exactly work/speed plus what the delay model adds.

Usage: python demo2.py <path-to-tree>
Prints PASS (exit 0) or FAIL: ... (exit 1).
"""
import json
import logging
import os
import shutil
import sys
import tempfile

sys.path.insert(0, sys.argv[1])
logging.disable(logging.CRITICAL)

import simpy  # noqa: E402

from topsim.core.cluster import Cluster  # noqa: E402
from topsim.core.config import Config  # noqa: E402
from topsim.core.delay import DelayModel  # noqa: E402
from topsim.core.instrument import Observation  # noqa: E402
from topsim.core.machine import Machine  # noqa: E402
from topsim.core.task import Task  # noqa: E402

OBSERVATIONS_S = {'obs1': 150, 'obs2': 240, 'obs3': 90}  # seconds


def write_config(tmp):
    wf = {"graph": {
        "directed": True, "multigraph": False, "graph": {},
        "nodes": [{"id": "A", "comp": 2400, "task_data": 0},
                  {"id": "B", "comp": 600, "task_data": 5400}],
        "edges": [{"source": "A", "target": "B", "transfer_data": 0}]}}
    with open(os.path.join(tmp, "wf.json"), "w") as f:
        json.dump(wf, f)
    cfg = {
        "instrument": {"telescope": {
            "total_arrays": 36, "max_ingest_resources": 2,
            "pipelines": {
                "obs1": {"workflow": "wf.json", "ingest_demand": 2},
                "obs2": {"workflow": "wf.json", "ingest_demand": 1},
                "obs3": {"workflow": "wf.json", "ingest_demand": 1}},
            "observations": [
                {"name": "obs1", "start": 0, "duration": OBSERVATIONS_S['obs1'],
                 "instrument_demand": 36, "data_product_rate": 0.01},
                {"name": "obs2", "start": 600,
                 "duration": OBSERVATIONS_S['obs2'],
                 "instrument_demand": 36, "data_product_rate": 0.01},
                {"name": "obs3", "start": 2400,
                 "duration": OBSERVATIONS_S['obs3'],
                 "instrument_demand": 36, "data_product_rate": 0.01}]}},
        "cluster": {"header": {}, "system": {
            "resources": {
                "m0": {"flops": 10, "compute_bandwidth": 5},
                "m1": {"flops": 5, "compute_bandwidth": 10},
                "m2": {"flops": 5, "compute_bandwidth": 10}},
            "system_bandwidth": 7}},
        "buffer": {"hot": {"capacity": 100, "max_ingest_rate": 5},
                   "cold": {"capacity": 100, "max_data_rate": 5}},
        "timestep": "minutes"}
    path = os.path.join(tmp, "cfg.json")
    with open(path, "w") as f:
        json.dump(cfg, f)
    return path, wf


def cluster_level(path):
    """
    Drive Cluster.provision_ingest_resources() directly, one observation
    after the other, for whole and fractional durations.
    """
    problems = []
    for duration in (1, 1.5, 2.5, 4, 4.75):
        env = simpy.Environment()
        cluster = Cluster(env, Config(path))
        obs = Observation('obsX', 0, duration, 36, 'wf.json', 1)
        env.process(cluster.provision_ingest_resources(2, obs))
        env.run(until=12)
        tasks = list(cluster._tasks['finished'])
        if len(tasks) != 2 or not all(cluster._tasks['finished'].values()):
            problems.append(f"cluster: duration {duration}: ingest tasks "
                            f"did not finish: {cluster._tasks}")
            continue
        for t in tasks:
            got = t.aft - t.ast
            if got != duration:
                problems.append(
                    f"cluster: ingest task {t.id} of a {duration}-step "
                    f"observation: ast={t.ast} aft={t.aft} "
                    f"finish-start={got}, required {duration}")
    return problems


def simulation_level(path, wf):
    from topsim.core.simulation import Simulation
    from topsim.user.telescope import Telescope
    from topsim.user.plan.batch_planning import BatchPlanning
    from topsim.user.schedule.queue_allocation import QueueProcessing

    problems = []
    demands = {n["id"]: (n["comp"], n["task_data"])
               for n in wf["graph"]["nodes"]}
    env = simpy.Environment()
    sim = Simulation(env=env, config=path, instrument=Telescope,
                     planning_model=BatchPlanning('batch'),
                     planning_algorithm='batch', scheduling=QueueProcessing(),
                     delay=None, timestamp=0)
    sim.start(runtime=100)
    finished = [t for t, done in sim.cluster._tasks['finished'].items()
                if done]
    n_ingest, n_workflow = 0, 0
    for t in finished:
        got = t.aft - t.ast
        if 'ingest' in t.id:
            n_ingest += 1
            need = OBSERVATIONS_S[t.id.split('_')[0]] / 60
            if got != need:
                problems.append(
                    f"sim: ingest task {t.id} ast={t.ast} aft={t.aft} "
                    f"finish-start={got}, observation lasts {need} steps")
            continue
        n_workflow += 1
        flops, data = demands[t.id.split('_')[-1]]
        machine = t.allocated_machine_id
        if not isinstance(machine, Machine):
            machine = sim.cluster.get_machine_from_id(machine)
        need = max(1, max(int(flops / machine.cpu),
                          int(data / machine.bandwidth)))
        if got != need:
            problems.append(
                f"sim: task {t.id} on {machine.id} finish-start={got}, "
                f"required runtime {need}")
    if (n_ingest, n_workflow) != (4, 6):
        problems.append(f"sim: {n_ingest} ingest / {n_workflow} workflow "
                        f"tasks finished, required 4 / 6")
    return problems


def delay_side_check():
    """Runtime = work/speed, lengthened only by the delay model."""
    problems = []
    slow = Machine('slow', cpu=10, memory=1, disk=1, bandwidth=10)
    models = {
        'none': None,
        'degree NONE': DelayModel(0.0, 'normal', DelayModel.DelayDegree.NONE),
        'never delays': DelayModel(0.0, 'normal', DelayModel.DelayDegree.LOW),
        'delays': DelayModel(0.3, 'normal', DelayModel.DelayDegree.LOW),
    }
    for est, eft in ((0, 5), (0, 12), (0, 8)):
        for label, dm in models.items():
            t = Task('w_0_t', est, eft, 'fast', [], flops=80, task_data=30,
                     io={}, delay=dm)
            env = simpy.Environment()
            env.process(t.do_work(env, slow, None))
            env.run()
            need = 8 if dm is None else dm.generate_delay(8)
            if t.aft - t.ast != need:
                problems.append(
                    f"delay: plan estimate {eft - est}, model '{label}': "
                    f"finish-start={t.aft - t.ast}, required {need}")
    return problems


def main():
    tmp = tempfile.mkdtemp(prefix="c06_demo2_")
    try:
        path, wf = write_config(tmp)
        problems = cluster_level(path)
        problems += simulation_level(path, wf)
        problems += delay_side_check()
    finally:
        shutil.rmtree(tmp, ignore_errors=True)
    if problems:
        print("FAIL: " + " | ".join(problems))
        return 1
    print("PASS")
    return 0


if __name__ == '__main__':
    sys.exit(main())
