"""
demo1 - C09: "No more than the configured number of reservations exist at once".

Usage: python demo1.py <path-to-tree>

Four observations (A, B, C, D) are processed with batch (reservation)
scheduling, max_resource_partitions=2 and a per-observation split of exactly
two machines each on an eight machine cluster.

  * A (short workflow) and B (long workflow) hold a reservation at the same
    time, A's workflow finishes while B's is still running,
  * afterwards C and D (long workflows) become ready while B is still running.

Required: at every timestep at most 2 reservations exist, hence D has to wait
until B or C has released its machines.  In addition the generic reservation
invariants are checked every timestep (pools disjoint, tasks only on machines
reserved for their observation, sizes within the split, everything returned
at the end).
"""
import sys

sys.path.insert(0, sys.argv[1])

import json
import logging
import os
import shutil
import tempfile

import simpy

logging.disable(logging.CRITICAL)

from topsim.core.simulation import Simulation
from topsim.user.telescope import Telescope
from topsim.user.plan.batch_planning import BatchPlanning
from topsim.user.schedule.batch_allocation import BatchProcessing

N_MACHINES = 8
MAX_PARTITIONS = 2
SPLIT = {'A': (2, 2), 'B': (2, 2), 'C': (2, 2), 'D': (2, 2)}
# name -> (start, duration, [task comp ...] as a chain)
OBSERVATIONS = {
    'A': (0, 5, [20]),
    'B': (2, 5, [400, 400]),
    'C': (25, 5, [300, 300]),
    'D': (28, 5, [300, 300]),
}
RUNTIME = 400


def chain_workflow(comps):
    nodes = [{"comp": c, "id": i} for i, c in enumerate(comps)]
    edges = [{"transfer_data": 0, "source": i, "target": i + 1}
             for i in range(len(comps) - 1)]
    return {"header": {"time": False}, "graph": {
        "directed": True, "multigraph": False, "graph": {},
        "nodes": nodes, "edges": edges}}


def write_config(tmp):
    pipelines, observations = {}, []
    for name, (start, duration, comps) in OBSERVATIONS.items():
        wf = f"wf_{name}.json"
        with open(os.path.join(tmp, wf), 'w') as fp:
            json.dump(chain_workflow(comps), fp)
        pipelines[name] = {"workflow": wf, "ingest_demand": 1}
        observations.append({
            "name": name, "start": start, "duration": duration,
            "instrument_demand": 4, "data_product_rate": 1})
    cfg = {
        "instrument": {"telescope": {
            "total_arrays": 36, "max_ingest_resources": 4,
            "pipelines": pipelines, "observations": observations}},
        "cluster": {"header": {}, "system": {
            "resources": {
                f"m{i}": {"flops": 10, "compute_bandwidth": 10}
                for i in range(N_MACHINES)},
            "system_bandwidth": 1.0}},
        "buffer": {
            "hot": {"capacity": 10000, "max_ingest_rate": 10},
            "cold": {"capacity": 10000, "max_data_rate": 5}},
        "timestep": "seconds",
    }
    path = os.path.join(tmp, "config.json")
    with open(path, 'w') as fp:
        json.dump(cfg, fp)
    return path


class Checker:
    """Observes the cluster once per timestep (read-only)."""

    def __init__(self, sim):
        self.sim = sim
        self.cluster = sim.cluster
        self.errors = []
        self._seen = set()
        self.max_reservations = 0
        self.reserved = {}  # observation -> frozenset of machine ids
        self.trace = []

    def err(self, msg):
        if msg not in self._seen and len(self.errors) < 5:
            self._seen.add(msg)
            self.errors.append(f"t={self.sim.env.now}: {msg}")

    def check(self):
        cl = self.cluster
        res = cl._clusters['default']['resources']
        idle = {k: [m.id for m in v] for k, v in res['idle'].items()}
        avail = [m.id for m in res['available']]
        occupied = [m.id for m in res['occupied']]
        ingest = [m.id for m in res['ingest']]
        running = [t for t in cl._clusters['default']['tasks']['running']
                   if '_ingest_' not in t.id]
        self.trace.append((self.sim.env.now, sorted(idle)))

        # every machine is in exactly one pool
        everything = avail + occupied + ingest + [
            m for v in idle.values() for m in v]
        if sorted(everything) != sorted(m.id for m in cl.machines):
            self.err(f"machine pools not a partition of the cluster: "
                     f"avail={avail} occ={occupied} ingest={ingest} "
                     f"idle={idle}")

        # number of reservations
        n = len(idle)
        self.max_reservations = max(self.max_reservations, n)
        if n > MAX_PARTITIONS:
            self.err(f"{n} reservations exist at once {sorted(idle)}; "
                     f"required <= {MAX_PARTITIONS}")

        # membership of reservations is fixed while they exist
        by_obs = {}
        for t in running:
            m = t.allocated_machine_id
            by_obs.setdefault(t.id.split('_')[0], []).append(
                getattr(m, 'id', m))
        for obs, machines in idle.items():
            members = frozenset(machines) | frozenset(by_obs.get(obs, []))
            if obs not in self.reserved:
                self.reserved[obs] = members
                lo, hi = SPLIT[obs]
                if not lo <= len(members) <= hi:
                    self.err(f"reservation of {obs} has {len(members)} "
                             f"machines, required {lo}..{hi}")
            elif members != self.reserved[obs]:
                self.err(f"reservation of {obs} changed from "
                         f"{sorted(self.reserved[obs])} to {sorted(members)}")
        for obs in list(self.reserved):
            if obs not in idle:
                del self.reserved[obs]
        # tasks of a workflow only on machines reserved for it, and reserved
        # machines not used by anybody else
        for obs, machines in by_obs.items():
            if obs not in idle:
                continue
            for m in machines:
                if m not in self.reserved.get(obs, ()):
                    self.err(f"task of {obs} on machine {m} outside its "
                             f"reservation {sorted(self.reserved.get(obs, []))}")
        for obs, members in self.reserved.items():
            for other, machines in by_obs.items():
                if other != obs and set(machines) & members:
                    self.err(f"machine reserved for {obs} runs task of "
                             f"{other}")
            if set(ingest) & members:
                self.err(f"machine reserved for {obs} used by ingest")

    def run(self):
        while True:
            self.check()
            yield self.sim.env.timeout(1)


def main():
    tmp = tempfile.mkdtemp(prefix="c09_demo1_")
    try:
        cfg = write_config(tmp)
        env = simpy.Environment()
        sim = Simulation(
            env=env, config=cfg, instrument=Telescope,
            planning_model=BatchPlanning('batch'), planning_algorithm='batch',
            scheduling=BatchProcessing(
                max_resource_partitions=MAX_PARTITIONS,
                min_resources_per_workflow=1, resource_split=SPLIT),
            delay=None, timestamp=0)
        checker = Checker(sim)
        env.process(checker.run())
        sim.start(runtime=RUNTIME)
        checker.check()
        cl = sim.cluster
        finished = {t.id.split('_')[0] for t in cl.get_finished_tasks()
                    if cl.is_task_finished(t) and '_ingest_' not in t.id}
        problems = list(checker.errors)
        if finished != set(OBSERVATIONS):
            problems.append(f"workflows finished: {sorted(finished)}, "
                            f"required all of {sorted(OBSERVATIONS)}")
        if len(cl.get_available_resources()) != N_MACHINES or \
                cl._get_batch_observations():
            problems.append(
                f"at the end {len(cl.get_available_resources())} machines "
                f"free and reservations {cl._get_batch_observations()} left; "
                f"required {N_MACHINES} free and none left")
        if checker.max_reservations < 2:
            problems.append("scenario did not produce two concurrent "
                            "reservations (demo broken)")
        if os.environ.get('C09_DEMO_TRACE'):
            last = None
            for t, keys in checker.trace:
                if keys != last:
                    print(t, keys)
                    last = keys
    finally:
        shutil.rmtree(tmp, ignore_errors=True)
    if problems:
        print("FAIL: " + " | ".join(problems))
        return 1
    print("PASS")
    return 0


if __name__ == '__main__':
    sys.exit(main())
