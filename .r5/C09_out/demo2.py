"""
demo2 - C09: "the whole reservation returns to the free pool when the
workflow's last task has finished" (and is then usable by the next workflow).

Usage: python demo2.py <path-to-tree>

Batch (reservation) scheduling with max_resource_partitions=1 on a four
machine cluster; reservations are sized by a per-observation split.

  scenario 1: observation A reserves exactly ONE machine (split (1, 1)) and
              runs a two task chain on it; observation B (split (2, 2)) gets
              ready later and needs A's reservation to be given back.
  scenario 2: a single observation B reserves two machines; its workflow is a
              fork whose two final tasks have the same length, i.e. every
              reserved machine is busy at the moment the last task ends.

Required: every workflow finishes, at the end all four machines are back in
the free pool and no reservation is left.  The generic reservation invariants
(pools disjoint, tasks only on own reserved machines, sizes within the split,
at most one reservation) are checked every timestep as well.
"""
import sys

sys.path.insert(0, sys.argv[1])

import json
import logging
import os
import shutil
import tempfile

import simpy

logging.disable(logging.CRITICAL)

from topsim.core.simulation import Simulation
from topsim.user.telescope import Telescope
from topsim.user.plan.batch_planning import BatchPlanning
from topsim.user.schedule.batch_allocation import BatchProcessing

N_MACHINES = 4
MAX_PARTITIONS = 1
SPLIT = {'A': (1, 1), 'B': (2, 2)}
# name -> (start, duration, nodes [comp ...], edges [(u, v) ...])
SCENARIOS = {
    'chain on a one-machine reservation, then a second workflow': {
        'A': (0, 5, [30, 30], [(0, 1)]),
        'B': (20, 5, [40, 20, 30], [(0, 1), (0, 2)]),
    },
    'fork whose equal final tasks occupy the whole reservation': {
        'B': (0, 5, [20, 50, 50], [(0, 1), (0, 2)]),
    },
}
RUNTIME = 200


def dag_workflow(comps, edges):
    nodes = [{"comp": c, "id": i} for i, c in enumerate(comps)]
    edges = [{"transfer_data": 0, "source": u, "target": v}
             for (u, v) in edges]
    return {"header": {"time": False}, "graph": {
        "directed": True, "multigraph": False, "graph": {},
        "nodes": nodes, "edges": edges}}


def write_config(tmp, scenario):
    pipelines, observations = {}, []
    for name, (start, duration, comps, edges) in scenario.items():
        wf = f"wf_{name}.json"
        with open(os.path.join(tmp, wf), 'w') as fp:
            json.dump(dag_workflow(comps, edges), fp)
        pipelines[name] = {"workflow": wf, "ingest_demand": 1}
        observations.append({
            "name": name, "start": start, "duration": duration,
            "instrument_demand": 4, "data_product_rate": 1})
    cfg = {
        "instrument": {"telescope": {
            "total_arrays": 36, "max_ingest_resources": 4,
            "pipelines": pipelines, "observations": observations}},
        "cluster": {"header": {}, "system": {
            "resources": {
                f"m{i}": {"flops": 10, "compute_bandwidth": 10}
                for i in range(N_MACHINES)},
            "system_bandwidth": 1.0}},
        "buffer": {
            "hot": {"capacity": 10000, "max_ingest_rate": 10},
            "cold": {"capacity": 10000, "max_data_rate": 5}},
        "timestep": "seconds",
    }
    path = os.path.join(tmp, "config.json")
    with open(path, 'w') as fp:
        json.dump(cfg, fp)
    return path


class Checker:
    """Observes the cluster once per timestep (read-only)."""

    def __init__(self, sim):
        self.sim = sim
        self.cluster = sim.cluster
        self.errors = []
        self._seen = set()
        self.max_reservations = 0
        self.reserved = {}  # observation -> frozenset of machine ids
        self.trace = []

    def err(self, msg):
        if msg not in self._seen and len(self.errors) < 5:
            self._seen.add(msg)
            self.errors.append(f"t={self.sim.env.now}: {msg}")

    def check(self):
        cl = self.cluster
        res = cl._clusters['default']['resources']
        idle = {k: [m.id for m in v] for k, v in res['idle'].items()}
        avail = [m.id for m in res['available']]
        occupied = [m.id for m in res['occupied']]
        ingest = [m.id for m in res['ingest']]
        running = [t for t in cl._clusters['default']['tasks']['running']
                   if '_ingest_' not in t.id]
        self.trace.append((self.sim.env.now, sorted(idle)))

        # every machine is in exactly one pool
        everything = avail + occupied + ingest + [
            m for v in idle.values() for m in v]
        if sorted(everything) != sorted(m.id for m in cl.machines):
            self.err(f"machine pools not a partition of the cluster: "
                     f"avail={avail} occ={occupied} ingest={ingest} "
                     f"idle={idle}")

        # number of reservations
        n = len(idle)
        self.max_reservations = max(self.max_reservations, n)
        if n > MAX_PARTITIONS:
            self.err(f"{n} reservations exist at once {sorted(idle)}; "
                     f"required <= {MAX_PARTITIONS}")

        # membership of reservations is fixed while they exist
        by_obs = {}
        for t in running:
            m = t.allocated_machine_id
            by_obs.setdefault(t.id.split('_')[0], []).append(
                getattr(m, 'id', m))
        for obs, machines in idle.items():
            members = frozenset(machines) | frozenset(by_obs.get(obs, []))
            if obs not in self.reserved:
                self.reserved[obs] = members
                lo, hi = SPLIT[obs]
                if not lo <= len(members) <= hi:
                    self.err(f"reservation of {obs} has {len(members)} "
                             f"machines, required {lo}..{hi}")
            elif members != self.reserved[obs]:
                self.err(f"reservation of {obs} changed from "
                         f"{sorted(self.reserved[obs])} to {sorted(members)}")
        for obs in list(self.reserved):
            if obs not in idle:
                del self.reserved[obs]
        # tasks of a workflow only on machines reserved for it, and reserved
        # machines not used by anybody else
        for obs, machines in by_obs.items():
            if obs not in idle:
                continue
            for m in machines:
                if m not in self.reserved.get(obs, ()):
                    self.err(f"task of {obs} on machine {m} outside its "
                             f"reservation {sorted(self.reserved.get(obs, []))}")
        for obs, members in self.reserved.items():
            for other, machines in by_obs.items():
                if other != obs and set(machines) & members:
                    self.err(f"machine reserved for {obs} runs task of "
                             f"{other}")
            if set(ingest) & members:
                self.err(f"machine reserved for {obs} used by ingest")

    def run(self):
        while True:
            self.check()
            yield self.sim.env.timeout(1)


def run_scenario(title, scenario):
    tmp = tempfile.mkdtemp(prefix="c09_demo2_")
    try:
        cfg = write_config(tmp, scenario)
        env = simpy.Environment()
        sim = Simulation(
            env=env, config=cfg, instrument=Telescope,
            planning_model=BatchPlanning('batch'), planning_algorithm='batch',
            scheduling=BatchProcessing(
                max_resource_partitions=MAX_PARTITIONS,
                min_resources_per_workflow=1, resource_split=SPLIT),
            delay=None, timestamp=0)
        checker = Checker(sim)
        env.process(checker.run())
        sim.start(runtime=RUNTIME)
        checker.check()
        cl = sim.cluster
        finished = {}
        for t in cl.get_finished_tasks():
            if cl.is_task_finished(t) and '_ingest_' not in t.id:
                obs = t.id.split('_')[0]
                finished[obs] = finished.get(obs, 0) + 1
        required = {name: len(spec[2]) for name, spec in scenario.items()}
        problems = list(checker.errors)
        if finished != required:
            problems.append(f"finished workflow tasks per observation "
                            f"{finished}, required {required}")
        free = len(cl.get_available_resources())
        left = {o: [m.id for m in cl.get_idle_resources(o)]
                for o in cl._get_batch_observations()}
        if free != N_MACHINES or left:
            problems.append(
                f"after the last task {free} machines are in the free pool "
                f"and reservations {left} still exist; required "
                f"{N_MACHINES} free machines and no reservation")
        if checker.max_reservations < 1:
            problems.append("scenario made no reservation (demo broken)")
        if os.environ.get('C09_DEMO_TRACE'):
            last = None
            for t, keys in checker.trace:
                if keys != last:
                    print(t, keys)
                    last = keys
    finally:
        shutil.rmtree(tmp, ignore_errors=True)
    return [f"[{title}] {p}" for p in problems]


def main():
    problems = []
    for title, scenario in SCENARIOS.items():
        problems += run_scenario(title, scenario)
    if problems:
        print("FAIL: " + " | ".join(problems))
        return 1
    print("PASS")
    return 0


if __name__ == '__main__':
    sys.exit(main())
