"""
demo2: two observations; the second one ("b") is due while all ingest
machines are still taken by the first one ("a"), so the telescope has to
admit it LATE (actual start > planned start).  Shipped BatchPlanning +
QueueProcessing, run to completion.

Required (C04): both observations are observed exactly once (for their full
duration, i.e. rate*duration of data is ingested and handed to the buffer),
all 3 ingest tasks and all 8 workflow tasks run exactly once, and the run
returns quiescent.

usage: demo2.py <path-to-tree>
"""
import sys
import os
import json
import shutil
import logging
import tempfile

TREE = sys.argv[1]
sys.path.insert(0, TREE)
logging.disable(logging.CRITICAL)

import simpy  # noqa: E402
from topsim.core.simulation import Simulation  # noqa: E402
from topsim.core.instrument import RunStatus  # noqa: E402
from topsim.user.telescope import Telescope  # noqa: E402
from topsim.user.plan.batch_planning import BatchPlanning  # noqa: E402
from topsim.user.schedule.queue_allocation import QueueProcessing  # noqa: E402

NMACH = 4
MAX_STEPS = 300


def workflow(nodes, edges):
    return {"header": {"time": False}, "graph": {
        "directed": True, "multigraph": False, "graph": {},
        "nodes": [{"id": i, "comp": c} for i, c in enumerate(nodes)],
        "edges": [{"source": s, "target": t, "transfer_data": d}
                  for s, t, d in edges]}}


def build(tmp):
    wf = workflow([20, 30, 10, 40], [(0, 1, 5), (0, 2, 5), (1, 3, 5), (2, 3, 5)])
    with open(os.path.join(tmp, 'wf.json'), 'w') as f:
        json.dump(wf, f)
    cfg = {
        "instrument": {"telescope": {
            "total_arrays": 36, "max_ingest_resources": 2,
            "pipelines": {
                "a": {"workflow": "wf.json", "ingest_demand": 2},
                "b": {"workflow": "wf.json", "ingest_demand": 1}},
            "observations": [
                {"name": "a", "start": 0, "duration": 6,
                 "instrument_demand": 10, "data_product_rate": 10},
                # planned for t=3 but both ingest machines are busy until "a"
                # has finished -> admitted late
                {"name": "b", "start": 3, "duration": 5,
                 "instrument_demand": 10, "data_product_rate": 20}]}},
        "cluster": {"header": {}, "system": {
            "resources": {"m%d" % i: {"flops": 10, "compute_bandwidth": 10}
                          for i in range(NMACH)},
            "system_bandwidth": 1.0}},
        "buffer": {"hot": {"capacity": 1000, "max_ingest_rate": 100},
                   "cold": {"capacity": 1000, "max_data_rate": 100}},
        "timestep": "seconds"}
    path = os.path.join(tmp, 'cfg.json')
    with open(path, 'w') as f:
        json.dump(cfg, f)
    return Simulation(
        env=simpy.Environment(), config=path, instrument=Telescope,
        planning_model=BatchPlanning('batch'), planning_algorithm='batch',
        scheduling=QueueProcessing(), delay=None, timestamp=0)


def main():
    tmp = tempfile.mkdtemp(prefix='c04demo2_')
    try:
        sim = build(tmp)
        sim.start(runtime=1)
        while not sim.is_finished() and sim.env.now < MAX_STEPS:
            sim.resume(sim.env.now + 1)
        problems = []
        obs = {o.name: o for o in sim.instrument.observations}
        b = obs['b']
        if b.ast is None or b.ast <= b.est:
            return ("demo precondition lost: b was expected to be admitted "
                    "late (est=%s, ast=%s)" % (b.est, b.ast))
        for o in obs.values():
            want = o.ingest_data_rate * o.duration
            if o.status is not RunStatus.FINISHED:
                problems.append("observation %s status %s, required FINISHED"
                                % (o.name, o.status))
            if o.total_data_size != want:
                problems.append(
                    "observation %s (est %s, ast %s) ingested %s data units, "
                    "required %s (= full duration %s)" % (
                        o.name, o.est, o.ast, o.total_data_size, want,
                        o.duration))
        finished = sim.buffer.hot[0].observations['finished']
        if sorted(o.name for o in finished) != ['a', 'b']:
            problems.append("observations processed through the buffer: %s, "
                            "required ['a', 'b']"
                            % sorted(o.name for o in finished))
        tasks = sim.cluster.finished_task_time_data().T
        ingest_rows = sorted(i for i in tasks.index if '_ingest_' in i)
        wf_rows = sorted(i for i in tasks.index if '_ingest_' not in i)
        if ingest_rows != ['a_ingest_t0', 'a_ingest_t1', 'b_ingest_t0']:
            problems.append("ingest task rows %s" % ingest_rows)
        per_obs = sorted(r.split('_')[0] for r in wf_rows)
        if per_obs != ['a'] * 4 + ['b'] * 4:
            problems.append("workflow task rows %s, required 4 for a and 4 "
                            "for b" % wf_rows)
        if not sim.is_finished():
            problems.append(
                "run not complete after %d steps: buffer empty=%s (hot free "
                "%s of %s), cluster idle=%s, scheduler idle=%s, telescope "
                "idle=%s" % (
                    MAX_STEPS, sim.buffer.is_empty(),
                    sim.buffer.hot[0].current_capacity,
                    sim.buffer.hot[0].total_capacity, sim.cluster.is_idle(),
                    sim.scheduler.is_idle(), sim.instrument.is_idle()))
        else:
            res = sim.cluster._clusters['default']['resources']
            if len(res['available']) != NMACH or res['idle'] \
                    or res['occupied'] or res['ingest']:
                problems.append("machines not all available at return")
            if sim.scheduler.provision_ingest != 0:
                problems.append("ingest reservation %s at return"
                                % sim.scheduler.provision_ingest)
        return "; ".join(problems)
    finally:
        shutil.rmtree(tmp, ignore_errors=True)


if __name__ == '__main__':
    msg = main()
    if msg:
        print("FAIL: " + msg)
        sys.exit(1)
    print("PASS")
    sys.exit(0)
