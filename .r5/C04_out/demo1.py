"""
demo1: a scheduling algorithm that reserves ("provisions") machines for its
workflow and - as the Cluster documentation promises - leaves the clean-up of
the reservation to the Scheduler.  Two observations, run to completion.

Required (C04): the run returns quiescent - no reservation held, all machines
available - and every task ran exactly once.

usage: demo1.py <path-to-tree>
"""
import sys
import os
import json
import copy
import shutil
import logging
import tempfile

TREE = sys.argv[1]
sys.path.insert(0, TREE)
logging.disable(logging.CRITICAL)

import simpy  # noqa: E402
from topsim.core.simulation import Simulation  # noqa: E402
from topsim.core.task import TaskStatus  # noqa: E402
from topsim.core.planner import WorkflowStatus  # noqa: E402
from topsim.user.telescope import Telescope  # noqa: E402
from topsim.user.plan.batch_planning import BatchPlanning  # noqa: E402
from topsim.algorithms.scheduling import Scheduling  # noqa: E402

NMACH = 6
MAX_STEPS = 400


class ReserveOnly(Scheduling):
    """Reserve two machines per workflow, run ready tasks on them, and rely
    on the Scheduler to release the reservation when the workflow is done."""

    def __repr__(self):
        return "ReserveOnly"

    def run(self, cluster, clock, workflow_plan, existing_schedule, task_pool):
        allocations = copy.copy(existing_schedule)
        wid = workflow_plan.id
        if workflow_plan.tasks and not cluster.is_observation_provisioned(wid):
            if len(cluster.get_available_resources()) >= 2:
                cluster.provision_batch_resources(2, wid)
        free = [m for m in cluster.get_idle_resources(wid)
                if m not in allocations.values()]
        graph = workflow_plan.graph
        for task in sorted(workflow_plan.tasks, key=lambda t: t.id):
            if not free:
                break
            if task.task_status is not TaskStatus.UNSCHEDULED:
                continue
            if task in allocations:
                continue
            if all(cluster.is_task_finished(p)
                   for p in graph.predecessors(task)):
                allocations[task] = free.pop(0)
        if not workflow_plan.tasks:
            workflow_plan.status = WorkflowStatus.FINISHED
        return allocations, workflow_plan.status, task_pool

    def to_df(self):
        return None


def workflow(nodes, edges):
    return {"header": {"time": False}, "graph": {
        "directed": True, "multigraph": False, "graph": {},
        "nodes": [{"id": i, "comp": c} for i, c in enumerate(nodes)],
        "edges": [{"source": s, "target": t, "transfer_data": d}
                  for s, t, d in edges]}}


def build(tmp):
    wf = workflow([20, 30, 10, 40], [(0, 1, 5), (0, 2, 5), (1, 3, 5), (2, 3, 5)])
    with open(os.path.join(tmp, 'wf.json'), 'w') as f:
        json.dump(wf, f)
    cfg = {
        "instrument": {"telescope": {
            "total_arrays": 36, "max_ingest_resources": 2,
            "pipelines": {
                "a": {"workflow": "wf.json", "ingest_demand": 2},
                "b": {"workflow": "wf.json", "ingest_demand": 1}},
            "observations": [
                {"name": "a", "start": 0, "duration": 5,
                 "instrument_demand": 10, "data_product_rate": 10},
                {"name": "b", "start": 8, "duration": 4,
                 "instrument_demand": 10, "data_product_rate": 20}]}},
        "cluster": {"header": {}, "system": {
            "resources": {"m%d" % i: {"flops": 10, "compute_bandwidth": 10}
                          for i in range(NMACH)},
            "system_bandwidth": 1.0}},
        "buffer": {"hot": {"capacity": 1000, "max_ingest_rate": 100},
                   "cold": {"capacity": 1000, "max_data_rate": 100}},
        "timestep": "seconds"}
    path = os.path.join(tmp, 'cfg.json')
    with open(path, 'w') as f:
        json.dump(cfg, f)
    return Simulation(
        env=simpy.Environment(), config=path, instrument=Telescope,
        planning_model=BatchPlanning('batch'), planning_algorithm='batch',
        scheduling=ReserveOnly(), delay=None, timestamp=0)


def main():
    tmp = tempfile.mkdtemp(prefix='c04demo1_')
    try:
        sim = build(tmp)
        # run to completion exactly like Simulation.start(), but bounded
        sim.start(runtime=1)
        while not sim.is_finished() and sim.env.now < MAX_STEPS:
            sim.resume(sim.env.now + 1)
        if not sim.is_finished():
            return "run did not complete within %d steps" % MAX_STEPS
        tasks = sim._generate_final_task_data()
        res = sim.cluster._clusters['default']['resources']
        problems = []
        expected = {'a_ingest_t0', 'a_ingest_t1', 'b_ingest_t0'}
        wf_rows = [i for i in tasks.index if '_ingest_' not in i]
        if set(i for i in tasks.index if '_ingest_' in i) != expected \
                or len(wf_rows) != 8 or len(set(tasks.index)) != len(tasks):
            problems.append("task table rows %s, required 3 ingest + 8 "
                            "workflow rows" % sorted(tasks.index))
        if res['idle']:
            problems.append("reservations still held at return: %s (required: "
                            "none)" % res['idle'])
        if sorted(m.id for m in res['available']) != \
                sorted(m.id for m in sim.cluster.machines):
            problems.append("available machines at return %s, required all %d"
                            % (sorted(m.id for m in res['available']), NMACH))
        if sim.cluster.num_provisioned_obs != 0:
            problems.append("num_provisioned_obs=%d at return, required 0"
                            % sim.cluster.num_provisioned_obs)
        if res['occupied'] or res['ingest'] or \
                sim.cluster._clusters['default']['tasks']['running']:
            problems.append("cluster still busy at return")
        if not sim.buffer.is_empty() or sim.scheduler.observation_queue:
            problems.append("buffer/scheduler not quiescent at return")
        return "; ".join(problems)
    finally:
        shutil.rmtree(tmp, ignore_errors=True)


if __name__ == '__main__':
    msg = main()
    if msg:
        print("FAIL: " + msg)
        sys.exit(1)
    print("PASS")
    sys.exit(0)
