#!/bin/sh
# evaluate all round-2 seeds in parallel; usage: tools_r2_all.sh [--benign-only|--bugs-only]
cd /verif
for i in 01 02 03 04 05 06 07 08 09 10 11 12 13 14 15 16 17 18 19; do
  ( ./tools_seed_eval.py C$i --round2 $1 > /tmp/r2_C$i.txt 2>&1 ) &
done
wait
cat /tmp/r2_C*.txt
rm -f /tmp/r2_C*.txt
