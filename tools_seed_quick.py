#!/usr/bin/env python3
"""fast matrix over the committed seeds: apply every seeded/*/patch.diff to a temp copy of
/repo/topsim and run the named checks (no baseline tests, no demos).
usage: tools_seed_quick.py [benign|bug] [--checks C04,C05] [seed-id-prefix ...]
prints one line per seed whose outcome differs from meta.json's reported_by (for the checks run)."""
import glob, json, os, shutil, subprocess, sys, tempfile
from concurrent.futures import ProcessPoolExecutor

ALL = ['C%02d' % i for i in range(1, 20)]


def one(job):
    d, props = job
    tmp = tempfile.mkdtemp(prefix='sq_')
    try:
        shutil.copytree('/repo/topsim', tmp + '/topsim', ignore=shutil.ignore_patterns('__pycache__'))
        r = subprocess.run(['git', 'apply', '--unsafe-paths', '--directory=' + tmp, d + '/patch.diff'],
                           capture_output=True, text=True)
        if r.returncode != 0:
            return d, {'apply': (9, [r.stderr[-150:]])}
        det = {}
        for p in props:
            r = subprocess.run(['/venv/bin/python', '-B', '-m', 'sa.cli', p, '--repo', tmp, '--no-evidence'],
                               cwd='/verif', capture_output=True, text=True)
            if r.returncode != 0:
                lines = [l.strip().replace(tmp + '/', '') for l in r.stdout.splitlines()
                         if l.strip().startswith(('rule', 'ANALYSIS'))]
                det[p] = (r.returncode, lines[:3])
        return d, det
    finally:
        shutil.rmtree(tmp, ignore_errors=True)


def main():
    kind = None
    props = ALL
    sel = []
    a = sys.argv[1:]
    i = 0
    while i < len(a):
        if a[i] in ('benign', 'bug'):
            kind = a[i]
        elif a[i] == '--checks':
            props = a[i + 1].split(','); i += 1
        else:
            sel.append(a[i])
        i += 1
    jobs = []
    for d in sorted(glob.glob('/verif/seeded/*/')):
        d = d.rstrip('/')
        n = os.path.basename(d)
        m = json.load(open(d + '/meta.json'))
        k = 'benign' if ('benign' in n or m.get('kind') in ('refactoring', 'benign')) else 'bug'
        if kind and k != kind:
            continue
        if sel and not any(n.startswith(s) for s in sel):
            continue
        jobs.append((d, props))
    diff = 0
    with ProcessPoolExecutor(max_workers=16) as ex:
        for (d, _), (_, det) in zip(jobs, ex.map(one, jobs)):
            n = os.path.basename(d)
            m = json.load(open(d + '/meta.json'))
            was = set((m.get('detected_by') or m.get('reported_by') or {}).keys()) & set(props)
            now = set(det)
            if was != now or any(v[0] == 2 for v in det.values()):
                diff += 1
                print('%-16s was %s now %s' % (n, sorted(was), {k: v[0] for k, v in det.items()}))
                for k, v in det.items():
                    if k not in was or v[0] == 2:
                        for l in v[1][:2]:
                            print('      %s: %s' % (k, l[:260]))
    print('%d seeds, %d differ from meta.json' % (len(jobs), diff))


if __name__ == '__main__':
    main()
