#!/usr/bin/env python3
"""Systematic behaviour-preserving transformations of the whole package, as a test of the checks'
independence of spelling (not one of the registered checks).

Each transformation is applied to EVERY applicable site of a scratch copy of /repo/topsim at once
(mkdtemp, removed afterwards) and all 19 checks must stay silent:

  locals   every local variable renamed (x -> x_v)
  swapif   every if/else with its branches swapped under the negated test
  cmp      operands of every comparison swapped (a < b -> b > a, x is None -> None is x)
  aug      every `x += e` / `x -= e` written as `x = x + e`
  tmp      every returned expression and every if-test computed into a fresh temporary first
  len      `len(x) == 0` -> `not x`, `len(x) > 0` -> `bool(x)`
  guard    `if c: ...return/raise/continue  else: REST` -> guard clause + REST
  dem      every two-operand `a and b` / `a or b` test rewritten with De Morgan
  alias    `self._clusters[c]['k']` read into a local alias at the top of each method using it twice
  plus     `xs.append(e)` -> `xs += [e]`, `xs.extend(ys)` -> `xs += ys`
  ann      every `x = e` (also module constants and enum members) annotated: `x: 'object' = e`
  private  every private method renamed (`_m` -> `_m_impl`) with all its uses
  inline   single-use call-free temporaries substituted into the next statement
  unfold   `y = [E for x in S if C]` written as an append loop
  nest     `if a and b:` <-> nested ifs (both directions, no else)

usage: tools_xform.py [kind ...]        (default: all)
"""
import ast
import copy
import glob
import os
import shutil
import subprocess
import sys
import tempfile

cnt = [0]
suffix = '_v'

SW={ast.Lt:ast.Gt, ast.Gt:ast.Lt, ast.LtE:ast.GtE, ast.GtE:ast.LtE, ast.Eq:ast.Eq, ast.NotEq:ast.NotEq, ast.Is:ast.Is, ast.IsNot:ast.IsNot}
cnt=[0]
class Cmp(ast.NodeTransformer):
    def visit_Compare(self, n):
        self.generic_visit(n)
        if len(n.ops)==1 and type(n.ops[0]) in SW:
            cnt[0]+=1
            return ast.copy_location(ast.Compare(left=n.comparators[0], ops=[SW[type(n.ops[0])]()], comparators=[n.left]), n)
        return n
class Aug(ast.NodeTransformer):
    def visit_AugAssign(self, n):
        if isinstance(n.target,(ast.Name,ast.Attribute,ast.Subscript)) and isinstance(n.op,(ast.Add,ast.Sub)) :
            cnt[0]+=1
            load=copy.deepcopy(n.target)
            for x in ast.walk(load):
                if hasattr(x,'ctx'): x.ctx=ast.Load()
            return ast.copy_location(ast.Assign(targets=[n.target], value=ast.BinOp(left=load, op=n.op, right=n.value), type_comment=None), n)
        return n
class Tmp(ast.NodeTransformer):
    k=0
    def visit_FunctionDef(self, node):
        self.generic_visit(node)
        return node
    def _blk(self, stmts):
        out=[]
        for st in stmts:
            if isinstance(st, ast.Return) and st.value is not None and not isinstance(st.value,(ast.Name,ast.Constant)):
                Tmp.k+=1; nm='ret_tmp%d'%Tmp.k; cnt[0]+=1
                out.append(ast.copy_location(ast.Assign(targets=[ast.Name(id=nm,ctx=ast.Store())], value=st.value, type_comment=None), st))
                out.append(ast.copy_location(ast.Return(value=ast.Name(id=nm,ctx=ast.Load())), st))
            elif isinstance(st, ast.If) and isinstance(st.test,(ast.Compare,ast.Call)) and not any(isinstance(x,(ast.Yield,ast.NamedExpr)) for x in ast.walk(st.test)):
                Tmp.k+=1; nm='cond_tmp%d'%Tmp.k; cnt[0]+=1
                out.append(ast.copy_location(ast.Assign(targets=[ast.Name(id=nm,ctx=ast.Store())], value=st.test, type_comment=None), st))
                st.test=ast.copy_location(ast.Name(id=nm,ctx=ast.Load()), st)
                out.append(st)
            else:
                out.append(st)
        return out
    def generic_visit(self, node):
        super().generic_visit(node)
        for f in ('body','orelse','finalbody'):
            v=getattr(node,f,None)
            if isinstance(v,list) and v and isinstance(v[0],ast.stmt):
                if f=='orelse' and isinstance(node, ast.If) and len(v)==1 and isinstance(v[0], ast.If):
                    continue   # keep elif chains (a temp would have to go inside the else)
                setattr(node,f,self._blk(v))
        return node
class Len(ast.NodeTransformer):
    def visit_Compare(self, n):
        self.generic_visit(n)
        if len(n.ops)==1 and isinstance(n.left, ast.Call) and isinstance(n.left.func, ast.Name) and n.left.func.id=='len' and len(n.left.args)==1 \
                and isinstance(n.comparators[0], ast.Constant) and n.comparators[0].value==0:
            x=n.left.args[0]
            if isinstance(n.ops[0], ast.Eq): cnt[0]+=1; return ast.copy_location(ast.UnaryOp(op=ast.Not(), operand=x), n)
            if isinstance(n.ops[0], (ast.Gt, ast.NotEq)): cnt[0]+=1; return ast.copy_location(ast.Call(func=ast.Name(id='bool',ctx=ast.Load()), args=[x], keywords=[]), n)
        return n
class Guard(ast.NodeTransformer):
    def _ends(self, b):
        return bool(b) and isinstance(b[-1], (ast.Return, ast.Raise, ast.Continue, ast.Break))
    def generic_visit(self, node):
        super().generic_visit(node)
        for f in ('body','orelse','finalbody'):
            v=getattr(node,f,None)
            if isinstance(v,list) and v and isinstance(v[0],ast.stmt):
                out=[]
                for st in v:
                    if isinstance(st, ast.If) and st.orelse and self._ends(st.body) and not (len(st.orelse)==1 and isinstance(st.orelse[0], ast.If)):
                        cnt[0]+=1
                        rest=st.orelse; st.orelse=[]
                        out.append(st); out+=rest
                    else: out.append(st)
                setattr(node,f,out)
        return node
class DeM(ast.NodeTransformer):
    def visit_If(self, n):
        self.generic_visit(n)
        t=n.test
        if isinstance(t, ast.BoolOp) and len(t.values)==2:
            cnt[0]+=1
            inner=ast.BoolOp(op=ast.Or() if isinstance(t.op, ast.And) else ast.And(), values=[ast.UnaryOp(op=ast.Not(), operand=v) for v in t.values])
            n.test=ast.copy_location(ast.UnaryOp(op=ast.Not(), operand=inner), t)
        return n
class Alias(ast.NodeTransformer):
    """res = self._clusters[c]['resources'] at the top of methods that use it at least twice"""
    def visit_FunctionDef(self, node):
        params=[a.arg for a in node.args.args]
        if 'c' not in params or not params or params[0]!='self': return node
        occ={}
        for n in ast.walk(node):
            if isinstance(n, ast.Subscript) and isinstance(n.slice, ast.Constant) and isinstance(n.value, ast.Subscript) \
                    and isinstance(n.value.slice, ast.Name) and n.value.slice.id=='c' and isinstance(n.value.value, ast.Attribute) \
                    and n.value.value.attr=='_clusters' and isinstance(n.ctx, ast.Load):
                occ.setdefault(n.slice.value, []).append(n)
        pre=[]
        for k, lst in occ.items():
            if len(lst)>=2 and isinstance(k,str) and k.isidentifier():
                nm='%s_alias' % k
                cnt[0]+=1
                pre.append(ast.Assign(targets=[ast.Name(id=nm,ctx=ast.Store())], value=copy.deepcopy(lst[0]), type_comment=None))
                class S(ast.NodeTransformer):
                    def visit_Subscript(self, n):
                        self.generic_visit(n)
                        if any(n is x for x in lst): return ast.copy_location(ast.Name(id=nm,ctx=ast.Load()), n)
                        return n
                for st in node.body: S().visit(st)
        if pre:
            i=1 if node.body and isinstance(node.body[0], ast.Expr) and isinstance(node.body[0].value, ast.Constant) else 0
            for x in pre: ast.copy_location(x, node.body[i] if i < len(node.body) else node)
            node.body[i:i]=pre
        return node
class Plus(ast.NodeTransformer):
    def visit_Expr(self, n):
        c=n.value
        if isinstance(c, ast.Call) and isinstance(c.func, ast.Attribute) and c.func.attr in ('append','extend') and len(c.args)==1 and not c.keywords \
                and isinstance(c.func.value,(ast.Name,ast.Attribute,ast.Subscript)) and not isinstance(c.args[0],(ast.GeneratorExp,)):
            tgt=copy.deepcopy(c.func.value)
            for x in ast.walk(tgt):
                if hasattr(x,'ctx'): x.ctx=ast.Load()
            tgt.ctx=ast.Store()
            val=ast.List(elts=[c.args[0]], ctx=ast.Load()) if c.func.attr=='append' else c.args[0]
            cnt[0]+=1
            return ast.copy_location(ast.AugAssign(target=tgt, op=ast.Add(), value=val), n)
        return n
class Ann(ast.NodeTransformer):
    def visit_FunctionDef(self, node):
        self.generic_visit(node); return node
    def visit_Assign(self, n):
        if len(n.targets)==1 and isinstance(n.targets[0], ast.Name):
            cnt[0]+=1
            return ast.copy_location(ast.AnnAssign(target=n.targets[0], annotation=ast.Constant(value='object'), value=n.value, simple=1), n)
        return n

class RenameLocals(ast.NodeTransformer):
    def visit_FunctionDef(self, node):
        params = {a.arg for a in node.args.args+node.args.kwonlyargs+node.args.posonlyargs}
        if node.args.vararg: params.add(node.args.vararg.arg)
        if node.args.kwarg: params.add(node.args.kwarg.arg)
        glob_ = set()
        stores = set()
        nested_defs = set()
        for n in ast.walk(node):
            if isinstance(n, (ast.Global, ast.Nonlocal)): glob_ |= set(n.names)
            if isinstance(n, ast.Name) and isinstance(n.ctx, (ast.Store, ast.Del)): stores.add(n.id)
            if isinstance(n, (ast.FunctionDef, ast.Lambda)) and n is not node:
                # names used in nested scopes: keep simple, skip renaming names that are params of nested
                if isinstance(n, ast.FunctionDef): nested_defs.add(n.name)
                for a in n.args.args: glob_.add(a.arg)
            if isinstance(n, ast.ExceptHandler) and n.name: glob_.add(n.name)
        loc = stores - params - glob_ - nested_defs
        m = {x: x+suffix for x in loc if not x.startswith('_')}
        cnt[0] += len(m)
        class S(ast.NodeTransformer):
            def visit_Name(self, n):
                if n.id in m: n.id = m[n.id]
                return n
        for st in node.body:
            S().visit(st)
        return node


class SwapIf(ast.NodeTransformer):
    def visit_If(self, node):
        self.generic_visit(node)
        if node.orelse and not (len(node.orelse)==1 and isinstance(node.orelse[0], ast.If)):
            t=node.test
            cnt[0] += 1
            nt = t.operand if isinstance(t, ast.UnaryOp) and isinstance(t.op, ast.Not) else ast.UnaryOp(op=ast.Not(), operand=t)
            return ast.copy_location(ast.If(test=nt, body=node.orelse, orelse=node.body), node)
        return node


class Inline(ast.NodeTransformer):
    """x = <call-free expr>; <next statement reads x once> (x bound and read nowhere else) -> substituted"""
    def visit_FunctionDef(self, node):
        self.generic_visit(node)
        loads, stores = {}, {}
        for n in ast.walk(node):
            if isinstance(n, ast.Name):
                d = loads if isinstance(n.ctx, ast.Load) else stores
                d[n.id] = d.get(n.id, 0) + 1
        def blk(stmts):
            i = 0
            while i < len(stmts):
                st = stmts[i]
                for f in ('body', 'orelse', 'finalbody'):
                    v = getattr(st, f, None)
                    if isinstance(v, list) and v and isinstance(v[0], ast.stmt) and not isinstance(st, (ast.FunctionDef, ast.ClassDef)):
                        blk(v)
                if isinstance(st, ast.Assign) and len(st.targets) == 1 and isinstance(st.targets[0], ast.Name) and i + 1 < len(stmts) \
                        and loads.get(st.targets[0].id) == 1 and stores.get(st.targets[0].id) == 1 \
                        and not any(isinstance(x, (ast.Call, ast.Yield, ast.YieldFrom, ast.Lambda, ast.ListComp, ast.DictComp, ast.GeneratorExp)) for x in ast.walk(st.value)) \
                        and isinstance(stmts[i + 1], (ast.Assign, ast.Expr, ast.Return, ast.AugAssign)):
                    nm = st.targets[0].id
                    nxt = stmts[i + 1]
                    uses = [x for x in ast.walk(nxt) if isinstance(x, ast.Name) and x.id == nm and isinstance(x.ctx, ast.Load)]
                    if len(uses) == 1:
                        class S(ast.NodeTransformer):
                            def visit_Name(self, n):
                                return copy.deepcopy(st.value) if n is uses[0] else n
                        stmts[i + 1] = S().visit(nxt)
                        del stmts[i]
                        cnt[0] += 1
                        continue
                i += 1
        blk(node.body)
        return node


class Unfold(ast.NodeTransformer):
    """y = [E for x in S if C]  ->  y = []; for x in S: if C: y.append(E)"""
    def generic_visit(self, node):
        super().generic_visit(node)
        for f in ('body', 'orelse', 'finalbody'):
            v = getattr(node, f, None)
            if isinstance(v, list) and v and isinstance(v[0], ast.stmt):
                out = []
                for st in v:
                    if isinstance(st, ast.Assign) and len(st.targets) == 1 and isinstance(st.targets[0], ast.Name) and isinstance(
                            st.value, ast.ListComp) and len(st.value.generators) == 1 and not any(
                                isinstance(x, ast.Name) and x.id == st.targets[0].id for x in ast.walk(st.value)):
                        g = st.value.generators[0]
                        y = st.targets[0].id
                        app = ast.Expr(value=ast.Call(func=ast.Attribute(value=ast.Name(id=y, ctx=ast.Load()), attr='append', ctx=ast.Load()),
                                                      args=[st.value.elt], keywords=[]))
                        body = [app]
                        for c in reversed(g.ifs):
                            body = [ast.If(test=c, body=body, orelse=[])]
                        out.append(ast.copy_location(ast.Assign(targets=[ast.Name(id=y, ctx=ast.Store())], value=ast.List(elts=[], ctx=ast.Load()), type_comment=None), st))
                        out.append(ast.copy_location(ast.For(target=g.target, iter=g.iter, body=body, orelse=[], type_comment=None), st))
                        cnt[0] += 1
                    else:
                        out.append(st)
                setattr(node, f, out)
        return node


class Nest(ast.NodeTransformer):
    """if a and b: X (no else) -> if a: if b: X ;  if a: (only) if b: X -> if a and b: X"""
    def visit_If(self, n):
        self.generic_visit(n)
        if not n.orelse and isinstance(n.test, ast.BoolOp) and isinstance(n.test.op, ast.And) and len(n.test.values) == 2:
            cnt[0] += 1
            inner = ast.copy_location(ast.If(test=n.test.values[1], body=n.body, orelse=[]), n)
            return ast.copy_location(ast.If(test=n.test.values[0], body=[inner], orelse=[]), n)
        if not n.orelse and len(n.body) == 1 and isinstance(n.body[0], ast.If) and not n.body[0].orelse \
                and not isinstance(n.test, ast.BoolOp) and not isinstance(n.body[0].test, ast.BoolOp):
            cnt[0] += 1
            return ast.copy_location(ast.If(test=ast.BoolOp(op=ast.And(), values=[n.test, n.body[0].test]), body=n.body[0].body, orelse=[]), n)
        return n


KINDS = {'inline': Inline, 'unfold': Unfold, 'nest': Nest, 'locals': RenameLocals, 'swapif': SwapIf, 'cmp': Cmp, 'aug': Aug, 'tmp': Tmp, 'len': Len, 'guard': Guard, 'dem': DeM,
         'alias': Alias, 'plus': Plus, 'ann': Ann}


def files(root):
    return [p for p in glob.glob(root + '/topsim/**/*.py', recursive=True) if '/utils/' not in p and '/recipes/' not in p]


def rename_private(root):
    trees = {p: ast.parse(open(p).read()) for p in files(root)}
    names = set()
    for t in trees.values():
        for n in ast.walk(t):
            if isinstance(n, ast.ClassDef):
                for b in n.body:
                    if isinstance(b, ast.FunctionDef) and b.name.startswith('_') and not b.name.startswith('__'):
                        names.add(b.name)
    m = {n: n + '_impl' for n in names}
    for p, t in trees.items():
        for n in ast.walk(t):
            if isinstance(n, ast.FunctionDef) and n.name in m:
                n.name = m[n.name]
            elif isinstance(n, ast.Attribute) and n.attr in m:
                n.attr = m[n.attr]
        code = ast.unparse(t)
        compile(code, p, 'exec')
        open(p, 'w').write(code)
    return len(m)


def main():
    kinds = sys.argv[1:] or list(KINDS) + ['private']
    bad = 0
    for k in kinds:
        tmp = tempfile.mkdtemp(prefix='xf_')
        try:
            shutil.copytree('/repo/topsim', tmp + '/topsim', ignore=shutil.ignore_patterns('__pycache__'))
            cnt[0] = 0
            if k == 'private':
                n = rename_private(tmp)
            else:
                for p in files(tmp):
                    t = ast.parse(open(p).read())
                    KINDS[k]().visit(t)
                    ast.fix_missing_locations(t)
                    code = ast.unparse(t)
                    compile(code, p, 'exec')
                    open(p, 'w').write(code)
                n = cnt[0]
            out = []
            for i in range(1, 20):
                c = 'C%02d' % i
                r = subprocess.run(['/venv/bin/python', '-B', '-m', 'sa.cli', c, '--repo', tmp, '--no-evidence'], cwd='/verif',
                                   capture_output=True, text=True)
                if r.returncode != 0:
                    out.append('%s=%d' % (c, r.returncode))
                    for l in r.stdout.splitlines():
                        if l.strip().startswith(('rule', 'ANALYSIS')):
                            print('      %s: %s' % (c, l.strip().replace(tmp + '/', '')[:220]))
                            break
            print('%-8s %4d site(s)  %s' % (k, n, ' '.join(out) or 'all 19 checks silent'), flush=True)
            bad += bool(out)
        finally:
            shutil.rmtree(tmp, ignore_errors=True)
    sys.exit(1 if bad else 0)


if __name__ == '__main__':
    main()
