#!/usr/bin/env python3
"""Detection under refactoring: every seeded bug is applied to a scratch copy, then one of the
package-wide behaviour-preserving transformations of tools_xform.py is applied ON TOP, and the check
of the bug's own property must still report it.  (Not one of the registered checks.)
usage: [ONLY=<substring of seed id>] tools_xform_bugs.py [kind ...]     default kinds: locals cmp tmp"""
import ast, glob, json, os, shutil, subprocess, sys, tempfile
from concurrent.futures import ProcessPoolExecutor
import tools_xform as X


def one(job):
    d, kind = job
    n = os.path.basename(d)
    prop = json.load(open(d + '/meta.json')).get('property') or n[:3]
    tmp = tempfile.mkdtemp(prefix='xb_')
    try:
        shutil.copytree('/repo/topsim', tmp + '/topsim', ignore=shutil.ignore_patterns('__pycache__'))
        r = subprocess.run(['git', 'apply', '--unsafe-paths', '--directory=' + tmp, d + '/patch.diff'], capture_output=True, text=True)
        if r.returncode != 0:
            return n, kind, prop, 'apply-failed'
        try:
            if kind == 'private':
                X.rename_private(tmp)
            else:
                for p in X.files(tmp):
                    t = ast.parse(open(p).read())
                    X.KINDS[kind]().visit(t)
                    ast.fix_missing_locations(t)
                    code = ast.unparse(t)
                    compile(code, p, 'exec')
                    open(p, 'w').write(code)
        except Exception as e:
            return n, kind, prop, 'xform-failed %r' % (e,)
        r = subprocess.run(['/venv/bin/python', '-B', '-m', 'sa.cli', prop, '--repo', tmp, '--no-evidence'], cwd='/verif',
                           capture_output=True, text=True)
        return n, kind, prop, r.returncode
    finally:
        shutil.rmtree(tmp, ignore_errors=True)


def main():
    kinds = sys.argv[1:] or ['locals', 'cmp', 'tmp']
    jobs = []
    for d in sorted(glob.glob('/verif/seeded/*/')):
        d = d.rstrip('/')
        n = os.path.basename(d)
        m = json.load(open(d + '/meta.json'))
        if 'benign' in n or m.get('kind', '').startswith(('behaviour', 'refactoring', 'benign')):
            continue
        if os.environ.get('ONLY') and os.environ['ONLY'] not in n:
            continue          # e.g. ONLY=-r7- : one round's seeds
        for k in kinds:
            jobs.append((d, k))
    bad = 0
    with ProcessPoolExecutor(max_workers=12) as ex:
        for n, kind, prop, rc in ex.map(one, jobs, chunksize=2):
            if rc != 1:
                bad += 1
                print('%-16s %-8s %s -> %s' % (n, kind, prop, rc), flush=True)
    print('%d bug x transform combinations, %d not reported by the own property' % (len(jobs), bad))


if __name__ == '__main__':
    main()
