#!/venv/bin/python
"""
Concrete reproducers used ONLY to triage static findings (genuine defect vs.
false alarm).  Never run by a registered check.  See triage/README.md.

usage: /venv/bin/python triage/repro.py <case>|all [--repo /repo]
"""
import atexit
import json
import os
import shutil
import sys
import tempfile
import warnings

warnings.simplefilter("ignore")
REPO = "/repo"
if "--repo" in sys.argv:
    REPO = sys.argv[sys.argv.index("--repo") + 1]
sys.path.insert(0, REPO)

import simpy  # noqa: E402
import topsim.core.scheduler as _S  # noqa: E402
from topsim.core.simulation import Simulation  # noqa: E402
from topsim.core.task import Task  # noqa: E402
from topsim.core.machine import Machine  # noqa: E402
from topsim.core.delay import DelayModel  # noqa: E402
from topsim.user.telescope import Telescope  # noqa: E402
from topsim.user.plan.batch_planning import BatchPlanning  # noqa: E402
from topsim.user.schedule.batch_allocation import BatchProcessing  # noqa: E402
from topsim.user.schedule.queue_allocation import QueueProcessing  # noqa: E402


class _NoBar:
    def __init__(self, *a, **k): pass
    def update(self, *a, **k): pass
    def close(self): pass


_S.tqdm = _NoBar
TMP = tempfile.mkdtemp(prefix="topsim-triage-")
atexit.register(shutil.rmtree, TMP, ignore_errors=True)


def _wf(path, nodes, edges):
    g = {"directed": True, "multigraph": False, "graph": {},
         "nodes": [dict(id=n, comp=c, **({'task_data': d} if d is not None else {}))
                   for n, c, d in nodes],
         "edges": [dict(source=u, target=v, transfer_data=w) for u, v, w in edges]}
    json.dump({"graph": g}, open(path, 'w'))


def mkcfg(name, obs, machines, hot=(500, 50), cold=(500, 50), total_arrays=36,
          max_ingest=5, pipelines=None, timestep='seconds'):
    d = os.path.join(TMP, name)
    os.makedirs(d, exist_ok=True)
    pp = {}
    for pname, (nodes, edges, demand) in pipelines.items():
        _wf(os.path.join(d, f'{pname}.json'), nodes, edges)
        pp[pname] = {"workflow": f'{pname}.json', "ingest_demand": demand}
    cfg = {"instrument": {"telescope": {
        "total_arrays": total_arrays, "max_ingest_resources": max_ingest,
        "pipelines": pp,
        "observations": [dict(name=n, start=s, duration=du, instrument_demand=dem,
                              data_product_rate=r) for n, s, du, dem, r in obs]}},
        "cluster": {"system": {"resources": {m: {"flops": f, "compute_bandwidth": b}
                                             for m, f, b in machines},
                               "system_bandwidth": 1.0}},
        "buffer": {"hot": {"capacity": hot[0], "max_ingest_rate": hot[1]},
                   "cold": {"capacity": cold[0], "max_data_rate": cold[1]}},
        "timestep": timestep}
    p = os.path.join(d, 'cfg.json')
    json.dump(cfg, open(p, 'w'))
    return p


def sim(cfgpath, sched=None, delay=None):
    env = simpy.Environment()
    s = Simulation(env, cfgpath, Telescope, BatchPlanning('batch'), 'batch',
                   sched or BatchProcessing(min_resources_per_workflow=1),
                   delay=delay, timestamp=0)
    return env, s


ONE = ([('a', 10, None)], [], 2)
CHAIN = ([('a', 10, None), ('b', 20, None), ('c', 10, None)],
         [('a', 'b', 5), ('b', 'c', 5)], 2)
M6 = [(f'm{i}', 10, 10) for i in range(6)]
CASES = {}


def case(f):
    CASES[f.__name__] = f
    return f


@case
def c19_cluster_is_idle():
    """C19/C04: Cluster.is_idle() must be False while ingest tasks run."""
    p = mkcfg('c19', [('emu', 0, 5, 10, 4)], M6[:4], pipelines={'emu': ONE})
    env, s = sim(p, QueueProcessing())
    env.process(s.cluster.provision_ingest_resources(2, s.instrument.observations[0]))
    env.run(until=1)
    print("running:", s.cluster._tasks['running'], "ingest pool:",
          s.cluster._resources['ingest'], "-> is_idle() =", s.cluster.is_idle(),
          "(property: False)")


@case
def c02_alloc_on_ingest_machine():
    """C02/C01 at the Cluster API: a workflow allocation on a machine that is
    running ingest must be refused and leave the pools unchanged."""
    p = mkcfg('c02', [('emu', 0, 5, 10, 4)], M6[:4], pipelines={'emu': ONE})
    env, s = sim(p, QueueProcessing())
    cl = s.cluster
    env.process(cl.provision_ingest_resources(2, s.instrument.observations[0]))
    env.run(until=1)
    m = cl._resources['ingest'][0]
    t = Task('wf_0', 0, 2, m.id, [], flops=20)
    env.process(cl.allocate_task_to_cluster(t, m, observation='x'))
    try:
        env.run(until=2)
        print("ACCEPTED: running =", cl._tasks['running'], "usage =", cl._usage_data,
              "(property: refused with an error, pools unchanged)")
    except RuntimeError as e:
        print("refused with RuntimeError (property holds):", e)


@case
def c12_ingest_counter_overlap():
    """C12/C02: 'ingest_resources' column with overlapping ingests."""
    p = mkcfg('c12', [('emu', 1, 3, 10, 4), ('dingo', 2, 6, 10, 3)], M6,
              pipelines={'emu': CHAIN, 'dingo': CHAIN})
    env, s = sim(p, QueueProcessing())
    s.start(runtime=1)
    for t in range(2, 12):
        s.resume(t)
    df = s.monitor.df
    print(df[['ingest_resources', 'available_resources', 'running_tasks']].to_string())
    print("(property: rows 5-7 must report 2 machines on ingest, dingo runs t=2..7)")


@case
def c05_provision_ingest_leak():
    """C05: an observation refused for buffer space while machines are free
    must only be postponed."""
    long = ([('a', 300, None)], [], 2)
    p = mkcfg('c05a', [('emu', 0, 5, 10, 10), ('dingo', 6, 5, 10, 10)], M6,
              hot=(90, 50), pipelines={'emu': long, 'dingo': ONE})
    env, s = sim(p, QueueProcessing())
    s.start(runtime=200)
    print("t=200 provision_ingest =", s.scheduler.provision_ingest, "status =",
          [o.status.value for o in s.instrument.observations],
          "(property: both FINISHED, counter 0)")


@case
def c05_threshold_indexerror():
    """C05: hot buffer filling beyond the 0.6 threshold during ingest."""
    p = mkcfg('c05b', [('emu', 0, 9, 10, 10)], M6, hot=(100, 50),
              pipelines={'emu': ONE})
    env, s = sim(p, QueueProcessing())
    try:
        s.start(runtime=100)
        print("no exception; finished =", s.is_finished())
    except Exception as e:
        print("EXC", type(e).__name__, e, "at t =", env.now, "(property: never raises)")


@case
def c06_zero_duration():
    """C06: sub-step work must take exactly one step (monotone)."""
    for fl in (5, 10, 20):
        env = simpy.Environment()
        m = Machine('m', 10, 1, 1, 10)
        t = Task('t', 0, 0, None, [], flops=fl, task_data=0, io={})
        env.process(t.do_work(env, m))
        env.run()
        print("flops", fl, "runtime formula", max(int(fl / 10), 0), "aft-ast =",
              t.aft - t.ast, "(property: max(1, formula))")


@case
def c10_hashseed():
    """C10: run this case under different PYTHONHASHSEED values and compare."""
    import hashlib
    fan = ([('r', 10, None), ('a', 10, None), ('b', 50, None), ('c', 90, None),
            ('d', 30, None), ('z', 10, None)],
           [('r', 'a', 5), ('r', 'b', 5), ('r', 'c', 5), ('r', 'd', 5),
            ('a', 'z', 1), ('b', 'z', 1), ('c', 'z', 1), ('d', 'z', 1)], 1)
    p = mkcfg('c10', [('emu', 0, 3, 10, 4)], [('m0', 10, 10), ('m1', 5, 10)],
              max_ingest=1, pipelines={'emu': fan})
    env, s = sim(p, QueueProcessing())
    df, tasks = s.start()
    print("PYTHONHASHSEED =", os.environ.get('PYTHONHASHSEED'), "task-table digest",
          hashlib.md5(tasks[['ast', 'aft']].to_csv().encode()).hexdigest(),
          "timesteps", len(df), "(property: identical for every seed)")


@case
def c11_pause_duplicates_events():
    """C11/C13: start(k)+resume must give the same event log as start()."""
    def mk():
        p = mkcfg('c11', [('emu', 0, 5, 10, 4)], M6, pipelines={'emu': CHAIN})
        return sim(p, QueueProcessing())
    env, s = mk()
    s.start()
    full = len(s.monitor.events)
    for k in (1, 6):
        env, s = mk()
        s.start(runtime=k)
        while not s.is_finished():
            s.resume(env.now + 1)
        s.monitor.collate_events()
        print("pause at", k, "-> event rows", len(s.monitor.events), "vs uninterrupted",
              full, "(property: equal)")


@case
def c13_buffer_events_lost():
    """C13: one 'buffer added' and one 'buffer removed' entry per observation."""
    p = mkcfg('c13', [('emu', 0, 5, 10, 4), ('dingo', 3, 4, 10, 3)], M6,
              pipelines={'emu': CHAIN, 'dingo': CHAIN})
    env, s = sim(p, QueueProcessing())
    s.start()
    ev = s.monitor.events
    print(ev[ev.actor == 'buffer'].to_string())
    print("(property: 2x added + 2x removed; observed rows above)")


@case
def c14_plan_predecessors():
    """C14: plan.get_task_predecessors must agree with the graph."""
    p = mkcfg('c14', [('emu', 0, 5, 10, 4)], M6, pipelines={'emu': CHAIN})
    env, s = sim(p, QueueProcessing())
    obs = s.instrument.observations[0]
    plan = s.planner.run(obs, s.buffer, None)
    b = plan.tasks[1]
    print("task", b, "graph preds", list(plan.graph.predecessors(b)), "plan query",
          list(plan.get_task_predecessors(b)), "(property: equal)")


@case
def c15_delay_model():
    """C15: never fails for the three documented distributions / runtime 0."""
    for dist in ('normal', 'poisson', 'uniform'):
        for rt in (0, 10):
            try:
                dm = DelayModel(1.0, dist, DelayModel.DelayDegree.LOW)
                print(dist, "runtime", rt, "->", dm.generate_delay(rt))
            except Exception as e:
                print(dist, "runtime", rt, "EXC", type(e).__name__, e)


@case
def c18_tier_rates():
    """C18: cold->hot with the hot tier slower than the cold tier."""
    p = mkcfg('c18', [('emu', 0, 5, 10, 4)], M6[:4], hot=(500, 5), cold=(500, 8),
              pipelines={'emu': ONE})
    for direction in ('cold_to_hot', 'hot_to_cold'):
        env, s = sim(p, QueueProcessing())
        b = s.buffer
        obs = s.instrument.observations[0]
        obs.total_data_size = 20
        src = b.cold[0] if direction == 'cold_to_hot' else b.hot[0]
        src.observations['stored'].append(obs)
        src.current_capacity -= 20
        env.process(getattr(b, 'move_' + direction)(0))
        try:
            for t in range(1, 6):
                env.run(until=t)
                print(direction, "t", t, "hot free", b.hot[0].current_capacity,
                      "cold free", b.cold[0].current_capacity)
        except Exception as e:
            print(direction, "EXC", type(e).__name__, e)
    print("(property: both directions move min(5, 8) = 5 per step, no error)")


@case
def c05_greedy_same_machine():
    """C05: greedy plan-following with two ready tasks planned on one machine."""
    import copy
    import networkx as nx
    from topsim.algorithms.planning import Planning
    from topsim.core.planner import WorkflowPlan, WorkflowStatus
    from topsim.user.schedule.greedy import GreedySchedulingFromPlan
    from topsim.user.schedule.dynamic_plan import DynamicSchedulingFromPlan

    class FakeStatic(Planning):
        """stands in for SHADOW: a fixed static plan a -> {b, c}, all on m0"""
        def __str__(self): return 'FakeStatic'
        def to_df(self): pass

        def generate_plan(self, clock, cluster, buffer, observation, max_ingest):
            mk = lambda n: self._create_observation_task_id(n, observation, clock)
            spec = {'a': (0, 1, []), 'b': (1, 3, ['a']), 'c': (3, 4, ['a'])}
            tasks = {n: Task(mk(n), est, eft, 'm0', [mk(p) for p in pred], 0, 0,
                             {mk(p): 1 for p in pred}, copy.copy(self.delay_model))
                     for n, (est, eft, pred) in spec.items()}
            g = nx.DiGraph()
            for n, (_, _, pred) in spec.items():
                g.add_node(tasks[n])
                for q in pred:
                    g.add_edge(tasks[q], tasks[n], transfer_data=1)
            tl = sorted(tasks.values(), key=lambda t: t.est)
            return WorkflowPlan(observation.name, 0, 4, tl, [t.id for t in tl],
                                WorkflowStatus.SCHEDULED, max_ingest, g)

    for alg in (GreedySchedulingFromPlan(), DynamicSchedulingFromPlan()):
        p = mkcfg('c05g', [('emu', 0, 3, 10, 4)], M6[:4], pipelines={'emu': ONE})
        env = simpy.Environment()
        s = Simulation(env, p, Telescope, FakeStatic('fake'), 'fake', alg, timestamp=0)
        try:
            df, tasks = s.start()
            print(type(alg).__name__, "completed in", len(df), "steps")
        except Exception as e:
            print(type(alg).__name__, "EXC", type(e).__name__, e,
                  "(property: never raises)")


if __name__ == '__main__':
    want = [a for a in sys.argv[1:] if not a.startswith('--') and a != REPO]
    names = list(CASES) if (not want or want == ['all']) else want
    for n in names:
        print(f"=== {n}: {CASES[n].__doc__.strip().splitlines()[0]}")
        CASES[n]()
