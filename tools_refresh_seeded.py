#!/usr/bin/env python3
"""recompute meta.json 'detected_by' of every /verif/seeded/<id>/ with the current checks
(the patch is applied to a scratch copy of /repo/topsim; nothing under /repo is touched)."""
import glob, json, os, sys
from concurrent.futures import ProcessPoolExecutor
sys.path.insert(0, '/verif')
from tools_r2_quick import one


def main():
    dirs = sorted(glob.glob('/verif/seeded/*/'))
    if sys.argv[1:]:          # only the named seeds
        dirs = [d for d in dirs if os.path.basename(d.rstrip('/')) in sys.argv[1:]]
    with ProcessPoolExecutor(max_workers=16) as ex:
        for (d, det), sd in zip(ex.map(one, [x + 'patch.diff' for x in dirs]), dirs):
            mp = sd + 'meta.json'
            m = json.load(open(mp))
            m['detected_by'] = {k: {'exit': v[0], 'report': v[1][:2]} for k, v in det.items()}
            m['detected_by_checked_at'] = os.popen('git -C /verif rev-parse --short HEAD').read().strip()
            json.dump(m, open(mp, 'w'), indent=1)
            benign = 'benign' in sd
            flag = ''
            if benign and det:
                flag = '  <-- ALARM on a behaviour-preserving change'
            if not benign and not any(v[0] == 1 for v in det.values()):
                flag = '  <-- MISSED'
            print('%-22s %s%s' % (os.path.basename(sd.rstrip('/')), {k: v[0] for k, v in det.items()} or '-', flag))


if __name__ == '__main__':
    main()
