#!/usr/bin/env python3
"""Regenerates MANIFEST.json from the table below (kept in one place so the
file is always schema-valid)."""
import json
import subprocess
from pathlib import Path

HERE = Path(__file__).resolve().parent

CLAIMS = {
    'C19': dict(
        technique='boolean-skeleton analysis over the AST (path enumeration + canonical literals)',
        text='Static, complete for the statement: every syntactic path on which an actor '
             'query returns true is shown to assert every required emptiness/equality atom; '
             'Simulation.is_finished is shown equivalent to the conjunction of the four queries. '
             'Holds for all states because it is a fact about all paths of five small functions.',
        note='Decides the queries against the named state fields; trusts CPython semantics of '
             'len/==/and/or and that the named fields are the state (checked by C02/C07 rules).',
        ref='DESIGN.md section 4, C19'),
}

CLAIMS.update({
    'C14': dict(
        technique='provenance (def-use) analysis of Task(...)/WorkflowPlan(...) arguments + per-iteration path rule',
        text='Static: one Task appended and mapped per node of topological_sort(graph) on every path of the '
             'node loop; every Task argument is shown to come from the right node/edge attribute of the '
             'workflow graph; the plan graph is relabel_nodes(graph, mapping); predecessor/successor queries '
             'call the graph in their own role; Task.__init__ and WorkflowPlan.__init__ store every planned value / the task list as given (G5: no re-sorting or filtering of the topological list); Task.id is never rewritten and readers of the plan (scheduler, algorithms) read the task list the plan was built with. Holds for every DAG because the rule is about the code shape.',
        note='Trusts the documented networkx API; BatchPlanning only (SHADOWPlanning needs the absent shadow library).',
        ref='DESIGN.md section 4, C14'),
    'C16': dict(
        technique='finite-world partial evaluation of the three unit ladders + affine scaling table',
        text='Static, complete for the statement up to float rounding: in six worlds (minutes, hours, two custom '
             'integers, seconds, unknown spelling) every feasible path of the three parse functions is evaluated; '
             'each of 14 quantities must be its own config key times m, divided by m (and then not rounded), or unscaled.',
        note='Quantities are assumed whole multiples of the unit; round() is treated as transparent.',
        ref='DESIGN.md section 4, C16'),
    'C17': dict(
        technique='provenance analysis of the allocation map + who-writes/who-calls rules over the call graph',
        text='Static: every machine the plan-following algorithm proposes for task t is the machine with id '
             't.allocated_machine_id; the planned machine is rewritten only by Task itself at the scheduler\'s '
             'request; the (task, machine) pair is passed unchanged from scheduler to cluster to do_work; the id table is '
             '{m.id: m for every machine m} and get_machine_from_id reads it; no Scheduler method adds a pair to a schedule itself; C02.P2 is adopted (machines leave a busy pool by identity).',
        note='Does not decide that the planned machine eventually becomes free (liveness).',
        ref='DESIGN.md section 4, C17'),
    'C10': dict(
        technique='package-wide determinism lint: set-typed dataflow, RNG seeding, clock/identity sinks, repr',
        text='Static lint over all topsim modules: order-sensitive iteration over hash-ordered sets (set-typedness '
             'propagated through call sites; a sort key is total only when it is the unique id itself), unseeded generators and generators kept in object state, wall-clock/id() flows outside the excluded '
             'timing sinks (followed through locals), seeds that are not the constructor argument, containers shared between '
             'instances or calls (class-level mutables, mutable defaults) and address-bearing text of algorithm objects are each reported. Given SimPy\'s '
             'deterministic queue these are the only sources that can make two runs differ.',
        note='Trusts SimPy/pandas determinism and insertion-ordered dicts; dead modules listed in the evidence are skipped.',
        ref='DESIGN.md section 4, C10'),
    'C15': dict(
        technique='sibling-agreement and path-dominance rules over the delay ladder; provenance of the returned delay',
        text='Static: every distribution branch must draw an array from default_rng(self.seed) and use the degree '
             'through .value; the returned value is an element of sample[sample > mean] or the runtime; the empty '
             'selection is guarded; degree 0 returns before any draw; do_work flags lengthened tasks (every path compares the duration as it stands - not a stale copy - with the delayed duration), the scheduler examines every task of the plan (the loop is not left early and stands under no further condition), nothing but '
             'Task.__init__ ever lowers delay_flag, and the scheduler reports DELAYED. The uniform branch is a recorded known finding.',
        note='Trusts numpy Generator semantics; distribution values themselves are not decided.',
        ref='DESIGN.md section 4, C15'),
})

CLAIMS.update({
    'C02': dict(
        technique='effect analysis over atomic blocks of the Cluster (path enumeration, helper/spawn inlining, membership facts)',
        text='Static: pool state is private to Cluster and getters return copies; in every atomic block (path piece '
             'between two yields, helpers and spawned children inlined, loop invariants inferred) every machine is '
             'either untouched or moved by one remove plus one append to a different pool (a remove that can refuse comes first); refusals precede effects '
             'and a helper\'s refusal status is never dropped; machines set aside for a reservation are by provenance '
             'elements of the available pool (so the bulk operation cannot be refused half-way); the usage counters move exactly with the containers '
             'they mirror and start as the sizes of those containers (P10); containers are per instance (no class-level mutables or mutable defaults); C04.T2 and C09.R4 are adopted. These are necessary conditions for exactly-one-pool and true counts at every instant.',
        note='Final state ("all machines available at the end") needs termination and is not decided. '
             'Assumes machines are unique objects and list.append/remove semantics.',
        ref='DESIGN.md section 4, C02'),
    'C05': dict(
        technique='reservation-pairing, loop-yield, release-reachability and partial-operation precondition rules (path dominance)',
        text='Static, NECESSARY CLAUSES ONLY - termination and the serial time bound are run-time quantities and '
             'are not decided: L1 the ingest reservation is taken only with a true verdict, the consumer starts ingest, '
             'ingest releases the same amount on every exit; L2 every while-cycle of every SimPy process yields; '
             'L3 batch partitions are released at workflow end (release judged by its effects); L4 every [-1]/pop on a tier stored list and every '
             'free-list remove is dominated by its precondition; L6 an algorithm takes a machine off its per-round free list only when it proposes it; '
             'L12 an algorithm drawing from the ready pool puts the successors of every proposed task into it (taint flow); L13 no process loop is dead (test constant false or contradicting the guards before it); L10/L11 every attribute and name read in a function reachable from the simulation entry points has a definition that can precede the read (else AttributeError/NameError); '
             'L5/L7/L8/L14/L16/L17 adopt the life-cycle, typestate, reservation-return, pending-volume, transfer-wait, ready-test, transfer-slot and refused-move-restores rules of C08, C04, C09, C18, C03.',
        note='Each clause is necessary: its violation makes a feasible configuration block forever or raise. Sufficiency is not claimed.',
        ref='DESIGN.md section 4, C05'),
    'C06': dict(
        technique='affine time-effect analysis of do_work per path + formula normal form + provenance',
        text='Static: calculate_runtime is max(floor(flops/cpu), floor(data/bandwidth)) in normal form; on every path of '
             'do_work the waits after the recorded start plus (aft - now) equal the total duration when it is >= 1 and '
             '1 otherwise; the total flows only from the delay model applied to the duration, and the plain duration is returned only on paths that established that there is no delay model; ingest tasks carry the '
             'observation duration and no work; C14.G2 and C16.K2 are adopted.',
        note='Non-negative demands/speeds (int(a/b) = floor). SimPy timeout semantics trusted.',
        ref='DESIGN.md section 4, C06'),
    'C11': dict(
        technique='guard-first / effect-freedom / single-registration rules + consume-once rule on the collation',
        text='Static: start and resume test the running flag and refuse before any effect; resume registers nothing '
             'and writes no state; every actor loop is registered exactly once, only in start; the event collation '
             'empties what it read (it runs twice for the pause step); processes sleep in whole steps; a new simulation is not running (initial state); what start does after the run (its tail) writes no simulation state.',
        note='Equality of whole trajectories follows from these plus SimPy determinism (witness checked against the installed SimPy); it is not proved as such.',
        ref='DESIGN.md section 4, C11'),
    'C12': dict(
        technique='registration-order rule, per-cycle path rule on Monitor.run, column provenance table, counter coupling over atomic blocks',
        text='Static: the monitor is the first registered process; each cycle appends exactly one row and sleeps one '
             'step; each of 11 columns reads the state field it names; the usage counters behind the cluster columns '
             'move with their containers in every atomic block (same analysis as C02.P4) and start as the sizes of those containers (C02.P10 adopted); C18.V4 (stored lists) and the shared-container lint are adopted.',
        note='SimPy order model verified against the installed source; values of the fields themselves are decided by C02/C07 rules.',
        ref='DESIGN.md section 4, C12'),
    'C13': dict(
        technique='event-table pairing rule over paths + SimPy process-order model (roots, registration order) for clear/emit/read ordering',
        text='Static: each of the eight life-cycle events has exactly one emit site, on exactly the paths of its '
             'transition, stamped env.now; the monitor collates all three lists (a path that skips one has seen it empty) and consumes them; no clear of a list '
             'can run between an emit into it and the monitor\'s next read, judged with the registration order of the '
             'actor loops and the actor each emitting/clearing process is rooted at; C08.A1/A8/A9 and C07.B3 (the transitions the events report) are adopted.',
        note='Numeric order of timestamps is not decided; it follows from emit-at-transition plus the spawn chain.',
        ref='DESIGN.md section 4, C13'),
})

CLAIMS.update({
    'C01': dict(
        technique='who-may-spawn rule, effect order on atomic blocks, dominance by the completion test, finite-world evaluation of the admission checks',
        text='Static: do_work is started only by the cluster/machine, allocations only by scheduler and ingest provisioning; '
             'the workflow path moves the machine into occupied before do_work starts, ingest removes it from available first; '
             'machines return to a free pool only under <handle>.triggered with the handle being this task\'s do_work process; '
             'C02.P2 and C06.W2 are adopted; and for each hazardous proposal (occupied, on ingest, reserved for another observation, duplicated in a round) '
             'at least one defence is effective - the scheduler guard (dominance) or the cluster check (five membership worlds).',
        note='Defences are judged disjunctively on purpose (defence in depth): removing a redundant guard leaves the property true. Pool disjointness comes from C02.',
        ref='DESIGN.md section 4, C01'),
    'C03': dict(
        technique='path dominance with idiom recognition (no-predecessor / counting / subset / all), completion-test dominance, argument-flow chain, affine match of the wait formula',
        text='Static: every proposal of a task in the four shipped algorithms is dominated by "no predecessors" or an '
             'all-predecessors-finished fact; tasks enter the finished table only under the completion test; cross-machine '
             'predecessors (only) are collected, passed through cluster to do_work, waited for before ast is recorded; the wait '
             'is the running maximum of p.aft + io[p.id]/machine.bandwidth - now with the receiving machine\'s bandwidth; C14.G2 (task ids/predecessor queries) is adopted; every submitted task is entered in the allocation record as (task, machine); the process watching a task sleeps only whole steps (never waits on the work process itself).',
        note='Exact start equality under concurrency is timing and not decided.',
        ref='DESIGN.md section 4, C03'),
    'C04': dict(
        technique='typestate lint over all task_status writes, move/pairing path rules, loop-shape rule for the termination predicate; adopts C19 and C11.U3',
        text='Static necessary conditions: hand-off stored->scheduled is one pop+append handing out the moved observation and queueing+spawn happen together; task '
             'status writes follow the life cycle with FINISHED only under the completion test; a submitted task leaves '
             'UNSCHEDULED at once, stale proposals are refused, duplicates in a round are skipped; finished tasks (only) leave '
             'the plan; workflows close only when nothing is left; start() returns only when is_finished(); the scheduler releases reservations itself (C09.R4 adopted); the hot buffer hands out for processing the observation it moves to the cold tier (T10); the allocation loop of a workflow generates, submits and carries over its schedule every round and is left only when the workflow is reported finished (T12), a submitted proposal leaves the schedule (T8), the completion path writes FINISHED, the open-ended start() takes the run-to-completion loop, C08.A7 is adopted (T11); the scheduler actor is alive and asks the buffer every round unconditionally (T14); pool scans are left early only for task-independent reasons (T15); the remaining-task filter is equivalent to not-FINISHED; C05.L4c is adopted (T16).',
        note='Liveness (every task is eventually offered) and final values are not decided.',
        ref='DESIGN.md section 4, C04'),
    'C07': dict(
        technique='per-iteration effect pairing with affine operands, countdown-idiom summary, dominance of the rate refusal, who-writes lint; adopts C18 tables',
        text='Static conservation clauses: every ingest step takes the data rate from the hot tier and adds the same rate to the '
             'observation; the countdown idiom runs the deposit duration times (sibling agrees); remove frees exactly '
             'total_data_size once for a resident observation; rate above the limit raises before the decrement; only the tiers '
             'write current_capacity; an observation starts with no data (initial state); C18.V4/V5 and C04.T14 are adopted (a refused move changes nothing; the scheduler polls every round); admission requires room for the whole volume in both tiers.',
        note='The bounds 0 <= free <= capacity and "full at the end" are values and are not decided; admission does not reserve data still to come (DESIGN.md section 6).',
        ref='DESIGN.md section 4, C07'),
    'C08': dict(
        technique='dominance of the start by the admission calls, boolean skeletons of five admission predicates with affine atoms, typestate/who-writes rules',
        text='Static: begin_observation and the ingest spawn are dominated by is_ready(now, total_arrays - telescope_use computed '
             'per observation) and the scheduler check; each predicate\'s true verdict implies its required atoms (start time, arrays, '
             'WAITING; buffer and cluster checks, pending+demand<=max with reservation; available>=demand, ingest+demand<=max; room '
             'for rate*duration in both tiers); ingest takes exactly demand machines; status and telescope_use follow their life cycle and start at zero / not-in-use (initial state) (writes through ast-level aliases included); C05.L1 and C06.W4 are adopted; the per-observation loop of Telescope.run has no early exit (A14).',
        note='"Starts exactly on time when idle" and same-step admissions reading stale pools are not decided.',
        ref='DESIGN.md section 4, C08'),
    'C09': dict(
        technique='provenance of proposed machines, dominance of the provisioning call, size expression match, predicate skeleton; adopts C01/C02/C05 rules',
        text='Static: BatchProcessing proposes only machines from get_idle_resources(plan.id) when provisioned; provisioning is '
             'dominated by not-provisioned, partitions free and size >= minimum; the size is floor(machines/partitions) capped by '
             'availability or the per-observation split (never below its minimum); finished tasks return machines to the owner; '
             'exclusivity and release are adopted from C01.N3/N5, C02.P2/P4, C05.L3 and C04.T2; reads of the reservation table are dominated by a membership test (C05.L4c); the reservation count starts at 0, is +1 per successful provisioning and -1 per dropped key (R7); C04.T3 is adopted (R8).',
        note='Counts at run time follow from these guards plus the counter rule; not enumerated.',
        ref='DESIGN.md section 4, C09'),
    'C18': dict(
        technique='decision tables (rate sign x residual<rate) of the tier arithmetic in affine form, sibling agreement receiver/sender, refusal-restores path rule',
        text='Static: per move loop the receiving and sending tier are driven by the same rate; per case the receiver\'s capacity '
             'delta is minus the sender\'s and equals minus the data moved, residuals agree and the loop raises otherwise; the '
             'source pops into its transfer slot and the receiver stores exactly when the residual reaches 0; the refusing path '
             'restores everything; room is asked for the observation that is moved and the loop runs exactly while data is left. The hot->cold direction moving at the cold rate (not the slower of the two) is a recorded known finding.',
        note='Rates are assumed non-zero. The step count ceil(size/rate) follows from the tables and is not computed.',
        ref='DESIGN.md section 4, C18'),
})

NOT_YET = 'check under construction in this session (see DESIGN.md section 4); not claimed until its command exists'


def main():
    props = [json.loads(l)['id'] for l in (HERE / 'properties.jsonl').read_text().splitlines() if l.strip()]
    try:
        commits = subprocess.run(
            ['git', '-C', '/repo', 'log', '--format=%h %s', '--grep=^fix:'],
            capture_output=True, text=True).stdout.strip().splitlines()
    except Exception:
        commits = []
    checks = []
    na = []
    for p in props:
        c = CLAIMS.get(p)
        if not c:
            na.append({'property_id': p, 'reason': NA.get(p, NOT_YET)})
            continue
        checks.append({
            'property_id': p,
            'quick_cmd': './check %s --tier quick' % p,
            'thorough_cmd': './check %s --tier thorough' % p,
            'evidence_file': 'evidence/%s.json' % p,
            'replay_cmd_template': './check %s --explain {path}' % p,
            'engine': 'sa',
            'level_claimed': {'category': 'other', 'text': c['text'], 'design_ref': c['ref']},
            'level_note': c['note'],
            'technique': 'static analysis: ' + c['technique'],
        })
    man = {
        'version': 1,
        'setup_cmd': '/venv/bin/python -m compileall -q sa || python3 -m compileall -q sa',
        'hooks': {
            'guard': 'TOP_SIM_TOPSIM_VERIF',
            'enable': 'none: static analysis reads the source; no hook exists in /repo and the variable is unused',
            'baseline_off_cmd': 'cd /repo && /venv/bin/python -m pytest -ra -q -p no:cacheprovider --timeout=900 --continue-on-collection-errors',
            'source_commits': [c.split()[0] for c in commits],
            'add_only': True,
        },
        'engines': [{
            'name': 'sa', 'path': 'sa/',
            'serves_properties': sorted(CLAIMS),
            'kind_free_text': 'repository-specific static analyser on the stdlib ast: index + receiver '
                              'typing + call resolution, acyclic path enumeration with call/spawn '
                              'inlining, canonical locations/effects, boolean skeletons, affine forms',
        }],
        'checks': checks,
        'not_applicable': na,
        'notes': 'All checks are static (no topsim code is imported or executed). '
                 'Exit 2 + ANALYSIS-ERROR means the analysis could not give a verdict. '
                 'fix: commits in /repo: ' + '; '.join(commits),
    }
    (HERE / 'MANIFEST.json').write_text(json.dumps(man, indent=1) + '\n')


NA = {}

if __name__ == '__main__':
    main()
