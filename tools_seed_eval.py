#!/usr/bin/env python3
"""Evaluate sub-agent seeded changes.

tools_seed_eval.py <Cnn> [--keep]  : for every /tmp/seed/<Cnn>_out/change<i>.diff
  1. confirm it: applies to a clean scratch worktree of /repo HEAD, baseline suite
     still gives the 30 passes, demo<i>.py PASSes (0) on the clean tree and FAILs (1)
     on the changed tree;
  2. run EVERY claimed check against the changed tree (./check Cxx --repo <tree>);
  3. print a table; with --keep copy confirmed ones to /verif/seeded/<Cnn>-<i>/.
Scratch worktrees live under /tmp/seedchk and are removed afterwards.
"""
import glob
import json
import os
import re
import shutil
import subprocess
import sys

PY = '/venv/bin/python'
PYTEST = [PY, '-m', 'pytest', '-q', '-p', 'no:cacheprovider', '--timeout=900',
          '--continue-on-collection-errors']


def sh(cmd, cwd=None, timeout=900):
    r = subprocess.run(cmd, cwd=cwd, capture_output=True, text=True, timeout=timeout)
    return r.returncode, r.stdout + r.stderr


def baseline_ok(tree):
    rc, out = sh(PYTEST, cwd=tree)
    m = re.search(r'(\d+) passed', out)
    return (m and int(m.group(1)) == 30), out.strip().splitlines()[-1] if out.strip() else ''


def claimed():
    return sorted(os.path.basename(f)[:-3].upper() for f in glob.glob('/verif/sa/props/c[0-9][0-9].py'))


def main():
    pid = sys.argv[1]
    keep = '--keep' in sys.argv
    rnd = 2 if '--round2' in sys.argv else 1
    if rnd == 2:
        return round2(pid, keep)
    outdir = '/tmp/seed/%s_out' % pid
    diffs = sorted(glob.glob(outdir + '/change*.diff'))
    os.makedirs('/tmp/seedchk', exist_ok=True)
    clean = '/tmp/seedchk/%s_clean' % pid
    sh(['git', '-C', '/repo', 'worktree', 'remove', '--force', clean])
    sh(['git', '-C', '/repo', 'worktree', 'add', '--detach', clean, 'HEAD'])
    props = claimed()
    rows = []
    try:
        for d in diffs:
            i = re.search(r'change(\d+)\.diff', d).group(1)
            demo = '%s/demo%s.py' % (outdir, i)
            tree = '/tmp/seedchk/%s_%s' % (pid, i)
            sh(['git', '-C', '/repo', 'worktree', 'remove', '--force', tree])
            sh(['git', '-C', '/repo', 'worktree', 'add', '--detach', tree, 'HEAD'])
            row = {'id': '%s-%s' % (pid, i), 'diff': d}
            try:
                rc, out = sh(['git', '-C', tree, 'apply', d])
                row['applies'] = rc == 0
                if rc != 0:
                    row['error'] = out[-300:]
                    rows.append(row)
                    continue
                ok, line = baseline_ok(tree)
                row['baseline_30'] = bool(ok)
                row['baseline_line'] = line
                rc_c, out_c = sh([PY, demo, clean], timeout=600)
                rc_m, out_m = sh([PY, demo, tree], timeout=600)
                row['demo_clean'] = rc_c
                row['demo_changed'] = rc_m
                row['demo_msg'] = [l for l in out_m.splitlines() if l.startswith('FAIL')][:1]
                row['confirmed'] = bool(ok) and rc_c == 0 and rc_m == 1
                det = {}
                for p in props:
                    rc, out = sh(['/verif/check', p, '--repo', tree, '--no-evidence'])   # never rewrite /verif/evidence from a scratch tree
                    if rc != 0:
                        lines = [l.strip() for l in out.splitlines() if l.strip().startswith(('rule', 'ANALYSIS'))]
                        det[p] = (rc, lines[:2])
                row['detected_by'] = {k: v for k, v in det.items()}
                row['own_check'] = det.get(pid, (0, []))[0]
                rows.append(row)
                if keep and row['confirmed']:
                    dst = '/verif/seeded/%s-%s' % (pid, i)
                    os.makedirs(dst, exist_ok=True)
                    shutil.copy(d, dst + '/patch.diff')
                    shutil.copy(demo, dst + '/demo.py')
                    note = '%s/note%s.txt' % (outdir, i)
                    note_txt = open(note).read() if os.path.exists(note) else ''
                    meta = {
                        'property': pid,
                        'seed_id': '%s-%s' % (pid, i),
                        'origin': 'independent sub-agent given only the property text and a scratch worktree',
                        'needs_to_manifest': note_txt.strip(),
                        'confirmed': {
                            'applies_to': subprocess.run(['git', '-C', '/repo', 'rev-parse', '--short', 'HEAD'],
                                                         capture_output=True, text=True).stdout.strip(),
                            'baseline': row['baseline_line'],
                            'demo_on_clean_tree_exit': rc_c,
                            'demo_on_changed_tree_exit': rc_m,
                            'demo_message': row['demo_msg'],
                            'commands': ['git apply patch.diff (scratch worktree of /repo HEAD)',
                                         ' '.join(PYTEST),
                                         '/venv/bin/python demo.py <clean tree>   -> exit 0 PASS',
                                         '/venv/bin/python demo.py <changed tree> -> exit 1 FAIL'],
                        },
                        'checks_run': './check <each claimed property> --repo <changed tree>',
                        'detected_by': {k: {'exit': v[0], 'report': v[1]} for k, v in det.items()},
                    }
                    json.dump(meta, open(dst + '/meta.json', 'w'), indent=1)
            finally:
                sh(['git', '-C', '/repo', 'worktree', 'remove', '--force', tree])
    finally:
        sh(['git', '-C', '/repo', 'worktree', 'remove', '--force', clean])
        sh(['git', '-C', '/repo', 'worktree', 'prune'])
    for r in rows:
        det = r.get('detected_by', {})
        print('%-7s applies=%s base30=%s demo(clean,changed)=(%s,%s) CONFIRMED=%s own=%s detected_by=%s' % (
            r['id'], r.get('applies'), r.get('baseline_30'), r.get('demo_clean'), r.get('demo_changed'),
            r.get('confirmed'), r.get('own_check'), {k: v[0] for k, v in det.items()} or '-'))
        for k, v in det.items():
            for l in v[1][:1]:
                print('          %s: %s' % (k, l[:200]))
        if r.get('demo_msg'):
            print('          demo: %s' % r['demo_msg'][0][:200])
    json.dump(rows, open('/tmp/seedchk/%s_rows.json' % pid, 'w'), indent=1, default=str)


def run_checks(tree, props):
    det = {}
    for p in props:
        rc, out = sh(['/verif/check', p, '--repo', tree, '--no-evidence'])   # never rewrite /verif/evidence from a scratch tree
        if rc != 0:
            lines = [l.strip() for l in out.splitlines() if l.strip().startswith(('rule', 'ANALYSIS'))]
            det[p] = (rc, lines[:2])
    return det


def round2(pid, keep):
    """/tmp/seed2/<pid>_out: bug1.diff bug2.diff benign1.diff benign2.diff demo1.py demo2.py notes.txt"""
    rnd_ = os.environ.get('R', '2')
    outdir = '/verif/.r%s/%s_out' % (rnd_, pid)
    only = 'benign' if '--benign-only' in sys.argv else ('bug' if '--bugs-only' in sys.argv else None)
    os.makedirs('/tmp/seedchk', exist_ok=True)
    clean = '/tmp/seedchk/%s_clean' % pid
    sh(['git', '-C', '/repo', 'worktree', 'remove', '--force', clean])
    sh(['git', '-C', '/repo', 'worktree', 'add', '--detach', clean, 'HEAD'])
    props = claimed()
    notes = open(outdir + '/notes.txt').read() if os.path.exists(outdir + '/notes.txt') else ''
    try:
        for kind, i in (('bug', 1), ('bug', 2), ('bug', 3), ('benign', 1), ('benign', 2), ('benign', 3)):
            d = '%s/%s%d.diff' % (outdir, kind, i)
            if only and kind != only:
                continue
            if not os.path.exists(d):
                print('%s-%s%d  MISSING' % (pid, kind, i))
                continue
            tree = '/tmp/seedchk/%s_%s%d' % (pid, kind, i)
            sh(['git', '-C', '/repo', 'worktree', 'remove', '--force', tree])
            sh(['git', '-C', '/repo', 'worktree', 'add', '--detach', tree, 'HEAD'])
            try:
                rc, out = sh(['git', '-C', tree, 'apply', d])
                if rc != 0:
                    print('%s-%s%d  does not apply: %s' % (pid, kind, i, out[-200:]))
                    continue
                ok, line = baseline_ok(tree)
                demos = {}
                for j in (1, 2, 3):
                    demo = '%s/demo%d.py' % (outdir, j)
                    if os.path.exists(demo):
                        rc_c, _ = sh([PY, demo, clean], timeout=600)
                        rc_m, out_m = sh([PY, demo, tree], timeout=600)
                        demos[j] = (rc_c, rc_m, [l for l in out_m.splitlines() if l.startswith('FAIL')][:1])
                det = run_checks(tree, props)
                if kind == 'bug':
                    conf = bool(ok) and demos.get(i, (1, 0))[0] == 0 and demos.get(i, (1, 0))[1] == 1
                else:
                    conf = bool(ok) and all(v[0] == 0 and v[1] == 0 for v in demos.values())
                print('%s-%s%d base30=%s demos(clean,changed)=%s CONFIRMED=%s own=%s detected_by=%s' % (
                    pid, kind, i, bool(ok), {k: v[:2] for k, v in demos.items()}, conf,
                    det.get(pid, (0,))[0], {k: v[0] for k, v in det.items()} or '-'))
                for k, v in det.items():
                    for l in v[1][:1]:
                        print('          %s: %s' % (k, l[:260]))
                if keep and conf:
                    dst = '/verif/seeded/%s-r%s-%s%d' % (pid, rnd_, kind, i)
                    os.makedirs(dst, exist_ok=True)
                    shutil.copy(d, dst + '/patch.diff')
                    for j in (1, 2, 3):
                        demo = '%s/demo%d.py' % (outdir, j)
                        if os.path.exists(demo) and (kind == 'benign' or j == i):
                            shutil.copy(demo, dst + ('/demo.py' if kind == 'bug' else '/demo%d.py' % j))
                    meta = {
                        'property': pid, 'seed_id': '%s-r%s-%s%d' % (pid, rnd_, kind, i),
                        'kind': 'property-breaking change' if kind == 'bug' else
                                'behaviour-preserving refactoring (must stay silent)',
                        'origin': 'independent sub-agent (round %s) given only the property text and a scratch worktree' % rnd_,
                        'notes_from_author': notes,
                        'confirmed': {
                            'applies_to': subprocess.run(['git', '-C', '/repo', 'rev-parse', '--short', 'HEAD'],
                                                         capture_output=True, text=True).stdout.strip(),
                            'baseline': line,
                            'demos_exit(clean, changed)': {str(k): v[:2] for k, v in demos.items()},
                            'commands': ['git apply patch.diff (scratch worktree of /repo HEAD)', ' '.join(PYTEST),
                                         '/venv/bin/python demo*.py <tree>'],
                        },
                        'checks_run': './check <each property> --repo <changed tree>',
                        'detected_by': {k: {'exit': v[0], 'report': v[1]} for k, v in det.items()},
                    }
                    json.dump(meta, open(dst + '/meta.json', 'w'), indent=1)
            finally:
                sh(['git', '-C', '/repo', 'worktree', 'remove', '--force', tree])
    finally:
        sh(['git', '-C', '/repo', 'worktree', 'remove', '--force', clean])
        sh(['git', '-C', '/repo', 'worktree', 'prune'])


if __name__ == '__main__':
    main()
