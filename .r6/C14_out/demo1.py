"""
C14 demo 1: a workflow that MIXES nodes with and without a data demand.

Usage: python demo1.py <path-to-tree>

A node that carries no 'task_data' attribute must give a task with data
demand 0, whatever the node planned just before it looked like.
"""
import json
import os
import shutil
import sys
import tempfile

sys.dont_write_bytecode = True
sys.path.insert(0, os.path.abspath(sys.argv[1]))

import simpy  # noqa: E402

from topsim.core.planner import Planner  # noqa: E402
from topsim.core.instrument import Observation  # noqa: E402
from topsim.user.plan.batch_planning import BatchPlanning  # noqa: E402


class StubBuffer:
    """Only what Planning._calc_workflow_est asks of a buffer."""

    def buffer_storage_summary(self):
        return {'hotbuffer': {'capacity': 500, 'data_rate': 5},
                'coldbuffer': {'capacity': 500, 'data_rate': 2}}


def write_workflow(directory, fname, nodes, edges):
    spec = {
        'header': {'time': False},
        'graph': {
            'directed': True, 'multigraph': False, 'graph': {},
            'nodes': [dict(id=n, **attrs) for n, attrs in nodes],
            'edges': [{'source': u, 'target': v, 'transfer_data': d}
                      for u, v, d in edges],
        }
    }
    path = os.path.join(directory, fname)
    with open(path, 'w') as f:
        json.dump(spec, f)
    return path


def make_plan(path, name, clock):
    env = simpy.Environment()
    if clock:
        env.run(until=clock)
    planner = Planner(env, None, BatchPlanning('batch'))
    obs = Observation(name, 0, 10, 4, path, data_rate=3)
    return planner.run(obs, StubBuffer(), None), env.now


def check_plan(plan, name, nodes, edges):
    """Return a list of violations of C14 (empty when the plan is faithful)."""
    bad = []
    want_nodes = dict(nodes)
    want_edges = {(u, v): d for u, v, d in edges}
    tasks = list(plan.tasks)

    gids = [t.graph_id for t in tasks]
    if sorted(map(str, gids)) != sorted(map(str, want_nodes)):
        bad.append('tasks stand for nodes %s, the graph has nodes %s'
                   % (sorted(map(str, gids)), sorted(map(str, want_nodes))))
        return bad
    by_gid = {t.graph_id: t for t in tasks}
    ids = [t.id for t in tasks]
    if len(set(ids)) != len(ids):
        bad.append('task ids are not unique: %s' % ids)
    for t in tasks:
        if name not in t.id:
            bad.append('id %r does not carry observation name %r'
                       % (t.id, name))
        attrs = want_nodes[t.graph_id]
        if t.flops != attrs['comp']:
            bad.append('node %s: task compute demand %r, graph says %r'
                       % (t.graph_id, t.flops, attrs['comp']))
        if t.task_data != attrs.get('task_data', 0):
            bad.append('node %s: task data demand %r, graph says %r'
                       % (t.graph_id, t.task_data, attrs.get('task_data', 0)))
        preds = {u for (u, v) in want_edges if v == t.graph_id}
        want_pred_ids = sorted(by_gid[u].id for u in preds)
        if sorted(t.pred) != want_pred_ids:
            bad.append('node %s: predecessor list %s, graph says %s'
                       % (t.graph_id, sorted(t.pred), want_pred_ids))
        want_io = {by_gid[u].id: want_edges[(u, t.graph_id)] for u in preds}
        if dict(t.io) != want_io:
            bad.append('node %s: transfer volumes %s, graph says %s'
                       % (t.graph_id, dict(t.io), want_io))

    # the plan's own graph
    pg = plan.graph
    if len(pg.nodes) != len(tasks) or \
            any(not any(n is t for t in tasks) for n in pg.nodes):
        bad.append('plan graph nodes %s are not the plan tasks %s'
                   % (list(pg.nodes), tasks))
        return bad
    got_edges = {(u.graph_id, v.graph_id): d.get('transfer_data')
                 for u, v, d in pg.edges(data=True)}
    if got_edges != want_edges:
        bad.append('plan graph edges %s, workflow edges %s'
                   % (got_edges, want_edges))

    # topological order of the task list / exec_order
    pos = {t.graph_id: i for i, t in enumerate(tasks)}
    for (u, v) in want_edges:
        if pos[u] >= pos[v]:
            bad.append('task list not topological: %s listed after %s'
                       % (u, v))
    if list(plan.exec_order) != gids:
        bad.append('exec_order %s differs from task order %s'
                   % (list(plan.exec_order), gids))

    # predecessor / successor queries
    for p in tasks:
        succ = list(plan.get_task_successors(p))
        for t in tasks:
            pred = list(plan.get_task_predecessors(t))
            p_before_t = any(x is p for x in pred)
            t_after_p = any(x is t for x in succ)
            edge = (p.graph_id, t.graph_id) in want_edges
            if not (p_before_t == t_after_p == edge):
                bad.append('queries disagree on %s->%s: pred=%s succ=%s '
                           'graph=%s' % (p.graph_id, t.graph_id, p_before_t,
                                         t_after_p, edge))
    return bad


def scenarios():
    # Fork/join where only some of the nodes move data.  Node 0 streams
    # 40 units, nodes 1 and 3 are pure compute, node 2 has 15 and node 4 an
    # explicit zero.
    nodes = [(0, {'comp': 120, 'task_data': 40}),
             (1, {'comp': 300}),
             (2, {'comp': 80, 'task_data': 15}),
             (3, {'comp': 50}),
             (4, {'comp': 10, 'task_data': 0})]
    edges = [(0, 1, 5), (0, 2, 7), (1, 3, 2), (2, 3, 9), (3, 4, 1)]
    yield 'mixed_fork_join', 'emu', 7, nodes, edges
    # Plain chain: data demand only on the first node.
    nodes = [(0, {'comp': 10, 'task_data': 8}), (1, {'comp': 20}),
             (2, {'comp': 30})]
    edges = [(0, 1, 1), (1, 2, 1)]
    yield 'chain_head_only', 'dingo', 0, nodes, edges
    # Control: every node has a data demand / no node has one.
    nodes = [(0, {'comp': 10, 'task_data': 8}), (1, {'comp': 20, 'task_data': 3})]
    yield 'all_data', 'emu', 3, nodes, [(0, 1, 4)]
    nodes = [(0, {'comp': 10}), (1, {'comp': 20})]
    yield 'no_data', 'emu', 3, nodes, [(0, 1, 4)]


def main():
    tmp = tempfile.mkdtemp(prefix='c14_demo1_')
    try:
        problems = []
        for label, name, clock, nodes, edges in scenarios():
            path = write_workflow(tmp, label + '.json', nodes, edges)
            plan, _ = make_plan(path, name, clock)
            problems += ['[%s] %s' % (label, b)
                         for b in check_plan(plan, name, nodes, edges)]
    finally:
        shutil.rmtree(tmp, ignore_errors=True)
    if problems:
        print('FAIL: ' + '; '.join(problems[:4]))
        return 1
    print('PASS')
    return 0


if __name__ == '__main__':
    sys.exit(main())
