"""Demo for bug3 (C19): the scheduler may report idle only when no observation
is queued.

Scenario: the same field ("a", one pipeline) is observed twice on two
sub-arrays with overlapping observations, so that both end up in the
scheduler's observation queue at the same time and the first one finishes its
workflow while the second one is still queued / being allocated.  At every
timestep Scheduler.is_idle() must agree with "no observation queued"
(scheduler.observation_queue empty, and no observation that was handed to the
scheduler is still waiting for its 'queue removed' event).

usage: demo3.py <path-to-tree>
"""
import sys
import os
import json
import shutil
import tempfile
import logging

tree = os.path.abspath(sys.argv[1])
sys.path.insert(0, tree)
logging.disable(logging.CRITICAL)

import simpy  # noqa: E402
from topsim.core.config import Config  # noqa: E402
from topsim.core.cluster import Cluster  # noqa: E402
from topsim.core.instrument import Observation, RunStatus  # noqa: E402
from topsim.core.simulation import Simulation  # noqa: E402
from topsim.user.telescope import Telescope  # noqa: E402
from topsim.user.plan.batch_planning import BatchPlanning  # noqa: E402
from topsim.user.schedule.batch_allocation import BatchProcessing  # noqa: E402


def write_workflow(path):
    graph = {"directed": True, "multigraph": False, "graph": {},
             "nodes": [{"id": 0, "comp": 20}, {"id": 1, "comp": 30},
                       {"id": 2, "comp": 10}],
             "edges": [
                 {"source": 0, "target": 1, "transfer_data": 5},
                 {"source": 0, "target": 2, "transfer_data": 5}]}
    with open(path, "w") as fp:
        json.dump({"graph": graph}, fp)


def write_config(d, names):
    pipelines = {n: {"workflow": "w.json", "ingest_demand": 1}
                 for n in set(names)}
    cfg = {
        "instrument": {"telescope": {
            "total_arrays": 36, "max_ingest_resources": 2,
            "pipelines": pipelines,
            "observations": [
                {"name": names[0], "start": 0, "duration": 5,
                 "instrument_demand": 18, "data_product_rate": 10},
                {"name": names[1], "start": 2, "duration": 8,
                 "instrument_demand": 18, "data_product_rate": 10}]}},
        "cluster": {"header": {}, "system": {
            "resources": {f"m{i}": {"flops": 10, "compute_bandwidth": 10}
                          for i in range(6)},
            "system_bandwidth": 1.0}},
        "buffer": {"hot": {"capacity": 1000, "max_ingest_rate": 100},
                   "cold": {"capacity": 1000, "max_data_rate": 100}},
        "timestep": "seconds"}
    path = os.path.join(d, "cfg.json")
    with open(path, "w") as fp:
        json.dump(cfg, fp)
    return path


def run(cfg_path, label):
    env = simpy.Environment()
    sim = Simulation(env=env, config=cfg_path, instrument=Telescope,
                     planning_model=BatchPlanning('batch'),
                     planning_algorithm='batch',
                     scheduling=BatchProcessing(max_resource_partitions=2,
                                                min_resources_per_workflow=1),
                     delay=None, timestamp=0)
    sim.start(runtime=1)
    problems = []
    max_queued = 0
    for k in range(1, 80):
        queue = sim.scheduler.observation_queue
        max_queued = max(max_queued, len(queue))
        reported = sim.scheduler.is_idle()
        # observations sitting in the hot buffer's 'scheduled' list are the
        # ones handed to the scheduler and not yet finished
        in_progress = len(sim.buffer.hot[0].observations['scheduled'])
        if reported and (len(queue) > 0 or in_progress > 0):
            problems.append(
                f"[{label}] Scheduler.is_idle() is True at t={k} although "
                f"{len(queue)} observation(s) "
                f"{[o.name for o in queue]} are queued "
                f"({in_progress} workflow(s) in progress)")
            break
        if reported != (len(queue) == 0):
            problems.append(f"[{label}] Scheduler.is_idle()={reported} with "
                            f"queue length {len(queue)} at t={k}")
            break
        all_four = (sim.buffer.is_empty() and sim.cluster.is_idle()
                    and len(queue) == 0 and sim.instrument.is_idle())
        if sim.is_finished() != all_four:
            problems.append(f"[{label}] Simulation.is_finished()="
                            f"{sim.is_finished()} but the four conditions "
                            f"give {all_four} at t={k}")
            break
        if sim.is_finished():
            break
        sim.resume(k + 1)
    else:
        problems.append(f"[{label}] simulation did not finish in 80 steps")
    if max_queued < 2 and not problems:
        problems.append(f"[{label}] scenario never had two observations "
                        f"queued at once")
    return problems


def main():
    d = tempfile.mkdtemp(prefix="c19demo3_")
    try:
        write_workflow(os.path.join(d, "w.json"))
        problems = run(write_config(d, ["a", "a"]), "repeated field")
        problems += run(write_config(d, ["a", "b"]), "distinct fields")
    finally:
        shutil.rmtree(d, ignore_errors=True)
    if problems:
        print("FAIL: " + " | ".join(problems) +
              " ; required: is_idle() True only when no observation is "
              "queued")
        return 1
    print("PASS")
    return 0


if __name__ == "__main__":
    try:
        status = main()
    except Exception as exc:  # a crash is not what the property requires
        print(f"FAIL: scenario raised {type(exc).__name__}: {exc} ; "
              f"required: scenario runs to completion with truthful "
              f"idle/empty/finished queries")
        status = 1
    sys.exit(status)
