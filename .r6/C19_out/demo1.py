"""Demo for bug1 (C19): the cluster must not report idle while machines are
busy with ingest.

Scenario: the same field ("a") is observed twice, one observation after the
other, the second one LONGER than the first.  For every observation the
cluster provisions `ingest_demand` machines that have to stay busy for the
whole observation, so Cluster.is_idle() must be False at every timestep of
the ingest window of BOTH observations.

Part 1 drives the Cluster directly (operation sequence), part 2 runs a whole
simulation.

usage: demo1.py <path-to-tree>
"""
import sys
import os
import json
import shutil
import tempfile
import logging

tree = os.path.abspath(sys.argv[1])
sys.path.insert(0, tree)
logging.disable(logging.CRITICAL)

import simpy  # noqa: E402
from topsim.core.config import Config  # noqa: E402
from topsim.core.cluster import Cluster  # noqa: E402
from topsim.core.instrument import Observation, RunStatus  # noqa: E402
from topsim.core.simulation import Simulation  # noqa: E402
from topsim.user.telescope import Telescope  # noqa: E402
from topsim.user.plan.batch_planning import BatchPlanning  # noqa: E402
from topsim.user.schedule.batch_allocation import BatchProcessing  # noqa: E402


def write_workflow(path):
    graph = {"directed": True, "multigraph": False, "graph": {},
             "nodes": [{"id": 0, "comp": 20}, {"id": 1, "comp": 30},
                       {"id": 2, "comp": 10}],
             "edges": [
                 {"source": 0, "target": 1, "transfer_data": 5},
                 {"source": 0, "target": 2, "transfer_data": 5}]}
    with open(path, "w") as fp:
        json.dump({"graph": graph}, fp)


def write_config(d, observations):
    cfg = {
        "instrument": {"telescope": {
            "total_arrays": 36, "max_ingest_resources": 2,
            "pipelines": {"a": {"workflow": "w.json", "ingest_demand": 2}},
            "observations": observations}},
        "cluster": {"header": {}, "system": {
            "resources": {f"m{i}": {"flops": 10, "compute_bandwidth": 10}
                          for i in range(4)},
            "system_bandwidth": 1.0}},
        "buffer": {"hot": {"capacity": 1000, "max_ingest_rate": 100},
                   "cold": {"capacity": 1000, "max_data_rate": 100}},
        "timestep": "seconds"}
    path = os.path.join(d, "cfg.json")
    with open(path, "w") as fp:
        json.dump(cfg, fp)
    return path


def part1(cfg_path):
    """Cluster operation sequence: provision ingest for 'a' (3 steps), let it
    finish, provision ingest for a second observation 'a' (8 steps)."""
    env = simpy.Environment()
    cluster = Cluster(env, Config(cfg_path))
    env.process(cluster.run())
    first = Observation("a", 0, 3, 18, "w.json", 10)
    second = Observation("a", 10, 8, 18, "w.json", 10)
    problems = []
    for obs, start in ((first, 0), (second, 10)):
        env.run(until=start) if start > env.now else None
        env.process(cluster.provision_ingest_resources(2, obs))
        # The machines are busy from the step of provisioning up to and
        # including step start + duration - 2 (the ingest task of an
        # observation of duration D ends at start + D - 1).
        for k in range(start + 1, start + obs.duration):
            env.run(until=k)
            if cluster.is_idle():
                problems.append(
                    f"cluster ops: is_idle() is True at t={k} although the "
                    f"ingest of observation '{obs.name}' (start {start}, "
                    f"duration {obs.duration}) keeps 2 machines busy until "
                    f"t={start + obs.duration - 1}")
                break
        env.run(until=start + obs.duration + 1)
        if not cluster.is_idle():
            problems.append(
                f"cluster ops: cluster not idle after ingest window of "
                f"observation starting {start}")
    return problems


def part2(cfg_path):
    env = simpy.Environment()
    sim = Simulation(env=env, config=cfg_path, instrument=Telescope,
                     planning_model=BatchPlanning('batch'),
                     planning_algorithm='batch',
                     scheduling=BatchProcessing(min_resources_per_workflow=1),
                     delay=None, timestamp=0)
    sim.start(runtime=1)
    problems = []
    for k in range(1, 80):
        # state after all events of time k-1
        for obs in sim.instrument.observations:
            if (obs.status == RunStatus.RUNNING and obs.ast is not None
                    and obs.ast + 1 <= k <= obs.ast + obs.duration - 1):
                if sim.cluster.is_idle():
                    problems.append(
                        f"simulation: cluster.is_idle() is True at t={k} "
                        f"while observation '{obs.name}' (actual start "
                        f"{obs.ast}, duration {obs.duration}) is still "
                        f"being ingested on the cluster")
        if problems or sim.is_finished():
            break
        sim.resume(k + 1)
    else:
        problems.append("simulation did not finish in 80 steps")
    return problems


def main():
    d = tempfile.mkdtemp(prefix="c19demo1_")
    try:
        write_workflow(os.path.join(d, "w.json"))
        observations = [
            {"name": "a", "start": 0, "duration": 3, "instrument_demand": 18,
             "data_product_rate": 10},
            {"name": "a", "start": 20, "duration": 8, "instrument_demand": 18,
             "data_product_rate": 10}]
        cfg_path = write_config(d, observations)
        problems = part1(cfg_path) + part2(cfg_path)
    finally:
        shutil.rmtree(d, ignore_errors=True)
    if problems:
        print("FAIL: " + " | ".join(problems) +
              " ; required: is_idle() False while ingest machines are busy")
        return 1
    print("PASS")
    return 0


if __name__ == "__main__":
    try:
        status = main()
    except Exception as exc:  # a crash is not what the property requires
        print(f"FAIL: scenario raised {type(exc).__name__}: {exc} ; "
              f"required: scenario runs to completion with truthful "
              f"idle/empty/finished queries")
        status = 1
    sys.exit(status)
