"""Demo for bug2 (C19): the buffer may report empty only when BOTH tiers are
at full free capacity.

Scenario: a very large buffer (5e9 units per tier) and a very small
observation (5 steps x 100 units = 500 units, i.e. 1e-7 of the capacity).
While these 500 units sit in the hot buffer (during ingest and during the
whole workflow) Buffer.is_empty() has to be False, exactly like
`total_capacity == current_capacity` on both tiers says.

usage: demo2.py <path-to-tree>
"""
import sys
import os
import json
import shutil
import tempfile
import logging

tree = os.path.abspath(sys.argv[1])
sys.path.insert(0, tree)
logging.disable(logging.CRITICAL)

import simpy  # noqa: E402
from topsim.core.config import Config  # noqa: E402
from topsim.core.cluster import Cluster  # noqa: E402
from topsim.core.instrument import Observation, RunStatus  # noqa: E402
from topsim.core.simulation import Simulation  # noqa: E402
from topsim.user.telescope import Telescope  # noqa: E402
from topsim.user.plan.batch_planning import BatchPlanning  # noqa: E402
from topsim.user.schedule.batch_allocation import BatchProcessing  # noqa: E402


def write_workflow(path):
    graph = {"directed": True, "multigraph": False, "graph": {},
             "nodes": [{"id": 0, "comp": 20}, {"id": 1, "comp": 30},
                       {"id": 2, "comp": 10}],
             "edges": [
                 {"source": 0, "target": 1, "transfer_data": 5},
                 {"source": 0, "target": 2, "transfer_data": 5}]}
    with open(path, "w") as fp:
        json.dump({"graph": graph}, fp)


def write_config(d, capacity):
    cfg = {
        "instrument": {"telescope": {
            "total_arrays": 36, "max_ingest_resources": 2,
            "pipelines": {"tiny": {"workflow": "w.json", "ingest_demand": 1}},
            "observations": [
                {"name": "tiny", "start": 0, "duration": 5,
                 "instrument_demand": 36, "data_product_rate": 100}]}},
        "cluster": {"header": {}, "system": {
            "resources": {f"m{i}": {"flops": 10, "compute_bandwidth": 10}
                          for i in range(4)},
            "system_bandwidth": 1.0}},
        "buffer": {"hot": {"capacity": capacity, "max_ingest_rate": 1000},
                   "cold": {"capacity": capacity, "max_data_rate": 1000}},
        "timestep": "seconds"}
    path = os.path.join(d, "cfg.json")
    with open(path, "w") as fp:
        json.dump(cfg, fp)
    return path


def data_held(sim):
    """Data the buffer is holding according to the observations it knows."""
    held = 0
    seen = set()
    hot, cold = sim.buffer.hot[0], sim.buffer.cold[0]
    candidates = list(hot.observations['stored'])
    candidates += list(hot.observations['scheduled'])
    candidates += list(cold.observations['stored'])
    for tier in (hot, cold):
        if tier.observations['transfer'] is not None:
            candidates.append(tier.observations['transfer'])
    candidates += [o for o in sim.instrument.observations
                   if o.status == RunStatus.RUNNING]
    for o in candidates:
        if id(o) not in seen:
            seen.add(id(o))
            held += o.total_data_size
    return held


def run(cfg_path):
    env = simpy.Environment()
    sim = Simulation(env=env, config=cfg_path, instrument=Telescope,
                     planning_model=BatchPlanning('batch'),
                     planning_algorithm='batch',
                     scheduling=BatchProcessing(min_resources_per_workflow=1),
                     delay=None, timestamp=0)
    sim.start(runtime=1)
    problems = []
    saw_data = False
    for k in range(1, 60):
        hot, cold = sim.buffer.hot[0], sim.buffer.cold[0]
        full = (hot.current_capacity == hot.total_capacity
                and cold.current_capacity == cold.total_capacity)
        held = data_held(sim)
        saw_data = saw_data or held > 0
        reported = sim.buffer.is_empty()
        if reported and not full:
            problems.append(
                f"Buffer.is_empty() is True at t={k} but the hot tier has "
                f"{hot.current_capacity} free of {hot.total_capacity} and "
                f"the cold tier {cold.current_capacity} of "
                f"{cold.total_capacity} ({held} units of observation data "
                f"held)")
            break
        if reported != full:
            problems.append(f"Buffer.is_empty()={reported} but tiers full="
                            f"{full} at t={k}")
            break
        all_four = (full and sim.cluster.is_idle()
                    and sim.scheduler.is_idle() and sim.instrument.is_idle())
        if sim.is_finished() != all_four:
            problems.append(f"Simulation.is_finished()={sim.is_finished()} "
                            f"but the four conditions give {all_four} at "
                            f"t={k}")
            break
        if sim.is_finished():
            break
        sim.resume(k + 1)
    else:
        problems.append("simulation did not finish in 60 steps")
    if not saw_data:
        problems.append("scenario never put data in the buffer")
    return problems


def main():
    d = tempfile.mkdtemp(prefix="c19demo2_")
    try:
        write_workflow(os.path.join(d, "w.json"))
        problems = run(write_config(d, 5e9))
        # ordinary sized buffer as a sanity check
        problems += run(write_config(d, 1000))
    finally:
        shutil.rmtree(d, ignore_errors=True)
    if problems:
        print("FAIL: " + " | ".join(problems) +
              " ; required: is_empty() True only when both tiers are at "
              "full free capacity")
        return 1
    print("PASS")
    return 0


if __name__ == "__main__":
    try:
        status = main()
    except Exception as exc:  # a crash is not what the property requires
        print(f"FAIL: scenario raised {type(exc).__name__}: {exc} ; "
              f"required: scenario runs to completion with truthful "
              f"idle/empty/finished queries")
        status = 1
    sys.exit(status)
