"""
C18 demo 2 - cold->hot move when the HOT tier is the slower of the two
(hot ingest rate 3 < cold data rate 8) and the observation size (13) leaves a
tail that is larger than the hot rate but not larger than the cold rate.

usage: python demo2.py <path-to-tree>

Required (property C18): the move proceeds at the slower of the two tiers'
rates - never more than min(hot rate, cold rate) per timestep - and completes
after exactly ceil(size / min(rates)) transfer steps, conserving data at every
step, whichever tier is the slower one.
"""
import sys

sys.path.insert(0, sys.argv[1])

import contextlib
import io
import json
import math
import os
import shutil
import tempfile

import simpy

from topsim.core.config import Config
from topsim.core.buffer import Buffer
from topsim.core.instrument import Observation

SIZE = 13


def build(tmp, hot_cap, hot_rate, cold_cap, cold_rate):
    cfg = {
        "instrument": {"telescope": {}},
        "cluster": {"system": {}},
        "buffer": {
            "hot": {"capacity": hot_cap, "max_ingest_rate": hot_rate},
            "cold": {"capacity": cold_cap, "max_data_rate": cold_rate},
        },
    }
    path = os.path.join(tmp, f"cfg_{hot_rate}_{cold_rate}.json")
    with open(path, "w") as fp:
        json.dump(cfg, fp)
    env = simpy.Environment()
    return env, Buffer(env, None, None, Config(path))


def cold_to_hot_case(tmp, hot_rate, cold_rate, problems):
    label = f"cold->hot (hot rate {hot_rate}, cold rate {cold_rate})"
    hot_cap, cold_cap = 50, 60
    env, buf = build(tmp, hot_cap, hot_rate, cold_cap, cold_rate)
    hot, cold = buf.hot[0], buf.cold[0]

    # An observation of SIZE already sits in the cold tier.
    obs = Observation("A", 0, 1, 1, "none", data_rate=1)
    obs.total_data_size = SIZE
    cold.current_capacity -= SIZE
    cold.observations['stored'].append(obs)

    rate = min(hot_rate, cold_rate)
    need = math.ceil(SIZE / rate)
    total0 = hot.current_capacity + cold.current_capacity

    proc = env.process(buf.move_cold_to_hot(0))
    chunks = []
    prev = (hot.current_capacity, cold.current_capacity)
    for _ in range(100):
        env.run(until=env.now + 1)
        cur = (hot.current_capacity, cold.current_capacity)
        if cur != prev:
            chunks.append(prev[0] - cur[0])
            if cur[1] - prev[1] != prev[0] - cur[0]:
                problems.append(
                    f"{label}: t={env.now} cold released {cur[1] - prev[1]} "
                    f"but hot received {prev[0] - cur[0]}")
        if cur[0] + cur[1] != total0:
            problems.append(
                f"{label}: hot+cold free space {cur[0] + cur[1]}, "
                f"required {total0}")
        prev = cur
        if proc.triggered:
            break

    if not proc.triggered or proc.value is not True:
        problems.append(f"{label}: move did not complete successfully")
    if any(c > rate for c in chunks):
        problems.append(
            f"{label}: per-step amounts {chunks}, required at most "
            f"min(rates) = {rate} per step")
    if len(chunks) != need:
        problems.append(
            f"{label}: completed after {len(chunks)} transfer steps "
            f"{chunks}, required ceil({SIZE}/{rate}) = {need}")
    if (hot.current_capacity, cold.current_capacity) != \
            (hot_cap - SIZE, cold_cap):
        problems.append(
            f"{label}: final free space hot/cold {hot.current_capacity}/"
            f"{cold.current_capacity}, required {hot_cap - SIZE}/{cold_cap}")
    if obs not in hot.observations['stored'] \
            or obs in cold.observations['stored'] \
            or hot.observations['transfer'] is not None \
            or cold.observations['transfer'] is not None:
        problems.append(f"{label}: observation not stored in exactly the "
                        f"hot tier afterwards")


def main():
    problems = []
    tmp = tempfile.mkdtemp(prefix="c18demo2_")
    sink = contextlib.redirect_stdout(io.StringIO())
    sink.__enter__()  # the library prints a progress line; hide it
    try:
        cold_to_hot_case(tmp, 8, 3, problems)   # cold tier is the slower
        cold_to_hot_case(tmp, 3, 3, problems)   # equal rates
        cold_to_hot_case(tmp, 3, 8, problems)   # hot tier is the slower
    finally:
        sink.__exit__(None, None, None)
        shutil.rmtree(tmp, ignore_errors=True)

    if problems:
        print("FAIL: " + " | ".join(problems))
        return 1
    print("PASS")
    return 0


if __name__ == "__main__":
    sys.exit(main())
