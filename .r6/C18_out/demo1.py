"""
C18 demo 1 - round trip of an observation whose size is NOT a multiple of the
cold tier's data rate, with a hot tier that is nearly (but not too) full when
the observation comes back.

usage: python demo1.py <path-to-tree>

Required (property C18): after the hot->cold leg the observation is held by
exactly one tier (cold 'stored', nothing left in any transfer slot); the
cold->hot return leg, for which the hot tier HAS room, is carried out, takes
ceil(size / min(rates)) steps, conserves data at every step and leaves the
observation stored only in the hot tier with both free spaces adjusted by
exactly its size.
"""
import sys

sys.path.insert(0, sys.argv[1])

import contextlib
import io
import json
import math
import os
import shutil
import tempfile

import simpy

from topsim.core.config import Config
from topsim.core.buffer import Buffer
from topsim.core.instrument import Observation, RunStatus

HOT_CAP, HOT_RATE = 25, 5
COLD_CAP, COLD_RATE = 100, 4


def build(tmp):
    cfg = {
        "instrument": {"telescope": {}},
        "cluster": {"system": {}},
        "buffer": {
            "hot": {"capacity": HOT_CAP, "max_ingest_rate": HOT_RATE},
            "cold": {"capacity": COLD_CAP, "max_data_rate": COLD_RATE},
        },
    }
    path = os.path.join(tmp, "cfg.json")
    with open(path, "w") as fp:
        json.dump(cfg, fp)
    env = simpy.Environment()
    return env, Buffer(env, None, None, Config(path))


def holders(buf, obs):
    """Every place in either tier that currently references obs."""
    where = []
    for tier_name, tier in (("hot", buf.hot[0]), ("cold", buf.cold[0])):
        for key, val in tier.observations.items():
            if isinstance(val, list):
                if obs in val:
                    where.append(f"{tier_name}.{key}")
            elif val is obs:
                where.append(f"{tier_name}.{key}")
    return sorted(where)


def ingest(env, buf, obs):
    obs.status = RunStatus.RUNNING
    env.process(buf.ingest_data_stream(obs))
    env.run(until=env.now + obs.duration)


def run_move(env, buf, gen, size, rate, problems, label, hot_other=0):
    """Drive one move to completion, checking every timestep."""
    hot, cold = buf.hot[0], buf.cold[0]
    total0 = hot.current_capacity + cold.current_capacity
    proc = env.process(gen)
    steps = 0
    prev = (hot.current_capacity, cold.current_capacity)
    for _ in range(200):
        env.run(until=env.now + 1)
        cur = (hot.current_capacity, cold.current_capacity)
        if cur != prev:
            steps += 1
            if abs(cur[0] - prev[0]) > rate:
                problems.append(
                    f"{label}: {abs(cur[0] - prev[0])} moved in one step, "
                    f"required at most {rate}")
        if cur[0] + cur[1] != total0:
            problems.append(
                f"{label}: hot+cold free space {cur[0] + cur[1]} at t="
                f"{env.now}, required {total0} (conservation)")
        prev = cur
        if proc.triggered:
            break
    if not proc.triggered:
        problems.append(f"{label}: move never completed")
        return None, steps
    return proc.value, steps


def main():
    problems = []
    tmp = tempfile.mkdtemp(prefix="c18demo1_")
    try:
        _sink = contextlib.redirect_stdout(io.StringIO())
        _sink.__enter__()  # the library prints a progress line; hide it
        env, buf = build(tmp)
        hot, cold = buf.hot[0], buf.cold[0]

        # A: size 10, 10 % COLD_RATE == 2  -> last chunk is a partial one
        obs_a = Observation("A", 0, 2, 1, "none", data_rate=5)
        ingest(env, buf, obs_a)
        size = obs_a.total_data_size
        assert size == 10 and hot.current_capacity == HOT_CAP - size

        # ---- leg 1: hot -> cold --------------------------------------
        ok, steps = run_move(env, buf, buf.move_hot_to_cold(0), size,
                             COLD_RATE, problems, "hot->cold")
        need = math.ceil(size / COLD_RATE)
        if ok is not True:
            problems.append(f"hot->cold: returned {ok!r}, required True")
        if steps != need:
            problems.append(
                f"hot->cold: {steps} transfer steps, required {need}")
        if (hot.current_capacity, cold.current_capacity) != \
                (HOT_CAP, COLD_CAP - size):
            problems.append(
                f"hot->cold: free space hot/cold = {hot.current_capacity}/"
                f"{cold.current_capacity}, required {HOT_CAP}/"
                f"{COLD_CAP - size}")
        if holders(buf, obs_a) != ["cold.stored"]:
            problems.append(
                f"after hot->cold the observation is held by "
                f"{holders(buf, obs_a)}, required exactly ['cold.stored']")

        # ---- a second observation arrives in the hot tier -------------
        obs_b = Observation("B", 0, 2, 1, "none", data_rate=5)
        ingest(env, buf, obs_b)
        hot_free = hot.current_capacity
        assert hot_free == HOT_CAP - 10  # 15: room for A (10), not for 2xA

        # ---- leg 2: cold -> hot (hot has 15 free, A needs 10) ---------
        rate = min(HOT_RATE, COLD_RATE)
        ok, steps = run_move(env, buf, buf.move_cold_to_hot(0), size, rate,
                             problems, "cold->hot")
        need = math.ceil(size / rate)
        if ok is not True:
            problems.append(
                f"cold->hot: move returned {ok!r} (refused) although the hot "
                f"tier had {hot_free} free for an observation of {size}; "
                f"required: carried out")
        if steps != need:
            problems.append(
                f"cold->hot: {steps} transfer steps, required {need}")
        if (hot.current_capacity, cold.current_capacity) != \
                (hot_free - size, COLD_CAP):
            problems.append(
                f"cold->hot: free space hot/cold = {hot.current_capacity}/"
                f"{cold.current_capacity}, required {hot_free - size}/"
                f"{COLD_CAP}")
        if holders(buf, obs_a) != ["hot.stored"]:
            problems.append(
                f"after the round trip the observation is held by "
                f"{holders(buf, obs_a)}, required exactly ['hot.stored']")
    finally:
        _sink.__exit__(None, None, None)
        shutil.rmtree(tmp, ignore_errors=True)

    if problems:
        print("FAIL: " + " | ".join(problems))
        return 1
    print("PASS")
    return 0


if __name__ == "__main__":
    sys.exit(main())
