"""
C18 demo 3 - a hot->cold move that must be REFUSED, requested while the hot
tier holds TWO stored observations of different size: an older small one (10)
that would fit into the cold tier's remaining room (30) and the newest, big
one (40) - the one the move actually takes - that does not.

usage: python demo3.py <path-to-tree>

Required (property C18): a move whose destination lacks room is refused and
leaves everything as it was (free space of both tiers, stored lists, transfer
slots); free space never becomes negative.  A move that does fit (the first,
single-observation one in this scenario) is carried out in
ceil(size / rate) steps with data conserved at every step.
"""
import sys

sys.path.insert(0, sys.argv[1])

import contextlib
import io
import json
import math
import os
import shutil
import tempfile

import simpy

from topsim.core.config import Config
from topsim.core.buffer import Buffer
from topsim.core.instrument import Observation, RunStatus

HOT_CAP, HOT_RATE = 100, 10
COLD_CAP, COLD_RATE = 60, 5


def build(tmp):
    cfg = {
        "instrument": {"telescope": {}},
        "cluster": {"system": {}},
        "buffer": {
            "hot": {"capacity": HOT_CAP, "max_ingest_rate": HOT_RATE},
            "cold": {"capacity": COLD_CAP, "max_data_rate": COLD_RATE},
        },
    }
    path = os.path.join(tmp, "cfg.json")
    with open(path, "w") as fp:
        json.dump(cfg, fp)
    env = simpy.Environment()
    return env, Buffer(env, None, None, Config(path))


def ingest(env, buf, name, duration):
    obs = Observation(name, 0, duration, 1, "none", data_rate=HOT_RATE)
    obs.status = RunStatus.RUNNING
    env.process(buf.ingest_data_stream(obs))
    env.run(until=env.now + duration)
    return obs


def snapshot(buf):
    hot, cold = buf.hot[0], buf.cold[0]
    return {
        "hot free": hot.current_capacity,
        "cold free": cold.current_capacity,
        "hot stored": [o.name for o in hot.observations['stored']],
        "cold stored": [o.name for o in cold.observations['stored']],
        "hot transfer": getattr(hot.observations['transfer'], 'name', None),
        "cold transfer": getattr(cold.observations['transfer'], 'name', None),
    }


def main():
    problems = []
    tmp = tempfile.mkdtemp(prefix="c18demo3_")
    sink = contextlib.redirect_stdout(io.StringIO())
    sink.__enter__()  # the library prints a progress line; hide it
    try:
        env, buf = build(tmp)
        hot, cold = buf.hot[0], buf.cold[0]

        # ---- X (30) is ingested and moved to the cold tier: must work ---
        obs_x = ingest(env, buf, "X", 3)
        total0 = hot.current_capacity + cold.current_capacity
        proc = env.process(buf.move_hot_to_cold(0))
        steps = 0
        prev = cold.current_capacity
        for _ in range(100):
            env.run(until=env.now + 1)
            if cold.current_capacity != prev:
                steps += 1
                if prev - cold.current_capacity > COLD_RATE:
                    problems.append("first move faster than the cold rate")
            prev = cold.current_capacity
            if hot.current_capacity + cold.current_capacity != total0:
                problems.append(
                    f"first move: hot+cold free space "
                    f"{hot.current_capacity + cold.current_capacity}, "
                    f"required {total0}")
            if proc.triggered:
                break
        need = math.ceil(obs_x.total_data_size / COLD_RATE)
        if not proc.triggered or proc.value is not True or steps != need:
            problems.append(
                f"first move (fits): {steps} steps, result "
                f"{proc.value if proc.triggered else 'unfinished'}; "
                f"required {need} steps, True")
        want = {"hot free": HOT_CAP, "cold free": COLD_CAP - 30,
                "hot stored": [], "cold stored": ["X"],
                "hot transfer": None, "cold transfer": None}
        if snapshot(buf) != want:
            problems.append(
                f"after first move: {snapshot(buf)}, required {want}")

        # ---- A (10, older) then B (40, newest) arrive in the hot tier ---
        ingest(env, buf, "A", 1)
        ingest(env, buf, "B", 4)
        before = snapshot(buf)
        assert before["hot stored"] == ["A", "B"], before
        assert before["cold free"] == 30, before

        # ---- the move takes the newest stored observation (B, 40): the
        #      cold tier has only 30 free, so it must be refused ----------
        proc = env.process(buf.move_hot_to_cold(0))
        lowest_cold = cold.current_capacity
        for _ in range(30):
            env.run(until=env.now + 1)
            lowest_cold = min(lowest_cold, cold.current_capacity)
            if proc.triggered:
                break
        result = proc.value if proc.triggered else "still running"
        after = snapshot(buf)
        if result is not False:
            problems.append(
                f"move of B (40) into a cold tier with 30 free returned "
                f"{result!r}, required refusal (False)")
        if lowest_cold < 0:
            problems.append(
                f"cold free space dropped to {lowest_cold}, required >= 0")
        if after != before:
            diff = {k: (before[k], after[k]) for k in before
                    if before[k] != after[k]}
            problems.append(
                f"refused move did not leave everything as it was; "
                f"(before, after) = {diff}")
    finally:
        sink.__exit__(None, None, None)
        shutil.rmtree(tmp, ignore_errors=True)

    if problems:
        print("FAIL: " + " | ".join(problems))
        return 1
    print("PASS")
    return 0


if __name__ == "__main__":
    sys.exit(main())
