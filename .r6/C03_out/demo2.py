import sys, json, os, tempfile, shutil, logging, io, contextlib

if len(sys.argv) < 2:
    print("usage: demo.py <path-to-tree>")
    sys.exit(2)
sys.path.insert(0, os.path.abspath(sys.argv[1]))
logging.disable(logging.CRITICAL)
import warnings
warnings.simplefilter("ignore")

import simpy
from topsim.core.simulation import Simulation
from topsim.core.cluster import Cluster
from topsim.user.telescope import Telescope
from topsim.user.plan.batch_planning import BatchPlanning

TOL = 1e-9


def make_cfg(d, machines, workflows, observations):
    """machines {id: (flops, bandwidth)}; workflows {obs name: ({node: comp},
    [(u, v, volume)])}; observations: list of observation dicts."""
    pipelines = {}
    for name, (nodes, edges) in workflows.items():
        wf = {"header": {}, "graph": {
            "directed": True, "multigraph": False, "graph": {},
            "nodes": [{"id": n, "comp": c} for n, c in nodes.items()],
            "edges": [{"source": u, "target": v, "transfer_data": vol}
                      for u, v, vol in edges]}}
        with open(os.path.join(d, "wf_%s.json" % name), "w") as f:
            json.dump(wf, f)
        pipelines[name] = {"workflow": "wf_%s.json" % name, "ingest_demand": 1}
    cfg = {
        "instrument": {"telescope": {
            "total_arrays": 36, "max_ingest_resources": 1,
            "pipelines": pipelines, "observations": observations}},
        "cluster": {"header": {}, "system": {
            "resources": {m: {"flops": f, "compute_bandwidth": b}
                          for m, (f, b) in machines.items()},
            "system_bandwidth": 1.0}},
        "buffer": {"hot": {"capacity": 10000, "max_ingest_rate": 100},
                   "cold": {"capacity": 10000, "max_data_rate": 100}},
        "timestep": "seconds"}
    path = os.path.join(d, "cfg.json")
    with open(path, "w") as f:
        json.dump(cfg, f)
    return path


def run(cfgpath, scheduling, planning=None, runtime=200):
    """Run a simulation; returns {task id: (task, machine, allocation time)}
    for every workflow task handed to the cluster, and the workflow graphs."""
    log = {}
    graphs = []
    orig = Cluster.allocate_task_to_cluster

    def recording(self, task, machine, predecessor_allocations=None,
                  observation=None, ingest=False, c='default'):
        if not ingest:
            log[task.id] = (task, machine, self.env.now)
        return orig(self, task, machine, predecessor_allocations,
                    observation, ingest, c)

    planning = planning or BatchPlanning('batch')
    orig_plan = planning.generate_plan

    def plan_recording(*a, **kw):
        plan = orig_plan(*a, **kw)
        graphs.append(plan.graph)
        return plan
    planning.generate_plan = plan_recording

    Cluster.allocate_task_to_cluster = recording
    try:
        with contextlib.redirect_stderr(io.StringIO()):
            sim = Simulation(env=simpy.Environment(), config=cfgpath,
                             instrument=Telescope, planning_model=planning,
                             planning_algorithm='batch', scheduling=scheduling,
                             delay=None, timestamp=0)
            sim.start(runtime=runtime)
    finally:
        Cluster.allocate_task_to_cluster = orig
    return log, graphs


def check(log, graphs, expected_tasks):
    """C03 oracle. Returns a list of violation strings."""
    problems = []
    if len(log) != expected_tasks:
        problems.append("%d tasks were allocated, expected %d"
                        % (len(log), expected_tasks))
    for graph in graphs:
        for task in graph.nodes:
            if task.id not in log:
                problems.append("task %s never ran" % task.id)
                continue
            _, machine, alloc = log[task.id]
            if task.aft < 0:
                problems.append("task %s never finished" % task.id)
                continue
            required = alloc
            for u, _, data in graph.in_edges(task, data=True):
                if u.id not in log or u.aft < 0 or task.ast < u.aft - TOL:
                    problems.append(
                        "task %s started at %s but predecessor %s finished "
                        "at %s (required start >= %s)"
                        % (task.id, task.ast, u.id, u.aft, u.aft))
                    continue
                pm = log[u.id][1]
                if pm.id != machine.id:
                    required = max(
                        required,
                        u.aft + data["transfer_data"] / machine.bandwidth)
            if abs(task.ast - required) > TOL:
                problems.append(
                    "task %s on %s allocated at %s recorded start %s, "
                    "required exactly %s" % (task.id, machine.id, alloc,
                                             task.ast, required))
    return problems


def finish(problems):
    if problems:
        print("FAIL: " + "; ".join(problems))
        sys.exit(1)
    print("PASS")
    sys.exit(0)


# ---------------------------------------------------------------- scenario
# GreedySchedulingFromPlan driven by a tiny planning model that pins every
# task of a small DAG to a planned machine.  Greedy decides that a task may
# be allocated by looking at the *ids of the cluster's finished tasks*; the
# other shipped algorithms ask cluster.is_task_finished(task) instead.
# Long-running predecessors (30 and 20 timesteps) leave their successors'
# planned machines free, so nothing but the precedence check holds them back.
class PinnedPlanning(BatchPlanning):
    """BatchPlanning plus a planned machine / planned times per task."""

    def __init__(self, placement):
        super().__init__('batch')
        self.placement = placement

    def generate_plan(self, clock, cluster, buffer, observation, max_ingest):
        plan = super().generate_plan(clock, cluster, buffer, observation,
                                     max_ingest)
        for i, task in enumerate(plan.tasks):
            task.allocated_machine_id = self.placement[task.graph_id]
            task.est = i
        return plan


def main():
    from topsim.user.schedule.greedy import GreedySchedulingFromPlan
    d = tempfile.mkdtemp(prefix="c03_demo2_")
    try:
        machines = {"m0": (10, 10), "m1": (10, 5), "m2": (10, 4),
                    "m3": (10, 10)}
        wf = ({0: 300, 1: 200, 2: 50, 3: 40},
              [(0, 1, 20), (0, 2, 12), (1, 3, 10), (2, 3, 30)])
        placement = {0: "m0", 1: "m1", 2: "m2", 3: "m3"}
        obs = [{"name": "a", "start": 0, "duration": 5,
                "instrument_demand": 1, "data_product_rate": 10}]
        cfg = make_cfg(d, machines, {"a": wf}, obs)
        log, graphs = run(cfg, GreedySchedulingFromPlan(),
                          planning=PinnedPlanning(placement))
        finish(check(log, graphs, 4))
    finally:
        shutil.rmtree(d, ignore_errors=True)


main()
