#!/venv/bin/python
"""
C10 demo 3 - delays of planned tasks under different hash seeds.

One observation, QueueProcessing on three identical machines, and a
DelayModel(prob=0.5, 'normal', HIGH, seed=20) given to BatchPlanning, which
attaches a copy of it to every task of the plan. The run is repeated in child
interpreters with PYTHONHASHSEED = 1, 2, 3 (same configuration, algorithms
and delay seed) and all of them have to produce identical tables and logs.

usage: python demo3.py <path-to-topsim-tree>
Prints PASS (exit 0) when every compared run is identical, otherwise
"FAIL: <observed vs required>" (exit 1).
"""
import json
import os
import shutil
import subprocess
import sys
import tempfile

TREE = os.path.abspath(sys.argv[1]) if len(sys.argv) > 1 else os.getcwd()
sys.path.insert(0, TREE)

# --------------------------------------------------------------------------
# The simulation itself runs in child interpreters (one per run, each with
# its own PYTHONHASHSEED). This is the source of the child program.
# --------------------------------------------------------------------------
RUNNER = r'''
import sys, json, io, contextlib, logging
tree, cfg, alg, dseed, dprob = sys.argv[1:6]
sys.path.insert(0, tree)
logging.disable(logging.CRITICAL)
import simpy
from topsim.core.simulation import Simulation
from topsim.core.delay import DelayModel
from topsim.user.telescope import Telescope
from topsim.user.plan.batch_planning import BatchPlanning
from topsim.user.schedule.batch_allocation import BatchProcessing
from topsim.user.schedule.queue_allocation import QueueProcessing

if alg == 'batch':
    scheduling = BatchProcessing(min_resources_per_workflow=1)
else:
    scheduling = QueueProcessing()
dm = None
if dseed != 'none':
    dm = DelayModel(float(dprob), 'normal', DelayModel.DelayDegree.HIGH,
                    seed=int(dseed))
sim = Simulation(env=simpy.Environment(), config=cfg, instrument=Telescope,
                 planning_model=BatchPlanning('batch', delay_model=dm),
                 planning_algorithm='batch', scheduling=scheduling,
                 delay=dm, timestamp=0)
with contextlib.redirect_stdout(io.StringIO()):
    df, tasks = sim.start(runtime=400)
# wall-clock algorithm-timing columns are exempt from the property
df = df[[c for c in df.columns if not c.endswith('algtime')]]
out = {'timestep table': json.loads(df.to_json(orient='split')),
       'task table': json.loads(tasks.to_json(orient='split')),
       'event log': json.loads(
           sim.monitor.events.reset_index(drop=True).to_json(orient='split'))}
sys.stdout.write(json.dumps(out))
'''


def write_workflow(path, comps, edges):
    graph = {
        "directed": True, "multigraph": False, "graph": {},
        "nodes": [{"id": i, "comp": c} for i, c in enumerate(comps)],
        "edges": [{"source": s, "target": t, "transfer_data": d}
                  for s, t, d in edges]}
    with open(path, 'w') as fp:
        json.dump({"header": {"time": False}, "graph": graph}, fp)


def write_config(path, machines, observations, pipelines):
    cfg = {
        "instrument": {"telescope": {
            "total_arrays": 36, "max_ingest_resources": 1,
            "pipelines": pipelines, "observations": observations}},
        "cluster": {"header": {}, "system": {
            "resources": {name: {"flops": flops, "compute_bandwidth": 10}
                          for name, flops in machines},
            "system_bandwidth": 1.0}},
        "buffer": {"hot": {"capacity": 1000, "max_ingest_rate": 50},
                   "cold": {"capacity": 1000, "max_data_rate": 50}},
        "timestep": "seconds"}
    with open(path, 'w') as fp:
        json.dump(cfg, fp)


def run_child(workdir, cfg, alg, hashseed, delay_seed='none', delay_prob=0.0):
    env = dict(os.environ, PYTHONHASHSEED=str(hashseed))
    proc = subprocess.run(
        [sys.executable, os.path.join(workdir, 'runner.py'), TREE, cfg, alg,
         str(delay_seed), str(delay_prob)],
        env=env, stdout=subprocess.PIPE, stderr=subprocess.PIPE, text=True)
    if proc.returncode != 0:
        raise RuntimeError('simulation child failed:\n' + proc.stderr[-3000:])
    return json.loads(proc.stdout)


def first_difference(table_a, table_b):
    """Human readable description of the first cell two tables differ in."""
    if table_a['columns'] != table_b['columns']:
        return 'columns %s vs %s' % (table_a['columns'], table_b['columns'])
    if table_a['index'] != table_b['index']:
        if (sorted(map(str, table_a['index'])) ==
                sorted(map(str, table_b['index'])) and
                len(set(table_a['index'])) == len(table_a['index'])):
            # same (unique) row labels in another order: report the values
            # that differ, if any, before falling back to the order itself
            rows_b = dict(zip(table_b['index'], table_b['data']))
            for idx, row_a in zip(table_a['index'], table_a['data']):
                for col, a, b in zip(table_a['columns'], row_a, rows_b[idx]):
                    if a != b:
                        return ('row %r column %r is %r vs %r'
                                % (idx, col, a, b))
        for pos, (i, j) in enumerate(zip(table_a['index'], table_b['index'])):
            if i != j:
                return 'row %d is %r vs %r' % (pos, i, j)
        return '%d rows vs %d rows' % (len(table_a['index']),
                                       len(table_b['index']))
    for idx, row_a, row_b in zip(table_a['index'], table_a['data'],
                                 table_b['data']):
        for col, a, b in zip(table_a['columns'], row_a, row_b):
            if a != b:
                return 'row %r column %r is %r vs %r' % (idx, col, a, b)
    return None


def compare_runs(runs):
    """
    runs : list of (label, result). Every run must equal the first one.
    Returns None if so, else a message.
    """
    base_label, base = runs[0]
    for label, other in runs[1:]:
        for table in ('task table', 'timestep table', 'event log'):
            diff = first_difference(base[table], other[table])
            if diff is not None:
                return ('%s differs between [%s] and [%s]: %s; required: '
                        'identical tables and event logs for the same '
                        'configuration, algorithms and delay seed'
                        % (table, base_label, label, diff))
    return None


COMPS = [120, 300, 170, 260, 90, 210, 140, 330, 100]
# node 0 fans out to nodes 1..7 which all join in node 8
EDGES = [(0, i, 10) for i in range(1, 8)] + [(i, 8, 10) for i in range(1, 8)]


def scenario(workdir):
    write_workflow(os.path.join(workdir, 'wf.json'), COMPS, EDGES)
    cfg = os.path.join(workdir, 'cfg.json')
    write_config(
        cfg,
        machines=[('m%d' % i, 20) for i in range(3)],
        observations=[{"name": "emu", "start": 0, "duration": 5,
                       "instrument_demand": 36, "data_product_rate": 5}],
        pipelines={"emu": {"workflow": "wf.json", "ingest_demand": 1}})
    runs = []
    for hashseed in (1, 2, 3):
        label = 'PYTHONHASHSEED=%d, delay seed 20' % hashseed
        runs.append((label, run_child(workdir, cfg, 'queue', hashseed,
                                      delay_seed=20, delay_prob=0.5)))
    tasks = runs[0][1]['task table']
    if len(tasks['index']) != len(COMPS) + 1:
        return ('scenario broken: %d finished tasks, expected %d'
                % (len(tasks['index']), len(COMPS) + 1))
    return compare_runs(runs)


def main():
    workdir = tempfile.mkdtemp(prefix='c10_demo_')
    try:
        with open(os.path.join(workdir, 'runner.py'), 'w') as fp:
            fp.write(RUNNER)
        message = scenario(workdir)
    finally:
        shutil.rmtree(workdir, ignore_errors=True)
    if message is None:
        print('PASS')
        return 0
    print('FAIL: ' + message)
    return 1


if __name__ == '__main__':
    sys.exit(main())
