"""demo1 (C09): a machine of a live reservation must stay reserved while the
workflow is running - also at the moment when EVERY machine of the reservation
is busy (number of parallel tasks == reservation size) and one task finishes.
Usage: python demo1.py <path-to-tree>
"""
import warnings
warnings.filterwarnings('ignore')
import sys, os, json, tempfile, shutil, logging, io, contextlib

sys.dont_write_bytecode = True
TREE = os.path.abspath(sys.argv[1])
sys.path.insert(0, TREE)
logging.disable(logging.CRITICAL)

import simpy  # noqa
from topsim.core.simulation import Simulation  # noqa
from topsim.user.telescope import Telescope  # noqa
from topsim.user.plan.batch_planning import BatchPlanning  # noqa
from topsim.user.schedule.batch_allocation import BatchProcessing  # noqa


class Violation(Exception):
    pass


def write_workflow(path, comps, edges):
    graph = {"directed": True, "multigraph": False, "graph": {},
             "nodes": [{"id": i, "comp": c} for i, c in enumerate(comps)],
             "edges": [{"source": u, "target": v, "transfer_data": 0}
                       for (u, v) in edges]}
    with open(path, "w") as fp:
        json.dump({"header": {"time": False}, "graph": graph}, fp)


def write_config(tmp, n_machines, observations, workflows, max_ingest):
    """observations: list of dict(name,start,duration,ingest_demand,wf)
    workflows: dict wfname -> (comps, edges)"""
    for wf, (comps, edges) in workflows.items():
        write_workflow(os.path.join(tmp, wf + ".json"), comps, edges)
    pipelines = {o["name"]: {"workflow": o["wf"] + ".json",
                             "ingest_demand": o["ingest_demand"]}
                 for o in observations}
    obs = [{"name": o["name"], "start": o["start"], "duration": o["duration"],
            "instrument_demand": 1, "data_product_rate": 1}
           for o in observations]
    cfg = {
        "instrument": {"telescope": {"total_arrays": 64,
                                     "max_ingest_resources": max_ingest,
                                     "pipelines": pipelines,
                                     "observations": obs}},
        "cluster": {"header": {}, "system": {
            "resources": {"m%02d" % i: {"flops": 1, "compute_bandwidth": 1}
                          for i in range(n_machines)},
            "system_bandwidth": 1}},
        "buffer": {"hot": {"capacity": 100000, "max_ingest_rate": 10},
                   "cold": {"capacity": 100000, "max_data_rate": 10}},
        "timestep": "seconds",
    }
    path = os.path.join(tmp, "sim.json")
    with open(path, "w") as fp:
        json.dump(cfg, fp)
    return path


class ReservationMonitor:
    """Watches a Cluster from the outside (wrapping three public methods on the
    instance) and checks the C09 clauses after every call and every timestep."""

    def __init__(self, sim, partitions, min_size, split=None, verbose=False):
        self.sim = sim
        self.cl = sim.cluster
        self.partitions = partitions
        self.min_size = min_size
        self.split = split
        self.verbose = verbose
        self.active = {}      # name -> frozenset(machine ids) of a live reservation
        self.history = []     # (time, what, name, detail)
        self.max_concurrent = 0
        self.alloc = []
        self._wrap()

    # -- helpers -----------------------------------------------------------
    def _res(self):
        return self.cl._clusters['default']['resources']

    def _ids(self, ms):
        return [m.id for m in ms]

    def fail(self, msg):
        raise Violation("t=%s: %s" % (self.sim.env.now, msg))

    def _wrap(self):
        cl, mon = self.cl, self
        orig_prov = cl.provision_batch_resources
        orig_rel = cl.release_batch_resources
        orig_alloc = cl.allocate_task_to_cluster

        def provision(size, name, *a, **k):
            before = name in mon._res()['idle']
            ret = orig_prov(size, name, *a, **k)
            got = mon._res()['idle'].get(name)
            if not before and got is not None:
                mon.on_provision(name, frozenset(mon._ids(got)))
            return ret

        def release(name, *a, **k):
            ret = orig_rel(name, *a, **k)
            mon.on_release(name)
            return ret

        def allocate(task, machine, predecessor_allocations=None,
                     observation=None, ingest=False, c='default'):
            mon.on_allocate(task, machine, observation, ingest)
            return orig_alloc(task, machine, predecessor_allocations,
                              observation, ingest, c)

        cl.provision_batch_resources = provision
        cl.release_batch_resources = release
        cl.allocate_task_to_cluster = allocate

    # -- events ------------------------------------------------------------
    def limit_for(self, name):
        n = len(self.cl.machines)
        if self.split:
            lo, hi = self.split[name]
            return max(lo, self.min_size), hi
        return self.min_size, n // self.partitions

    def on_provision(self, name, ids):
        self.history.append((self.sim.env.now, 'provision', name, sorted(ids)))
        if self.verbose:
            print(self.history[-1])
        for other, oids in self.active.items():
            if ids & oids:
                self.fail("reservation of %s shares machines %s with live "
                          "reservation of %s; required: exclusive"
                          % (name, sorted(ids & oids), other))
        self.active[name] = ids
        self.max_concurrent = max(self.max_concurrent, len(self.active))
        if len(self.active) > self.partitions:
            self.fail("%d reservations exist at once %s; required at most %d"
                      % (len(self.active), sorted(self.active),
                         self.partitions))
        lo, hi = self.limit_for(name)
        if len(ids) > hi:
            self.fail("reservation of %s has %d machines; required at most %d"
                      % (name, len(ids), hi))
        if len(ids) < lo:
            self.fail("reservation of %s has %d machines; required at least "
                      "the minimum %d" % (name, len(ids), lo))

    def on_release(self, name):
        if name not in self.active:
            return
        ids = self.active.pop(name)
        self.history.append((self.sim.env.now, 'release', name, sorted(ids)))
        if self.verbose:
            print(self.history[-1])
        avail = set(self._ids(self._res()['available']))
        if not ids <= avail:
            self.fail("after release of %s machines %s are not back in the "
                      "free pool; required: whole reservation returned"
                      % (name, sorted(ids - avail)))
        if name in self._res()['idle']:
            self.fail("after release %s is still registered as reservation"
                      % name)

    def on_allocate(self, task, machine, observation, ingest):
        self.alloc.append((self.sim.env.now, str(task), machine.id, ingest))
        if self.verbose:
            print(self.alloc[-1])
        if ingest:
            for name, ids in self.active.items():
                if machine.id in ids:
                    self.fail("ingest task %s placed on %s which is reserved "
                              "for %s; required: reserved machines are never "
                              "given to ingest" % (task, machine.id, name))
        else:
            owner = str(task.id).split('_')[0]
            ids = self.active.get(owner)
            if ids is None or machine.id not in ids:
                self.fail("task %s of %s runs on %s which is not in its "
                          "reservation %s" % (task, owner, machine.id,
                                              sorted(ids) if ids else None))
            for name, oids in self.active.items():
                if name != owner and machine.id in oids:
                    self.fail("task %s of %s placed on %s which is reserved "
                              "for %s" % (task, owner, machine.id, name))

    def check_state(self):
        res = self._res()
        avail = set(self._ids(res['available']))
        ingest = set(self._ids(res['ingest']))
        idle = {k: set(self._ids(v)) for k, v in res['idle'].items()}
        if set(idle) != set(self.active):
            self.fail("cluster registers reservations %s but live ones are %s"
                      % (sorted(idle), sorted(self.active)))
        if len(idle) > self.partitions:
            self.fail("%d reservations registered; required at most %d"
                      % (len(idle), self.partitions))
        for name, ids in self.active.items():
            if ids & avail:
                self.fail("machines %s reserved for %s are in the free pool "
                          "before release; required: reserved until the "
                          "workflow is finished" % (sorted(ids & avail), name))
            if ids & ingest:
                self.fail("machines %s reserved for %s are used by ingest"
                          % (sorted(ids & ingest), name))
            for other, oidle in idle.items():
                if other != name and ids & oidle:
                    self.fail("machines %s reserved for %s are held by %s"
                              % (sorted(ids & oidle), name, other))
        # every machine is in exactly one pool
        occ = self._ids(res['occupied'])
        every = (list(self._ids(res['available'])) + list(self._ids(res['ingest']))
                 + occ + [m for v in idle.values() for m in v])
        if sorted(every) != sorted(m.id for m in self.cl.machines):
            self.fail("machine pools are inconsistent: %s" % sorted(every))


def run_monitored(sim, mon, horizon):
    with contextlib.redirect_stdout(io.StringIO()):
        sim.start(runtime=1)
    mon.check_state()
    for t in range(2, horizon + 1):
        with contextlib.redirect_stdout(io.StringIO()):
            sim.resume(until=t)
        mon.check_state()
        if sim.is_finished():
            break
    return sim.env.now


def build(tmp, n_machines, observations, workflows, max_ingest, partitions,
          min_size, split=None, verbose=False):
    cfg = write_config(tmp, n_machines, observations, workflows, max_ingest)
    alg = BatchProcessing(max_resource_partitions=partitions,
                          min_resources_per_workflow=min_size,
                          resource_split=split)
    sim = Simulation(env=simpy.Environment(), config=cfg, instrument=Telescope,
                     planning_model=BatchPlanning('batch'),
                     planning_algorithm='batch', scheduling=alg, delay=None,
                     timestamp=0)
    mon = ReservationMonitor(sim, partitions, min_size, split, verbose)
    return sim, mon



def scenario(tmp):
    # 6 machines, 2 partitions -> every reservation has floor(6/2) = 3 machines.
    # Workflow "wide" fans out into exactly 3 parallel tasks of different
    # length, so for a while the WHOLE reservation is busy (exact fit) and the
    # tasks come back one at a time.  "b" and "c" compete for what is left.
    wfs = {"wide": ([2, 3, 6, 9, 2],
                    [(0, 1), (0, 2), (0, 3), (1, 4), (2, 4), (3, 4)]),
           "pair": ([2, 4, 4, 2], [(0, 1), (0, 2), (1, 3), (2, 3)])}
    obs = [dict(name="a", start=0, duration=2, ingest_demand=1, wf="wide"),
           dict(name="b", start=3, duration=2, ingest_demand=1, wf="pair"),
           dict(name="c", start=8, duration=4, ingest_demand=2, wf="pair")]
    sim, mon = build(tmp, 6, obs, wfs, max_ingest=2, partitions=2, min_size=1)
    end = run_monitored(sim, mon, 150)
    if not sim.is_finished():
        raise Violation("simulation did not finish within 150 steps "
                        "(reservations seen: %s)" % mon.history)
    sizes = [len(h[3]) for h in mon.history if h[1] == 'provision']
    releases = [h for h in mon.history if h[1] == 'release']
    if len(sizes) != 3 or len(releases) != 3:
        raise Violation("expected 3 reservations and 3 releases, saw %d / %d"
                        % (len(sizes), len(releases)))
    return end, mon


if __name__ == '__main__':
    tmp = tempfile.mkdtemp(prefix="c09demo")
    try:
        end, mon = scenario(tmp)
        if '-v' in sys.argv:
            for h in sorted(mon.history + mon.alloc, key=lambda x: x[0]):
                print(h)
        print("finished at t=%s, %d reservations, at most %d at once"
              % (end, len([h for h in mon.history if h[1] == 'provision']),
                 mon.max_concurrent))
        print("PASS")
        rc = 0
    except Violation as e:
        print("FAIL: %s" % e)
        rc = 1
    finally:
        shutil.rmtree(tmp, ignore_errors=True)
    sys.exit(rc)
