"""
Demo 2 for property C17 (plan-following scheduling keeps every task on its
planned machine).  Usage: python demo2.py <path-to-tree>
"""
import sys, os, json, tempfile, shutil

if len(sys.argv) < 2:
    print("usage: demo.py <path-to-tree>")
    sys.exit(2)
sys.path.insert(0, os.path.abspath(sys.argv[1]))

import logging
logging.disable(logging.CRITICAL)
import simpy
import networkx as nx
from topsim.core.simulation import Simulation
from topsim.core.task import Task
from topsim.core.planner import WorkflowPlan, WorkflowStatus
from topsim.algorithms.planning import Planning
from topsim.user.telescope import Telescope
from topsim.user.schedule.dynamic_plan import DynamicSchedulingFromPlan
import topsim.core.scheduler as _sched

_sched.tqdm = lambda *a, **k: None  # no progress bars


class FixedPlanning(Planning):
    """A static plan read from the workflow file itself: every node carries
    the machine id the plan assigned to it and its planned est / eft."""

    def __init__(self):
        super().__init__('fixed', None)
        self.planned = {}  # task id -> planned machine id

    def to_df(self):
        return None

    def generate_plan(self, clock, cluster, buffer, observation, max_ingest):
        with open(observation.workflow) as f:
            graph = nx.readwrite.node_link_graph(json.load(f)['graph'])
        mapping, tasks = {}, []
        mk = self._create_observation_task_id
        for node in nx.topological_sort(graph):
            nd = graph.nodes[node]
            tid = mk(node, observation, clock)
            preds = [mk(p, observation, clock)
                     for p in graph.predecessors(node)]
            io = {mk(p, observation, clock):
                      graph.edges[p, node]['transfer_data']
                  for p in graph.predecessors(node)}
            t = Task(tid, nd['est'], nd['eft'], nd['machine'], preds,
                     nd.get('comp', 0), nd.get('task_data', 0), io, None,
                     gid=node)
            self.planned[tid] = nd['machine']
            mapping[node] = t
            tasks.append(t)
        g = nx.relabel_nodes(graph, mapping)
        tasks.sort(key=lambda x: x.est)
        return WorkflowPlan(observation.name, observation.duration,
                            max(t.eft for t in tasks), tasks,
                            [t.id for t in tasks], WorkflowStatus.SCHEDULED,
                            max_ingest, g)


def write_workflow(path, nodes, edges):
    g = {"directed": True, "multigraph": False, "graph": {},
         "nodes": [dict(id=n, **a) for n, a in nodes.items()],
         "edges": [dict(source=u, target=v, transfer_data=d)
                   for (u, v, d) in edges]}
    with open(path, 'w') as f:
        json.dump({"graph": g}, f)


def write_config(d, machines, observations, pipelines, max_ingest):
    cfg = {"instrument": {"telescope": {
        "total_arrays": 36, "max_ingest_resources": max_ingest,
        "pipelines": pipelines, "observations": observations}},
        "cluster": {"header": {}, "system": {
            "resources": machines, "system_bandwidth": 1.0}},
        "buffer": {"hot": {"capacity": 10000, "max_ingest_rate": 100},
                   "cold": {"capacity": 10000, "max_data_rate": 100}},
        "timestep": "seconds"}
    p = os.path.join(d, 'config.json')
    with open(p, 'w') as f:
        json.dump(cfg, f)
    return p


def simulate(cfgpath, runtime):
    """Run the plan-following policy; return (planning, executions) where
    executions is a list of dicts: task id, machine id, start, task object."""
    executions = []
    orig = Task.do_work

    def recording_do_work(self, env, machine, predecessor_allocations=None):
        executions.append({'task': self.id, 'machine': machine.id,
                           'start': env.now, 'obj': self})
        return orig(self, env, machine, predecessor_allocations)

    Task.do_work = recording_do_work
    try:
        planning = FixedPlanning()
        sim = Simulation(env=simpy.Environment(), config=cfgpath,
                         instrument=Telescope, planning_model=planning,
                         planning_algorithm='fixed',
                         scheduling=DynamicSchedulingFromPlan(), delay=None,
                         timestamp=0)
        sim.start(runtime=runtime)
    finally:
        Task.do_work = orig
    return planning, executions


def check(planning, executions, expected_tasks):
    """Return a list of violation strings of the plan-following property."""
    problems = []
    ran = {}
    for e in executions:
        if 'ingest' in e['task']:
            continue
        ran.setdefault(e['task'], []).append(e)
    for tid, want in sorted(planning.planned.items()):
        runs = ran.get(tid, [])
        for e in runs:
            if e['machine'] != want:
                problems.append(
                    "task %s executed on machine %s at t=%s but its plan "
                    "assigned it to %s (required: planned machine)"
                    % (tid, e['machine'], e['start'], want))
        if len(runs) > 1:
            problems.append("task %s was started %d times (required: once, "
                            "never migrated)" % (tid, len(runs)))
    missing = [t for t in expected_tasks
               if not any(k.endswith('_' + t) for k in ran)]
    if missing:
        problems.append("tasks %s never executed within the run (required: "
                        "every task executes on its planned machine)"
                        % missing)
    # a task must WAIT while its planned machine is busy (ingest or task)
    spans = []
    for e in executions:
        end = e['obj'].aft if e['obj'].aft >= 0 else float('inf')
        spans.append((e['machine'], e['start'], end, e['task']))
    for i, (m1, s1, e1, t1) in enumerate(spans):
        for (m2, s2, e2, t2) in spans[i + 1:]:
            # (a machine is handed over in the timestep before the recorded aft)
            if m1 == m2 and max(s1, s2) < min(e1, e2) - 1:
                if s2 >= s1:
                    late, busy, busy_end = t2, t1, e1
                else:
                    late, busy, busy_end = t1, t2, e2
                if 'ingest' in late:
                    continue
                problems.append(
                    "task %s started on %s at t=%s while %s was still "
                    "running there until t=%s (required: wait for the busy "
                    "planned machine)" % (late, m1, max(s1, s2), busy,
                                          busy_end))
    return problems


def main(scenario):
    d = tempfile.mkdtemp(prefix='c17demo_')
    try:
        try:
            problems = scenario(d)
        except Exception as exc:  # a crash is also not what is required
            problems = ["simulation raised %s: %s (required: runs and keeps "
                        "tasks on planned machines)"
                        % (type(exc).__name__, exc)]
    finally:
        shutil.rmtree(d, ignore_errors=True)
    if problems:
        print("FAIL: " + " | ".join(problems))
        sys.exit(1)
    print("PASS")
    sys.exit(0)


def scenario(d):
    # heterogeneous cluster whose config does NOT list the machines from
    # fastest to slowest (mid, small, big)
    machines = {"mid_m0": {"flops": 50, "compute_bandwidth": 10},
                "small_m1": {"flops": 10, "compute_bandwidth": 5},
                "big_m2": {"flops": 200, "compute_bandwidth": 20}}
    #   a -> b -> d,  a -> c -> d
    write_workflow(os.path.join(d, 'wf.json'),
                   {"a": dict(comp=400, machine="big_m2", est=0, eft=2),
                    "b": dict(comp=200, machine="mid_m0", est=2, eft=6),
                    "c": dict(comp=30, machine="small_m1", est=2, eft=5),
                    "d": dict(comp=400, machine="big_m2", est=6, eft=8)},
                   [("a", "b", 0), ("a", "c", 0), ("b", "d", 0),
                    ("c", "d", 0)])
    obs = [{"name": "obs", "start": 0, "duration": 4,
            "instrument_demand": 10, "data_product_rate": 1}]
    pipes = {"obs": {"workflow": "wf.json", "ingest_demand": 1}}
    cfg = write_config(d, machines, obs, pipes, max_ingest=1)
    planning, executions = simulate(cfg, 60)
    if os.environ.get('C17_TRACE'):
        for e in executions:
            print(e['start'], e['task'], e['machine'], e['obj'].aft)
    return check(planning, executions, ["a", "b", "c", "d"])


main(scenario)
