"""
demo2 - an observation makes the round trip hot -> cold -> hot, and its size
is NOT a multiple of the transfer rate (last chunk of the transfer is partial).

'big' (42) stays resident for a long workflow, 'small' (8) has a short
workflow, 'mid' (15) pushes the hot buffer over its 60% threshold, so 'mid'
is moved to the cold buffer (4,4,4,3).  When 'small' is freed the hot buffer
is back in the window in which the Buffer fetches 'mid' back from the cold
buffer (again 4,4,4,3), after which it is processed and freed.

Property C07: hot-buffer used space always equals the data of the resident
observations, exactly the observation's data is freed when its workflow
completes and after the last workflow both buffers are back at full free
capacity.

Usage: python demo2.py <path-to-topsim-tree>
"""
import sys

sys.path.insert(0, sys.argv[1])

import json
import logging
import os
import shutil
import tempfile

logging.disable(logging.CRITICAL)

import simpy

from topsim.core.simulation import Simulation
from topsim.user.telescope import Telescope
from topsim.user.plan.batch_planning import BatchPlanning
from topsim.user.schedule.batch_allocation import BatchProcessing

HOT_CAP = 100
COLD_CAP = 100
OBSERVATIONS = [
    {'name': 'big', 'start': 0, 'duration': 7, 'instrument_demand': 10,
     'data_product_rate': 6},
    {'name': 'small', 'start': 8, 'duration': 2, 'instrument_demand': 10,
     'data_product_rate': 4},
    {'name': 'mid', 'start': 11, 'duration': 5, 'instrument_demand': 10,
     'data_product_rate': 3},
]
WORKFLOWS = {'big': [600], 'small': [150], 'mid': [30]}  # task chains (flops)
HORIZON = 150


def write_workflow(path, comps):
    nodes = [{'comp': c, 'id': i} for i, c in enumerate(comps)]
    edges = [{'transfer_data': 0, 'source': i, 'target': i + 1}
             for i in range(len(comps) - 1)]
    graph = {'directed': True, 'multigraph': False, 'graph': {},
             'nodes': nodes, 'edges': edges}
    with open(path, 'w') as f:
        json.dump({'header': {}, 'graph': graph}, f)


def write_config(d):
    pipelines = {}
    for name, comps in WORKFLOWS.items():
        write_workflow(os.path.join(d, name + '.json'), comps)
        pipelines[name] = {'workflow': name + '.json', 'ingest_demand': 1}
    cfg = {
        'instrument': {'telescope': {
            'total_arrays': 36, 'max_ingest_resources': 2,
            'pipelines': pipelines, 'observations': OBSERVATIONS}},
        'cluster': {'header': {}, 'system': {
            'resources': {'m%d' % i: {'flops': 10, 'compute_bandwidth': 10}
                          for i in range(6)},
            'system_bandwidth': 1.0}},
        'buffer': {
            'hot': {'capacity': HOT_CAP, 'max_ingest_rate': 6},
            'cold': {'capacity': COLD_CAP, 'max_data_rate': 4}},
        'timestep': 'seconds',
    }
    path = os.path.join(d, 'config.json')
    with open(path, 'w') as f:
        json.dump(cfg, f)
    return path


def run(d):
    """Returns None if everything is fine, otherwise a failure message."""
    env = simpy.Environment()
    sim = Simulation(
        env=env, config=write_config(d), instrument=Telescope,
        planning_model=BatchPlanning('batch'), planning_algorithm='batch',
        scheduling=BatchProcessing(max_resource_partitions=3,
                                   min_resources_per_workflow=1),
        delay=None, timestamp=0)
    hot, cold = sim.buffer.hot[0], sim.buffer.cold[0]
    expected = {o['name']: o['data_product_rate'] * o['duration']
                for o in OBSERVATIONS}
    visited_cold = False
    sim.start(runtime=1)
    while env.now < HORIZON:
        if not 0 <= hot.current_capacity <= hot.total_capacity:
            return ('t=%s hot free space %s outside [0, %s]'
                    % (env.now, hot.current_capacity, hot.total_capacity))
        for o in sim.instrument.observations:
            # Once the telescope is done with an observation its data must
            # be complete
            if o.status.value == 'FINISHED' \
                    and o.total_data_size != expected[o.name]:
                return ('t=%s observation %s deposited %s, required rate x '
                        'duration = %s' % (env.now, o.name,
                                           o.total_data_size,
                                           expected[o.name]))
        # Used space == data of resident observations; only checked while
        # no hot<->cold transfer is in flight (then an observation is
        # partly in each buffer)
        in_flight = (hot.observations['transfer'] is not None
                     or cold.observations['transfer'] is not None)
        if not in_flight:
            in_cold = cold.observations['stored']
            if in_cold:
                visited_cold = True
            resident = sum(
                o.total_data_size for o in sim.instrument.observations
                if o not in hot.observations['finished'] and o not in in_cold)
            used = hot.total_capacity - hot.current_capacity
            if used != resident:
                return ('t=%s hot used space %s, data of resident '
                        'observations %s' % (env.now, used, resident))
            cold_used = cold.total_capacity - cold.current_capacity
            cold_resident = sum(o.total_data_size for o in in_cold)
            if cold_used != cold_resident:
                return ('t=%s cold used space %s, data of observations '
                        'stored in it %s' % (env.now, cold_used,
                                             cold_resident))
        if sim.is_finished():
            break
        sim.resume(env.now + 1)
    if not sim.is_finished():
        return ('simulation not finished at t=%s: hot free %s (required %s), '
                'cold free %s (required %s), finished workflows %s'
                % (env.now, hot.current_capacity, hot.total_capacity,
                   cold.current_capacity, cold.total_capacity,
                   [o.name for o in hot.observations['finished']]))
    if hot.current_capacity != hot.total_capacity \
            or cold.current_capacity != cold.total_capacity:
        return ('after last workflow hot free %s / %s, cold free %s / %s'
                % (hot.current_capacity, hot.total_capacity,
                   cold.current_capacity, cold.total_capacity))
    if not visited_cold:
        return 'scenario broken: no observation was parked in the cold buffer'
    if len(hot.observations['finished']) != len(OBSERVATIONS):
        return ('only %s of %s workflows freed their data'
                % (len(hot.observations['finished']), len(OBSERVATIONS)))
    return None


def main():
    d = tempfile.mkdtemp(prefix='c07demo2_')
    try:
        devnull = open(os.devnull, 'w')
        stdout, sys.stdout = sys.stdout, devnull
        try:
            msg = run(d)
        finally:
            sys.stdout = stdout
            devnull.close()
    finally:
        shutil.rmtree(d, ignore_errors=True)
    if msg is None:
        print('PASS')
        return 0
    print('FAIL: ' + msg)
    return 1


if __name__ == '__main__':
    sys.exit(main())
