"""
demo1 - two observations whose ingest OVERLAPS in time.

Property C07: every observation deposits exactly its data rate per timestep
for exactly its duration (rate x duration in total), hot-buffer used space
always equals the data of the resident observations, and after the last
workflow both buffers are back at full free capacity.

Usage: python demo1.py <path-to-topsim-tree>
"""
import sys

sys.path.insert(0, sys.argv[1])

import json
import logging
import os
import shutil
import tempfile

logging.disable(logging.CRITICAL)

import simpy

from topsim.core.simulation import Simulation
from topsim.user.telescope import Telescope
from topsim.user.plan.batch_planning import BatchPlanning
from topsim.user.schedule.batch_allocation import BatchProcessing

HOT_CAP = 100
COLD_CAP = 100
OBSERVATIONS = [
    # 'a' ingests during t=0..4, 'b' during t=3..8 : they overlap at t=3,4
    {'name': 'a', 'start': 0, 'duration': 5, 'instrument_demand': 10,
     'data_product_rate': 4},
    {'name': 'b', 'start': 3, 'duration': 6, 'instrument_demand': 10,
     'data_product_rate': 3},
]
WORKFLOWS = {'a': [50, 50], 'b': [30]}  # chains of tasks (flops)
HORIZON = 80


def write_workflow(path, comps):
    nodes = [{'comp': c, 'id': i} for i, c in enumerate(comps)]
    edges = [{'transfer_data': 0, 'source': i, 'target': i + 1}
             for i in range(len(comps) - 1)]
    graph = {'directed': True, 'multigraph': False, 'graph': {},
             'nodes': nodes, 'edges': edges}
    with open(path, 'w') as f:
        json.dump({'header': {}, 'graph': graph}, f)


def write_config(d):
    pipelines = {}
    for name, comps in WORKFLOWS.items():
        write_workflow(os.path.join(d, name + '.json'), comps)
        pipelines[name] = {'workflow': name + '.json', 'ingest_demand': 1}
    cfg = {
        'instrument': {'telescope': {
            'total_arrays': 36, 'max_ingest_resources': 2,
            'pipelines': pipelines, 'observations': OBSERVATIONS}},
        'cluster': {'header': {}, 'system': {
            'resources': {'m%d' % i: {'flops': 10, 'compute_bandwidth': 10}
                          for i in range(6)},
            'system_bandwidth': 1.0}},
        'buffer': {
            'hot': {'capacity': HOT_CAP, 'max_ingest_rate': 5},
            'cold': {'capacity': COLD_CAP, 'max_data_rate': 5}},
        'timestep': 'seconds',
    }
    path = os.path.join(d, 'config.json')
    with open(path, 'w') as f:
        json.dump(cfg, f)
    return path


def run(d):
    """Returns None if everything is fine, otherwise a failure message."""
    env = simpy.Environment()
    sim = Simulation(
        env=env, config=write_config(d), instrument=Telescope,
        planning_model=BatchPlanning('batch'), planning_algorithm='batch',
        scheduling=BatchProcessing(max_resource_partitions=2,
                                   min_resources_per_workflow=1),
        delay=None, timestamp=0)
    hot, cold = sim.buffer.hot[0], sim.buffer.cold[0]
    expected = {o['name']: o['data_product_rate'] * o['duration']
                for o in OBSERVATIONS}
    sim.start(runtime=1)
    while env.now < HORIZON:
        if not 0 <= hot.current_capacity <= hot.total_capacity:
            return ('t=%s hot free space %s outside [0, %s]'
                    % (env.now, hot.current_capacity, hot.total_capacity))
        for o in sim.instrument.observations:
            # Once the telescope is done with an observation its data must
            # be complete
            if o.status.value == 'FINISHED' \
                    and o.total_data_size != expected[o.name]:
                return ('t=%s observation %s deposited %s, required rate x '
                        'duration = %s' % (env.now, o.name,
                                           o.total_data_size,
                                           expected[o.name]))
        # Used space == data of resident observations (nothing goes to the
        # cold buffer in this scenario)
        resident = sum(o.total_data_size for o in sim.instrument.observations
                       if o not in hot.observations['finished'])
        used = hot.total_capacity - hot.current_capacity
        if used != resident:
            return ('t=%s hot used space %s, data of resident observations %s'
                    % (env.now, used, resident))
        if sim.is_finished():
            break
        sim.resume(env.now + 1)
    if not sim.is_finished():
        return ('simulation not finished at t=%s: hot free %s (required %s), '
                'cold free %s (required %s), finished workflows %s'
                % (env.now, hot.current_capacity, hot.total_capacity,
                   cold.current_capacity, cold.total_capacity,
                   [o.name for o in hot.observations['finished']]))
    if hot.current_capacity != hot.total_capacity \
            or cold.current_capacity != cold.total_capacity:
        return ('after last workflow hot free %s / %s, cold free %s / %s'
                % (hot.current_capacity, hot.total_capacity,
                   cold.current_capacity, cold.total_capacity))
    if len(hot.observations['finished']) != len(OBSERVATIONS):
        return ('only %s of %s workflows freed their data'
                % (len(hot.observations['finished']), len(OBSERVATIONS)))
    return None


def main():
    d = tempfile.mkdtemp(prefix='c07demo1_')
    try:
        devnull = open(os.devnull, 'w')
        stdout, sys.stdout = sys.stdout, devnull
        try:
            msg = run(d)
        finally:
            sys.stdout = stdout
            devnull.close()
    finally:
        shutil.rmtree(d, ignore_errors=True)
    if msg is None:
        print('PASS')
        return 0
    print('FAIL: ' + msg)
    return 1


if __name__ == '__main__':
    sys.exit(main())
