"""
demo3 - a hot buffer whose configured maximum ingest rate is NOT a whole
number (5.5 data units per timestep).

Property C07: ingest above the buffer's maximum ingest rate is rejected with
an error.  An observation producing 6 units per timestep is above 5.5 and
must be rejected (ValueError from HotBuffer.process_incoming_data_stream,
nothing deposited); a control observation producing 5 units per timestep must
be ingested, processed and freed normally.

Usage: python demo3.py <path-to-topsim-tree>
"""
import sys

sys.path.insert(0, sys.argv[1])

import json
import logging
import os
import shutil
import tempfile

logging.disable(logging.CRITICAL)

import simpy

from topsim.core.simulation import Simulation
from topsim.user.telescope import Telescope
from topsim.user.plan.batch_planning import BatchPlanning
from topsim.user.schedule.batch_allocation import BatchProcessing

HOT_CAP = 100
COLD_CAP = 100
MAX_INGEST_RATE = 5.5
HORIZON = 60


def write_workflow(path, comps):
    nodes = [{'comp': c, 'id': i} for i, c in enumerate(comps)]
    edges = [{'transfer_data': 0, 'source': i, 'target': i + 1}
             for i in range(len(comps) - 1)]
    graph = {'directed': True, 'multigraph': False, 'graph': {},
             'nodes': nodes, 'edges': edges}
    with open(path, 'w') as f:
        json.dump({'header': {}, 'graph': graph}, f)


def write_config(d, rate):
    os.makedirs(d)
    write_workflow(os.path.join(d, 'wf.json'), [30, 30])
    cfg = {
        'instrument': {'telescope': {
            'total_arrays': 36, 'max_ingest_resources': 2,
            'pipelines': {'obs': {'workflow': 'wf.json', 'ingest_demand': 1}},
            'observations': [
                {'name': 'obs', 'start': 0, 'duration': 5,
                 'instrument_demand': 10, 'data_product_rate': rate}]}},
        'cluster': {'header': {}, 'system': {
            'resources': {'m%d' % i: {'flops': 10, 'compute_bandwidth': 10}
                          for i in range(4)},
            'system_bandwidth': 1.0}},
        'buffer': {
            'hot': {'capacity': HOT_CAP, 'max_ingest_rate': MAX_INGEST_RATE},
            'cold': {'capacity': COLD_CAP, 'max_data_rate': 5}},
        'timestep': 'seconds',
    }
    path = os.path.join(d, 'config.json')
    with open(path, 'w') as f:
        json.dump(cfg, f)
    return path


def simulate(d, rate):
    """
    Run one single-observation simulation.
    Returns (error, minimum hot free space seen, final hot free, finished)
    """
    env = simpy.Environment()
    sim = Simulation(
        env=env, config=write_config(d, rate), instrument=Telescope,
        planning_model=BatchPlanning('batch'), planning_algorithm='batch',
        scheduling=BatchProcessing(max_resource_partitions=1,
                                   min_resources_per_workflow=1),
        delay=None, timestamp=0)
    hot = sim.buffer.hot[0]
    low = hot.current_capacity
    error = None
    try:
        sim.start(runtime=1)
        while env.now < HORIZON and not sim.is_finished():
            low = min(low, hot.current_capacity)
            sim.resume(env.now + 1)
        low = min(low, hot.current_capacity)
    except ValueError as e:
        error = e
        low = min(low, hot.current_capacity)
    return error, low, hot.current_capacity, sim.is_finished()


def run(d):
    """Returns None if everything is fine, otherwise a failure message."""
    # Control: 5 <= 5.5 is within the limit
    error, low, final, finished = simulate(os.path.join(d, 'ok'), 5)
    if error is not None:
        return ('ingest at 5/timestep rejected (%s) although the maximum '
                'ingest rate is %s' % (error, MAX_INGEST_RATE))
    if low != HOT_CAP - 25 or final != HOT_CAP or not finished:
        return ('control run: lowest hot free %s (required %s), final %s '
                '(required %s), finished %s'
                % (low, HOT_CAP - 25, final, HOT_CAP, finished))
    # 6 > 5.5 is above the limit
    error, low, final, finished = simulate(os.path.join(d, 'over'), 6)
    if error is None:
        return ('ingest at 6/timestep was accepted (hot free space went '
                'down to %s) although the maximum ingest rate is %s; '
                'required: rejected with an error, nothing deposited'
                % (low, MAX_INGEST_RATE))
    if low != HOT_CAP:
        return ('ingest at 6/timestep raised %r but hot free space went '
                'down to %s, required %s' % (error, low, HOT_CAP))
    return None


def main():
    d = tempfile.mkdtemp(prefix='c07demo3_')
    try:
        devnull = open(os.devnull, 'w')
        stdout, sys.stdout = sys.stdout, devnull
        try:
            msg = run(d)
        finally:
            sys.stdout = stdout
            devnull.close()
    finally:
        shutil.rmtree(d, ignore_errors=True)
    if msg is None:
        print('PASS')
        return 0
    print('FAIL: ' + msg)
    return 1


if __name__ == '__main__':
    sys.exit(main())
