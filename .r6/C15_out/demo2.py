"""
demo2 - C15: the delay model is deterministic - identical seed and arguments
give an identical duration, no matter how often the model (or a shallow copy
of it, which is what the planning models hand to every task) has been asked
before.

Three checks:
  1. one DelayModel object asked several times for the same runtime;
  2. shallow copies (copy.copy, as BatchPlanning.generate_plan makes per task)
     asked one after the other, compared with a freshly built model;
  3. a small batch simulation whose six workflow tasks all have the same
     runtime on identical machines: every task must run for exactly the
     duration a fresh DelayModel(same prob/dist/degree/seed) returns for
     that runtime.

usage: demo2.py <path-to-tree>
"""
import sys

sys.path.insert(0, sys.argv[1])

import copy  # noqa: E402
import json  # noqa: E402
import logging  # noqa: E402
import os  # noqa: E402
import shutil  # noqa: E402
import tempfile  # noqa: E402

import simpy  # noqa: E402

logging.disable(logging.CRITICAL)

from topsim.core.delay import DelayModel  # noqa: E402
from topsim.core.simulation import Simulation  # noqa: E402
from topsim.user.telescope import Telescope  # noqa: E402
from topsim.user.plan.batch_planning import BatchPlanning  # noqa: E402
from topsim.user.schedule.batch_allocation import BatchProcessing  # noqa: E402

ARGS = (0.3, 'normal', DelayModel.DelayDegree.LOW, 20)


def fresh():
    return DelayModel(ARGS[0], ARGS[1], ARGS[2], seed=ARGS[3])


def check_repeat():
    for dist in ('normal', 'poisson'):
        for prob in (0.3, 0.5):
            for runtime in (10, 40):
                dm = DelayModel(prob, dist, DelayModel.DelayDegree.MID, seed=20)
                got = [dm.generate_delay(runtime) for _ in range(6)]
                if len(set(got)) != 1:
                    return (f"same DelayModel({prob}, {dist}, MID, seed=20)"
                            f".generate_delay({runtime}) called 6 times "
                            f"returned {got}; required 6 identical values")
    return None


def check_copies():
    proto = fresh()
    expected = fresh().generate_delay(10)
    got = [copy.copy(proto).generate_delay(10) for _ in range(6)]
    if got != [expected] * 6:
        return (f"six shallow copies of one DelayModel{ARGS} returned {got} "
                f"for runtime 10; a fresh model with the same seed and "
                f"arguments returns {expected} every time")
    return None


class RecordingBatchPlanning(BatchPlanning):
    """BatchPlanning that remembers the Task objects of every plan."""

    def __init__(self, algorithm, delay_model=None):
        super().__init__(algorithm, delay_model)
        self.recorded = []

    def generate_plan(self, clock, cluster, buffer, observation, max_ingest):
        plan = super().generate_plan(clock, cluster, buffer, observation,
                                     max_ingest)
        self.recorded.extend(plan.tasks)
        return plan


def write_config(tmp):
    nodes = [{"id": i, "comp": 100} for i in range(6)]
    edges = [{"source": s, "target": t, "transfer_data": 0}
             for s, t in ((0, 1), (0, 2), (0, 3), (1, 4), (2, 4), (3, 5))]
    wf = {"header": {"time": False},
          "graph": {"directed": True, "multigraph": False, "graph": {},
                    "nodes": nodes, "edges": edges}}
    with open(os.path.join(tmp, 'wf.json'), 'w') as f:
        json.dump(wf, f)
    machines = {f"m{i}": {"flops": 10, "compute_bandwidth": 10}
                for i in range(4)}
    cfg = {
        "instrument": {"telescope": {
            "total_arrays": 36, "max_ingest_resources": 1,
            "pipelines": {"emu": {"workflow": "wf.json", "ingest_demand": 1}},
            "observations": [{"name": "emu", "start": 0, "duration": 5,
                              "instrument_demand": 36,
                              "data_product_rate": 1000000000.0}]}},
        "cluster": {"header": {"time": "false"},
                    "system": {"resources": machines,
                               "system_bandwidth": 1.0}},
        "buffer": {"hot": {"capacity": 500000000000.0,
                           "max_ingest_rate": 5000000000.0},
                   "cold": {"capacity": 250000000000.0,
                            "max_data_rate": 2000000000.0}},
        "planning": "batch", "scheduling": "batch"}
    path = os.path.join(tmp, 'sim.json')
    with open(path, 'w') as f:
        json.dump(cfg, f)
    return path


def check_simulation():
    tmp = tempfile.mkdtemp(prefix='c15demo2_')
    try:
        cfg = write_config(tmp)
        planning = RecordingBatchPlanning('batch', delay_model=fresh())
        sim = Simulation(env=simpy.Environment(), config=cfg,
                         instrument=Telescope, planning_model=planning,
                         planning_algorithm='batch',
                         scheduling=BatchProcessing(
                             min_resources_per_workflow=1),
                         delay=None, timestamp=0)
        sim.start(runtime=200)
        tasks = planning.recorded
        if len(tasks) != 6 or any(t.aft < 0 for t in tasks):
            return (f"simulation did not complete the 6 workflow tasks "
                    f"({[(t.id, t.ast, t.aft) for t in tasks]})")
        runtime = 10  # comp 100 on machines with 10 flops/timestep
        expected = fresh().generate_delay(runtime)
        actual = {t.id.split('_')[-1]: t.aft - t.ast for t in tasks}
        bad = {k: v for k, v in actual.items() if v != expected}
        if any(t.duration != runtime for t in tasks):
            return f"unexpected task runtimes {[t.duration for t in tasks]}"
        if bad:
            return (f"six equal tasks (runtime {runtime}) with copies of "
                    f"DelayModel{ARGS} ran for {actual} timesteps; a model "
                    f"with that seed and arguments returns {expected} for "
                    f"every one of them")
        return None
    finally:
        shutil.rmtree(tmp, ignore_errors=True)


def main():
    for check in (check_repeat, check_copies, check_simulation):
        problem = check()
        if problem:
            print("FAIL: " + problem)
            return 1
    print("PASS")
    return 0


if __name__ == '__main__':
    sys.exit(main())
