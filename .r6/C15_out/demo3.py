"""
demo3 - C15: whenever a delay is actually added to a task, the task is
flagged as delayed and the scheduler reports a DELAYED schedule once the task
has completed.

Situation needed: the plan was made with a conservative estimate (the planner
assumed a slower reference machine, so eft - est = 20 timesteps per task) but
on the machine the task really runs on its runtime is only 10 timesteps
(flops 100 / 10 flops per timestep).  The delay model then lengthens the task
(10 -> 1x timesteps); the lengthened task still fits into the planned window,
so the ONLY thing that can reveal the delay is the comparison of the delayed
duration with the task's actual runtime.

  part 1: one hand-built Task run through Task.do_work in simpy and handed to
          Scheduler._update_current_plan.
  part 2: a full simulation with a small Planning subclass that provides
          planned machines / est / eft, scheduled with
          DynamicSchedulingFromPlan; a control run with degree NONE must stay
          ONTIME, the run with delays must be reported DELAYED.

usage: demo3.py <path-to-tree>
"""
import sys

sys.path.insert(0, sys.argv[1])

import copy  # noqa: E402
import json  # noqa: E402
import logging  # noqa: E402
import os  # noqa: E402
import shutil  # noqa: E402
import tempfile  # noqa: E402

import networkx as nx  # noqa: E402
import simpy  # noqa: E402

logging.disable(logging.CRITICAL)

from topsim.core.delay import DelayModel  # noqa: E402
from topsim.core.machine import Machine  # noqa: E402
from topsim.core.planner import WorkflowPlan, WorkflowStatus  # noqa: E402
from topsim.core.scheduler import Scheduler, ScheduleStatus  # noqa: E402
from topsim.core.simulation import Simulation  # noqa: E402
from topsim.core.task import Task, TaskStatus  # noqa: E402
from topsim.user.telescope import Telescope  # noqa: E402
from topsim.user.plan.batch_planning import BatchPlanning  # noqa: E402
from topsim.user.schedule.dynamic_plan import (  # noqa: E402
    DynamicSchedulingFromPlan)


class PlusThree:
    """Injected per-task delay: always three extra timesteps."""

    def generate_delay(self, runtime, n=100):
        return runtime + 3


def part_one():
    env = simpy.Environment()
    machine = Machine('m0', cpu=10, memory=1, disk=1, bandwidth=10)
    task = Task('obs_0_0', est=0, eft=20, machine_id='m0', predecessors=[],
                flops=100, task_data=0, io={}, delay=PlusThree())
    env.process(task.do_work(env, machine))
    env.run()
    if task.aft - task.ast != 13:
        return (f"part 1: task ran for {task.aft - task.ast} timesteps; "
                f"expected runtime 10 + injected delay 3 = 13")
    if not task.delay_flag:
        return ("part 1: task with runtime 10 ran for 13 timesteps (delay of "
                "3 added, planned window 20) but task.delay_flag is False; "
                "required True")
    task.task_status = TaskStatus.FINISHED
    sched = Scheduler(env, None, None, None)
    plan = WorkflowPlan('obs', 0, -1, [task], [], WorkflowStatus.SCHEDULED, 1)
    remaining = sched._update_current_plan(plan)
    if remaining or sched.scheduler_status() is not ScheduleStatus.DELAYED:
        return (f"part 1: scheduler status after the delayed task completed "
                f"is {sched.scheduler_status()}; required DELAYED")
    return None


class ConservativePlanning(BatchPlanning):
    """Static plan: round-robin planned machines, generous est/eft (absolute
    times far in the future, 20 timesteps per task), so neither the workflow
    nor any task is late unless the delay model makes it so."""

    WINDOW = 20
    BASE = 1000

    def __init__(self, algorithm, delay_model=None):
        super().__init__(algorithm, delay_model)
        self.recorded = []

    def generate_plan(self, clock, cluster, buffer, observation, max_ingest):
        graph = self._workflow_to_nx(observation.workflow)
        machines = [m.id for m in cluster.get_available_resources()]
        mapping = {}
        tasks = []
        order = list(nx.algorithms.topological_sort(graph))
        for i, node in enumerate(order):
            tid = self._create_observation_task_id(node, observation, clock)
            preds = [self._create_observation_task_id(x, observation, clock)
                     for x in graph.predecessors(node)]
            costs = {self._create_observation_task_id(x, observation, clock):
                     graph.pred[node][x]["transfer_data"]
                     for x in graph.pred[node]}
            est = self.BASE + i * self.WINDOW
            t = Task(tid, est, est + self.WINDOW,
                     machines[i % len(machines)], preds,
                     graph.nodes[node]['comp'], 0, costs,
                     copy.copy(self.delay_model), gid=node)
            mapping[node] = t
            tasks.append(t)
        self.recorded.extend(tasks)
        return WorkflowPlan(observation.name, self.BASE, -1, tasks, order,
                            WorkflowStatus.SCHEDULED, max_ingest,
                            nx.relabel_nodes(graph, mapping))


def write_config(tmp):
    nodes = [{"id": i, "comp": 100} for i in range(4)]
    edges = [{"source": s, "target": t, "transfer_data": 0}
             for s, t in ((0, 1), (0, 2), (1, 3), (2, 3))]
    wf = {"header": {"time": False},
          "graph": {"directed": True, "multigraph": False, "graph": {},
                    "nodes": nodes, "edges": edges}}
    with open(os.path.join(tmp, 'wf.json'), 'w') as f:
        json.dump(wf, f)
    machines = {f"m{i}": {"flops": 10, "compute_bandwidth": 10}
                for i in range(4)}
    cfg = {
        "instrument": {"telescope": {
            "total_arrays": 36, "max_ingest_resources": 1,
            "pipelines": {"emu": {"workflow": "wf.json", "ingest_demand": 1}},
            "observations": [{"name": "emu", "start": 0, "duration": 5,
                              "instrument_demand": 36,
                              "data_product_rate": 1000000000.0}]}},
        "cluster": {"header": {"time": "false"},
                    "system": {"resources": machines,
                               "system_bandwidth": 1.0}},
        "buffer": {"hot": {"capacity": 500000000000.0,
                           "max_ingest_rate": 5000000000.0},
                   "cold": {"capacity": 250000000000.0,
                            "max_data_rate": 2000000000.0}},
        "planning": "static", "scheduling": "dynamic"}
    path = os.path.join(tmp, 'sim.json')
    with open(path, 'w') as f:
        json.dump(cfg, f)
    return path


def run_sim(cfg, dm):
    planning = ConservativePlanning('batch', delay_model=dm)
    sim = Simulation(env=simpy.Environment(), config=cfg,
                     instrument=Telescope, planning_model=planning,
                     planning_algorithm='batch',
                     scheduling=DynamicSchedulingFromPlan(),
                     delay=None, timestamp=0)
    sim.start(runtime=200)
    return sim, planning.recorded


def part_two():
    tmp = tempfile.mkdtemp(prefix='c15demo3_')
    try:
        cfg = write_config(tmp)
        # control: no delays -> everything on time
        sim, tasks = run_sim(
            cfg, DelayModel(1.0, 'normal', DelayModel.DelayDegree.NONE))
        if len(tasks) != 4 or any(
                t.task_status is not TaskStatus.FINISHED for t in tasks):
            return "part 2: control simulation did not finish its 4 tasks"
        if (any(t.delay_flag for t in tasks)
                or sim.scheduler.scheduler_status() is not
                ScheduleStatus.ONTIME):
            return ("part 2: control run without delays is not ONTIME "
                    f"({sim.scheduler.scheduler_status()})")
        # delays: every task is lengthened by the model
        dm = DelayModel(1.0, 'normal', DelayModel.DelayDegree.HIGH, seed=20)
        sim, tasks = run_sim(cfg, dm)
        if any(t.task_status is not TaskStatus.FINISHED for t in tasks):
            return "part 2: delayed simulation did not finish its 4 tasks"
        lengths = {t.id.split('_')[-1]: (t.duration, t.aft - t.ast)
                   for t in tasks}
        added = [t for t in tasks if t.aft - t.ast > t.duration]
        if len(added) != 4:
            return f"part 2: expected 4 lengthened tasks, got {lengths}"
        unflagged = [t.id for t in added if not t.delay_flag]
        status = sim.scheduler.scheduler_status()
        if unflagged or status is not ScheduleStatus.DELAYED:
            return (f"part 2: (runtime, actual length) per task = {lengths}: "
                    f"a delay was added to all 4 tasks, but tasks "
                    f"{unflagged} are not flagged delayed and the scheduler "
                    f"reports {status.value} after they completed; required "
                    f"all flagged and DELAYED")
        return None
    finally:
        shutil.rmtree(tmp, ignore_errors=True)


def main():
    for part in (part_one, part_two):
        problem = part()
        if problem:
            print("FAIL: " + problem)
            return 1
    print("PASS")
    return 0


if __name__ == '__main__':
    sys.exit(main())
