"""
demo1 - C15: the delay model never fails and never shortens a task.

Sweeps DelayModel.generate_delay over the 'normal' and 'poisson' distributions,
all degrees, a range of seeds and all whole runtimes 0..12 with probability 1
(a delay is always attempted).  Short runtimes with the poisson distribution
give very small samples (int(runtime / degree) draws) in which frequently NO
draw lies above the mean; the model must then fall back to "no delay".

Finally the same situation is replayed through Task.do_work in a simpy
environment (the way a simulation reaches the delay model).

usage: demo1.py <path-to-tree>
"""
import sys

sys.path.insert(0, sys.argv[1])

import simpy  # noqa: E402
from topsim.core.delay import DelayModel  # noqa: E402
from topsim.core.task import Task  # noqa: E402


def sweep():
    problems = []
    checked = 0
    for dist in ('normal', 'poisson'):
        for degree in DelayModel.DelayDegree:
            for seed in range(0, 10):
                for runtime in range(0, 13):
                    dm = DelayModel(1.0, dist, degree, seed=seed)
                    checked += 1
                    try:
                        total = dm.generate_delay(runtime)
                    except Exception as exc:  # the model must never fail
                        problems.append(
                            f"generate_delay({runtime}) with dist={dist} "
                            f"degree={degree.name} seed={seed} raised "
                            f"{type(exc).__name__}: {exc}; required: a "
                            f"duration >= {runtime}")
                        continue
                    if total < runtime:
                        problems.append(
                            f"generate_delay({runtime}) with dist={dist} "
                            f"degree={degree.name} seed={seed} returned "
                            f"{total} < runtime {runtime}")
                    if (runtime == 0 or degree.value == 0) and total != runtime:
                        problems.append(
                            f"generate_delay({runtime}) with dist={dist} "
                            f"degree={degree.name} seed={seed} returned "
                            f"{total}; required exactly {runtime}")
    return checked, problems


def through_task():
    """A 1-timestep task with a poisson/HIGH delay model (seed 2: the single
    draw is 0, i.e. nothing above the mean) must simply run undelayed."""
    env = simpy.Environment()
    dm = DelayModel(1.0, 'poisson', DelayModel.DelayDegree.HIGH, seed=2)
    t = Task('demo_0_0', est=0, eft=1, machine_id=None, predecessors=None,
             flops=0, task_data=0, io=0, delay=dm)
    env.process(t.do_work(env, None))
    try:
        env.run()
    except Exception as exc:
        return (f"Task.do_work with poisson/HIGH seed=2 runtime=1 raised "
                f"{type(exc).__name__}: {exc}; required: the task runs for "
                f">= 1 timestep and finishes")
    if t.aft < 1:
        return f"task finished at {t.aft}; required >= 1"
    return None


def main():
    checked, problems = sweep()
    p = through_task()
    if p:
        problems.append(p)
    if problems:
        print(f"FAIL: {len(problems)} violation(s) in {checked} calls; "
              f"first: {problems[0]}")
        return 1
    print("PASS")
    return 0


if __name__ == '__main__':
    sys.exit(main())
