"""
demo2 - C16: with a 'real time' buffer set-up (cold max_data_rate < 0) the hot
buffer ingest-rate limit must still be multiplied by the unit factor, so that
the comparison "observation data rate <= ingest limit" and the ingested data
volume come out the same for seconds / minutes / hours / custom units.

usage: python demo2.py <path-to-tree>
"""
import json
import logging
import os
import shutil
import sys
import tempfile

sys.path.insert(0, os.path.abspath(sys.argv[1]))
logging.disable(logging.CRITICAL)

import simpy  # noqa: E402
from topsim.core.config import Config  # noqa: E402
from topsim.core.buffer import Buffer  # noqa: E402
from topsim.core.instrument import RunStatus  # noqa: E402

HOT_LIMIT = 5        # per second
OK_RATE = 3          # per second, below the limit
EXACT_RATE = 5       # per second, exactly the limit
BAD_RATE = 7         # per second, above the limit
DURATION = 7200      # seconds
START = 3600         # seconds
HOT_CAPACITY = 100000
COLD_CAPACITY = 90000


def make_config(directory, unit, label, cold_rate):
    obs = [
        {"name": n, "start": START, "duration": DURATION,
         "instrument_demand": 1, "data_product_rate": r}
        for n, r in (("ok", OK_RATE), ("exact", EXACT_RATE), ("bad", BAD_RATE))
    ]
    cfg = {
        "instrument": {"telescope": {
            "total_arrays": 36, "max_ingest_resources": 1,
            "pipelines": {n: {"workflow": "none.json", "ingest_demand": 1}
                          for n in ("ok", "exact", "bad")},
            "observations": obs}},
        "cluster": {"system": {
            "resources": {"m0": {"flops": 10, "compute_bandwidth": 4}},
            "system_bandwidth": 2}},
        "buffer": {"hot": {"capacity": HOT_CAPACITY,
                           "max_ingest_rate": HOT_LIMIT},
                   "cold": {"capacity": COLD_CAPACITY,
                            "max_data_rate": cold_rate}},
    }
    if unit is not None:
        cfg["timestep"] = unit
    path = os.path.join(directory, f"cfg_{label}_{cold_rate}.json")
    with open(path, "w") as fp:
        json.dump(cfg, fp)
    return path


def ingest(config, observation):
    """Stream one observation into a fresh Buffer; returns (outcome, volume)"""
    env = simpy.Environment()
    buf = Buffer(env, None, None, config)
    observation.status = RunStatus.RUNNING
    env.process(buf.ingest_data_stream(observation))
    try:
        env.run()
    except ValueError:
        return "refused", observation.total_data_size
    return "accepted", observation.total_data_size


def main():
    problems = []
    tmp = tempfile.mkdtemp(prefix="c16_demo2_")
    try:
        units = [(None, 1, "seconds"), ("minutes", 60, "minutes"),
                 ("hours", 3600, "hours"), (30, 30, "custom30")]
        expected = {"ok": "accepted", "exact": "accepted", "bad": "refused"}
        for cold_rate in (2, -1):   # ordinary and 'real time' buffer set-ups
            mode = "real-time" if cold_rate < 0 else "ordinary"
            for unit, factor, label in units:
                config = Config(make_config(tmp, unit, label, cold_rate))
                hot, cold = config.parse_buffer_config()
                if hot[0].max_ingest_data_rate != HOT_LIMIT * factor:
                    problems.append(
                        f"{mode}/{label}: hot ingest limit "
                        f"{hot[0].max_ingest_data_rate} vs required "
                        f"{HOT_LIMIT * factor}")
                if hot[0].total_capacity != HOT_CAPACITY \
                        or cold[0].total_capacity != COLD_CAPACITY:
                    problems.append(f"{mode}/{label}: capacities were scaled")
                if (cold[0].max_data_rate < 0) != (cold_rate < 0):
                    problems.append(f"{mode}/{label}: cold rate changed sign")
                _, _, observations, _ = config.parse_instrument_config(
                    "telescope")
                for o in observations:
                    outcome, volume = ingest(config, o)
                    if outcome != expected[o.name]:
                        problems.append(
                            f"{mode}/{label}: observation '{o.name}' "
                            f"({o.ingest_data_rate}/timestep against limit "
                            f"{hot[0].max_ingest_data_rate}/timestep) was "
                            f"{outcome} vs required {expected[o.name]} "
                            f"as with a seconds timestep")
                    elif outcome == "accepted":
                        raw = OK_RATE if o.name == "ok" else EXACT_RATE
                        if volume != raw * DURATION:
                            problems.append(
                                f"{mode}/{label}: '{o.name}' volume {volume}"
                                f" vs required {raw * DURATION}")
    finally:
        shutil.rmtree(tmp, ignore_errors=True)

    if problems:
        print("FAIL: " + "; ".join(problems[:4])
              + (f" (+{len(problems) - 4} more)" if len(problems) > 4 else ""))
        return 1
    print("PASS")
    return 0


if __name__ == "__main__":
    sys.exit(main())
