"""
demo1 - C16: a Config object that is used to build a second Cluster must give
the second cluster the same (raw * unit-factor) machine speeds / bandwidths as
the first one, so that task runtimes in seconds do not depend on the unit.

usage: python demo1.py <path-to-tree>
"""
import json
import logging
import os
import shutil
import sys
import tempfile

sys.path.insert(0, os.path.abspath(sys.argv[1]))
logging.disable(logging.CRITICAL)

import simpy  # noqa: E402
from topsim.core.config import Config  # noqa: E402
from topsim.core.cluster import Cluster  # noqa: E402
from topsim.core.task import Task  # noqa: E402

FLOPS = 10          # per second
BANDWIDTH = 4       # per second
SYS_BANDWIDTH = 2   # per second
TASK_FLOPS = 36000 * 4   # 14400 s of work on one machine
TASK_DATA = 3600 * 4 * 2  # 7200 s of data movement


def make_config(directory, unit, label):
    cfg = {
        "instrument": {"telescope": {
            "total_arrays": 36, "max_ingest_resources": 1,
            "pipelines": {}, "observations": []}},
        "cluster": {"system": {
            "resources": {
                "m0": {"flops": FLOPS, "compute_bandwidth": BANDWIDTH},
                "m1": {"flops": FLOPS, "compute_bandwidth": BANDWIDTH}},
            "system_bandwidth": SYS_BANDWIDTH}},
        "buffer": {"hot": {"capacity": 500, "max_ingest_rate": 5},
                   "cold": {"capacity": 500, "max_data_rate": 2}},
    }
    if unit is not None:
        cfg["timestep"] = unit
    path = os.path.join(directory, f"cfg_{label}.json")
    with open(path, "w") as fp:
        json.dump(cfg, fp)
    return path


def runtime_in_timesteps(machine):
    """Actually run a task on the machine and measure aft - ast."""
    env = simpy.Environment()
    task = Task("t0", 0, 0, None, [], flops=TASK_FLOPS, task_data=TASK_DATA,
                io={})
    env.process(task.do_work(env, machine, None))
    env.run()
    return task.aft - task.ast


def main():
    problems = []
    tmp = tempfile.mkdtemp(prefix="c16_demo1_")
    try:
        units = [(None, 1, "seconds"), ("minutes", 60, "minutes"),
                 ("hours", 3600, "hours"), (15, 15, "custom15")]
        for unit, factor, label in units:
            config = Config(make_config(tmp, unit, label))
            # The same Config object drives two clusters, e.g. the simulation
            # is rebuilt for a second run without re-reading the JSON file.
            for attempt in (1, 2, 3):
                cluster = Cluster(simpy.Environment(), config)
                for m in cluster.machines:
                    if m.cpu != FLOPS * factor:
                        problems.append(
                            f"{label}: cluster #{attempt} machine {m.id} "
                            f"speed {m.cpu} vs required {FLOPS * factor}")
                    if m.bandwidth != BANDWIDTH * factor:
                        problems.append(
                            f"{label}: cluster #{attempt} machine {m.id} "
                            f"bandwidth {m.bandwidth} vs required "
                            f"{BANDWIDTH * factor}")
                if cluster.system_bandwidth != SYS_BANDWIDTH * factor:
                    problems.append(
                        f"{label}: cluster #{attempt} system bandwidth "
                        f"{cluster.system_bandwidth} vs required "
                        f"{SYS_BANDWIDTH * factor}")
                seconds = runtime_in_timesteps(cluster.machines[0]) * factor
                if seconds != TASK_FLOPS // FLOPS:
                    problems.append(
                        f"{label}: cluster #{attempt} task runtime "
                        f"{seconds}s vs required {TASK_FLOPS // FLOPS}s")
    finally:
        shutil.rmtree(tmp, ignore_errors=True)

    if problems:
        print("FAIL: " + "; ".join(problems[:4])
              + (f" (+{len(problems) - 4} more)" if len(problems) > 4 else ""))
        return 1
    print("PASS")
    return 0


if __name__ == "__main__":
    sys.exit(main())
