"""
demo3 - C16: an observation that declares workflow resource bounds
('min_workflow_resources' / 'max_workflow_resources') must have its start
time and duration divided, and its data rate multiplied, by the unit factor
exactly like any other observation, so that it goes on the telescope at the
same wall-clock second whatever the timestep unit.

usage: python demo3.py <path-to-tree>
"""
import json
import logging
import os
import shutil
import sys
import tempfile

sys.path.insert(0, os.path.abspath(sys.argv[1]))
logging.disable(logging.CRITICAL)

import simpy  # noqa: E402
from topsim.core.config import Config  # noqa: E402
from topsim.core.simulation import Simulation  # noqa: E402
from topsim.user.telescope import Telescope  # noqa: E402
from topsim.user.plan.batch_planning import BatchPlanning  # noqa: E402
from topsim.user.schedule.batch_allocation import BatchProcessing  # noqa: E402

START = 3600        # seconds
DURATION = 7200     # seconds
RATE = 2            # per second
SIM_START = 600     # seconds   (end-to-end runs use a shorter schedule)
SIM_DURATION = 1200  # seconds
HORIZON = 4800      # seconds simulated
MACHINE_FLOPS = 10  # per second
TASK_COMP = 6000    # -> 600 s on one machine

WORKFLOW = {
    "header": {"time": False},
    "graph": {
        "directed": True, "multigraph": False, "graph": {},
        "nodes": [{"comp": TASK_COMP, "id": 0}, {"comp": TASK_COMP, "id": 1}],
        "edges": [{"transfer_data": 0, "source": 0, "target": 1}],
    },
}


def make_config(directory, unit, label, bounds, start=START,
                duration=DURATION):
    observation = {"name": "obs", "start": start, "duration": duration,
                   "instrument_demand": 4, "data_product_rate": RATE}
    observation.update(bounds)
    cfg = {
        "instrument": {"telescope": {
            "total_arrays": 4, "max_ingest_resources": 1,
            "pipelines": {"obs": {"workflow": "workflow.json",
                                  "ingest_demand": 1}},
            "observations": [observation]}},
        "cluster": {"system": {
            "resources": {
                f"m{i}": {"flops": MACHINE_FLOPS, "compute_bandwidth": 4}
                for i in range(4)},
            "system_bandwidth": 2}},
        "buffer": {"hot": {"capacity": 40000, "max_ingest_rate": 5},
                   "cold": {"capacity": 40000, "max_data_rate": 4}},
    }
    if unit is not None:
        cfg["timestep"] = unit
    path = os.path.join(directory, f"cfg_{label}_{len(bounds)}.json")
    with open(path, "w") as fp:
        json.dump(cfg, fp)
    return path


def simulate(path, factor):
    sim = Simulation(
        env=simpy.Environment(), config=path, instrument=Telescope,
        planning_model=BatchPlanning('batch'), planning_algorithm='batch',
        scheduling=BatchProcessing(min_resources_per_workflow=1,
                                   max_resource_partitions=1),
        delay=None, timestamp=0)
    sim.start(runtime=HORIZON // factor)
    obs = sim.instrument.observations[0]
    started = None if obs.ast is None else obs.ast * factor
    return started, obs.total_data_size, str(obs.status.value)


def main():
    problems = []
    tmp = tempfile.mkdtemp(prefix="c16_demo3_")
    try:
        with open(os.path.join(tmp, "workflow.json"), "w") as fp:
            json.dump(WORKFLOW, fp)
        units = [(None, 1, "seconds"), ("minutes", 60, "minutes"),
                 ("hours", 3600, "hours"), (300, 300, "custom300")]
        variants = [({}, "plain"),
                    ({"min_workflow_resources": 1}, "min-bound"),
                    ({"max_workflow_resources": 2}, "max-bound"),
                    ({"min_workflow_resources": 1,
                      "max_workflow_resources": 2}, "both-bounds")]
        for bounds, vname in variants:
            for unit, factor, label in units:
                path = make_config(tmp, unit, f"{label}_{vname}", bounds)
                _, pipelines, observations, _ = Config(
                    path).parse_instrument_config("telescope")
                o = observations[0]
                if o.est != START / factor:
                    problems.append(
                        f"{vname}/{label}: start {o.est} timesteps vs "
                        f"required {START / factor}")
                if o.duration != DURATION / factor:
                    problems.append(
                        f"{vname}/{label}: duration {o.duration} vs required "
                        f"{DURATION / factor}")
                if o.ingest_data_rate != RATE * factor:
                    problems.append(
                        f"{vname}/{label}: data rate {o.ingest_data_rate} vs "
                        f"required {RATE * factor}")
                if o.demand != 4 or pipelines["obs"]["ingest_demand"] != 1:
                    problems.append(f"{vname}/{label}: demand was scaled")
        # End to end: when does the bounded observation go on the telescope?
        for unit, factor, label in units[:2] + units[3:]:
            path = make_config(tmp, unit, f"sim_{label}",
                               {"min_workflow_resources": 1,
                                "max_workflow_resources": 2},
                               start=SIM_START, duration=SIM_DURATION)
            started, volume, status = simulate(path, factor)
            if started != SIM_START:
                problems.append(
                    f"simulation/{label}: bounded observation went on the "
                    f"telescope at {started} s vs required {SIM_START} s")
            if volume != RATE * SIM_DURATION:
                problems.append(
                    f"simulation/{label}: data volume {volume} vs required "
                    f"{RATE * SIM_DURATION}")
    finally:
        shutil.rmtree(tmp, ignore_errors=True)

    if problems:
        print("FAIL: " + "; ".join(problems[:4])
              + (f" (+{len(problems) - 4} more)" if len(problems) > 4 else ""))
        return 1
    print("PASS")
    return 0


if __name__ == "__main__":
    sys.exit(main())
