"""
C01 demo 2: batch (reservation based) scheduling, three observations.

obsA is ingested and processed to completion (its reservation is released),
obsB is ingested and is being processed on its own reservation when the ingest
of obsC starts.  Required: the ingest tasks of obsC are placed on machines
that are not executing obsB's workflow tasks.
"""

import sys, os, json, shutil, tempfile, logging

if len(sys.argv) < 2:
    print("usage: demo.py <path-to-tree>")
    sys.exit(2)
sys.path.insert(0, os.path.abspath(sys.argv[1]))
logging.disable(logging.CRITICAL)
_devnull = open(os.devnull, 'w')
sys.stderr = _devnull          # tqdm progress bars

import simpy
from topsim.core.simulation import Simulation
from topsim.core.task import Task
from topsim.user.telescope import Telescope
from topsim.user.plan.batch_planning import BatchPlanning
from topsim.user.schedule.batch_allocation import BatchProcessing
from topsim.user.schedule.queue_allocation import QueueProcessing

# ---------------------------------------------------------------------------
# Observer: every execution of a task on a machine goes through Task.do_work
# (ingest tasks via Machine.run, workflow tasks via the cluster).  We wrap it
# and record [start, end) of every execution per machine.
# ---------------------------------------------------------------------------
RECORDS = []
_orig_do_work = Task.do_work


def _recording_do_work(self, env, machine, predecessor_allocations=None):
    rec = {'task': self.id, 'machine': machine.id, 'start': env.now,
           'end': None}
    RECORDS.append(rec)
    yield from _orig_do_work(self, env, machine, predecessor_allocations)
    rec['end'] = env.now


Task.do_work = _recording_do_work


def overlapping_executions(horizon):
    """Pairs of executions on one machine that overlap for a positive time"""
    bad = []
    by_machine = {}
    for r in RECORDS:
        by_machine.setdefault(r['machine'], []).append(r)
    for m in sorted(by_machine):
        rs = by_machine[m]
        for i in range(len(rs)):
            for j in range(i + 1, len(rs)):
                a, b = rs[i], rs[j]
                ae = horizon if a['end'] is None else a['end']
                be = horizon if b['end'] is None else b['end']
                if max(a['start'], b['start']) < min(ae, be):
                    bad.append("machine %s runs %s [%s,%s) and %s [%s,%s)" % (
                        m, a['task'], a['start'], ae, b['task'], b['start'],
                        be))
    return bad


def write_workflow(path, nodes, edges):
    graph = {"directed": True, "multigraph": False, "graph": {},
             "nodes": [{"id": n, "comp": c, "task_data": 0} for n, c in nodes],
             "edges": [{"source": s, "target": t, "transfer_data": d}
                       for s, t, d in edges]}
    with open(path, 'w') as f:
        json.dump({"header": {}, "graph": graph}, f)


def write_config(path, n_machines, pipelines, observations, max_ingest):
    cfg = {
        "instrument": {"telescope": {
            "total_arrays": 36, "max_ingest_resources": max_ingest,
            "pipelines": pipelines, "observations": observations}},
        "cluster": {"header": {}, "system": {
            "resources": {"m%d" % i: {"flops": 10, "compute_bandwidth": 10}
                          for i in range(n_machines)},
            "system_bandwidth": 1.0}},
        "buffer": {"hot": {"capacity": 1000, "max_ingest_rate": 100},
                   "cold": {"capacity": 1000, "max_data_rate": 100}},
        "timestep": "seconds"}
    with open(path, 'w') as f:
        json.dump(cfg, f)


def obs(name, start, duration):
    return {"name": name, "start": start, "duration": duration,
            "instrument_demand": 18, "data_product_rate": 2}


DIAMOND = ([(0, 50), (1, 70), (2, 30), (3, 40)],
           [(0, 1, 0), (0, 2, 0), (1, 3, 0), (2, 3, 0)])


def run(build, scheduling, horizon, min_executions):
    tmp = tempfile.mkdtemp(prefix='c01demo')
    error = None
    try:
        cfg = build(tmp)
        sim = Simulation(env=simpy.Environment(), config=cfg,
                         instrument=Telescope,
                         planning_model=BatchPlanning('batch'),
                         planning_algorithm='batch', scheduling=scheduling,
                         delay=None, timestamp=0)
        try:
            sim.start(runtime=horizon)
        except Exception as e:  # a crash after a violation is still reported
            error = repr(e)
    finally:
        shutil.rmtree(tmp, ignore_errors=True)
    bad = overlapping_executions(horizon)
    if bad:
        print("FAIL: required at most one task per machine at any time; "
              "observed " + "; ".join(bad))
        sys.exit(1)
    if error is not None:
        print("FAIL: simulation raised %s (required: clean run)" % error)
        sys.exit(1)
    unfinished = [r['task'] for r in RECORDS if r['end'] is None]
    if len(RECORDS) != min_executions or unfinished:
        print("FAIL: scenario did not run as designed: %d executions "
              "(expected %d), unfinished %s" % (len(RECORDS), min_executions,
                                                unfinished))
        sys.exit(1)
    print("PASS")
    sys.exit(0)


def build(tmp):
    write_workflow(os.path.join(tmp, 'wf.json'), *DIAMOND)
    pipe = {"workflow": "wf.json", "ingest_demand": 2}
    cfg = os.path.join(tmp, 'cfg.json')
    write_config(cfg, 4, {"obsA": pipe, "obsB": pipe, "obsC": pipe},
                 [obs("obsA", 0, 5), obs("obsB", 30, 5), obs("obsC", 40, 5)],
                 max_ingest=2)
    return cfg


run(build, BatchProcessing(min_resources_per_workflow=1,
                           max_resource_partitions=2),
    horizon=120, min_executions=18)
