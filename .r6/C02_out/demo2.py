"""
demo2 - C02: a refused task allocation leaves the pools unchanged.

A workflow task of an observation that holds a batch reservation is sent to a
machine that is currently running ingest.  The cluster must refuse the call
(it raises) and afterwards every machine must still be in exactly one pool.

Usage: python demo2.py <path-to-tree>
"""
import sys
import os
import json
import shutil
import tempfile

TREE = os.path.abspath(sys.argv[1]) if len(sys.argv) > 1 else os.getcwd()
sys.path.insert(0, TREE)

import simpy  # noqa: E402
from topsim.core.config import Config  # noqa: E402
from topsim.core.cluster import Cluster  # noqa: E402
from topsim.core.instrument import Observation  # noqa: E402
from topsim.core.task import Task  # noqa: E402

NMACH = 6


def write_config(tmp):
    cfg = {
        "instrument": {"telescope": {
            "total_arrays": 36, "max_ingest_resources": 2,
            "pipelines": {}, "observations": []}},
        "cluster": {"header": {}, "system": {
            "resources": {
                "m%d" % i: {"flops": 50, "compute_bandwidth": 10}
                for i in range(NMACH)},
            "system_bandwidth": 1.0}},
        "buffer": {"hot": {"capacity": 1000, "max_ingest_rate": 100},
                   "cold": {"capacity": 1000, "max_data_rate": 50}},
        "timestep": "seconds"}
    path = os.path.join(tmp, "cfg.json")
    with open(path, "w") as fp:
        json.dump(cfg, fp)
    return path


def snapshot(cluster):
    res = cluster._clusters['default']['resources']
    usage = cluster._clusters['default']['usage_data']
    return {
        'available': [m.id for m in res['available']],
        'ingest': [m.id for m in res['ingest']],
        'occupied': [m.id for m in res['occupied']],
        'idle': {k: [m.id for m in v] for k, v in res['idle'].items()},
        'usage': dict(usage),
        'running': [t.id for t in
                    cluster._clusters['default']['tasks']['running']],
    }


def partition_problems(cluster, label):
    snap = snapshot(cluster)
    where = {m.id: [] for m in cluster.machines}
    for pool in ('available', 'ingest', 'occupied'):
        for mid in snap[pool]:
            where[mid].append(pool)
    for obs, mids in snap['idle'].items():
        for mid in mids:
            where[mid].append('idle:%s' % obs)
    out = []
    for mid, pools in sorted(where.items()):
        if len(pools) != 1:
            out.append("%s: machine %s is in %d pools %s, required exactly 1"
                       % (label, mid, len(pools), pools))
    true_free = len(snap['available']) + sum(
        len(v) for v in snap['idle'].values())
    if snap['usage']['available'] != true_free:
        out.append("%s: reported free machines %d, true %d"
                   % (label, snap['usage']['available'], true_free))
    if snap['usage']['running_tasks'] != len(snap['running']):
        out.append("%s: reported running tasks %d, true %d"
                   % (label, snap['usage']['running_tasks'],
                      len(snap['running'])))
    return out


def advance(env, until):
    """Run to `until`; a run aborted by an exception leaves its old stop
    event queued, which may end the next run early, hence the loop."""
    while env.now < until:
        env.run(until=until)


def scenario(cfg_path):
    problems = []
    env = simpy.Environment()
    cluster = Cluster(env, Config(cfg_path))
    res = cluster._clusters['default']['resources']
    env.process(cluster.run())

    # 1. 'obsA' is being observed: two machines run its ingest for 6 steps
    obs_a = Observation('obsA', 0, 6, 18, None, 1)
    env.process(cluster.provision_ingest_resources(2, obs_a))
    env.run(until=1)
    # 2. 'obsB' gets a batch reservation of two machines
    cluster.provision_batch_resources(2, 'obsB')
    problems += partition_problems(cluster, "before refused call")
    before = snapshot(cluster)

    # 3. a task of obsB is (wrongly) sent to a machine that runs ingest
    ingest_machine = res['ingest'][0]
    task = Task('obsB_t0', 0, 2, None, [])
    env.process(cluster.allocate_task_to_cluster(
        task, ingest_machine, observation='obsB'))
    refused = False
    try:
        env.run(until=2)
    except (RuntimeError, ValueError):
        refused = True
    if not refused:
        problems.append("allocation on an ingest machine was accepted, "
                        "required a refusal")
    after = snapshot(cluster)
    problems += partition_problems(cluster, "after refused call")
    if refused and after != before:
        diff = [k for k in before if before[k] != after[k]]
        problems.append(
            "refused call changed %s: before %s, after %s; required "
            "unchanged" % (diff, {k: before[k] for k in diff},
                           {k: after[k] for k in diff}))

    # 4. let ingest finish and release; everything must be available again
    try:
        advance(env, 12)
    except Exception as exc:  # the damaged pools may break later events
        problems.append("later event failed: %r" % (exc,))
    cluster.release_batch_resources('obsB')
    problems += partition_problems(cluster, "at the end")
    if len(res['available']) != NMACH or res['idle'] or res['occupied']:
        problems.append(
            "at the end: available %s, occupied %s, reservations %s; "
            "required all %d machines available"
            % ([m.id for m in res['available']],
               [m.id for m in res['occupied']], dict(res['idle']), NMACH))
    return problems


def main():
    tmp = tempfile.mkdtemp(prefix="c02demo2_")
    try:
        problems = scenario(write_config(tmp))
    finally:
        shutil.rmtree(tmp, ignore_errors=True)
    if problems:
        print("FAIL: " + problems[0]
              + (" (+%d more)" % (len(problems) - 1)
                 if len(problems) > 1 else ""))
        return 1
    print("PASS")
    return 0


if __name__ == "__main__":
    sys.exit(main())
