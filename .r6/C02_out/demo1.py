"""
demo1 - C02: a second batch provision for an observation that already holds a
reservation must not lose machines.

Usage: python demo1.py <path-to-tree>
"""
import sys
import os
import json
import shutil
import tempfile

TREE = os.path.abspath(sys.argv[1]) if len(sys.argv) > 1 else os.getcwd()
sys.path.insert(0, TREE)

import simpy  # noqa: E402
from topsim.core.config import Config  # noqa: E402
from topsim.core.cluster import Cluster  # noqa: E402
from topsim.core.task import Task  # noqa: E402

NMACH = 6


def write_config(tmp):
    cfg = {
        "instrument": {"telescope": {
            "total_arrays": 36, "max_ingest_resources": 2,
            "pipelines": {}, "observations": []}},
        "cluster": {"header": {}, "system": {
            "resources": {
                "m%d" % i: {"flops": 50, "compute_bandwidth": 10}
                for i in range(NMACH)},
            "system_bandwidth": 1.0}},
        "buffer": {"hot": {"capacity": 1000, "max_ingest_rate": 100},
                   "cold": {"capacity": 1000, "max_data_rate": 50}},
        "timestep": "seconds"}
    path = os.path.join(tmp, "cfg.json")
    with open(path, "w") as fp:
        json.dump(cfg, fp)
    return path


def census(cluster):
    """Return {machine id: [pools it is in]} for the default cluster."""
    res = cluster._clusters['default']['resources']
    where = {m.id: [] for m in cluster.machines}
    for m in res['available']:
        where[m.id].append('available')
    for m in res['ingest']:
        where[m.id].append('ingest')
    for m in res['occupied']:
        where[m.id].append('occupied')
    for obs, ms in res['idle'].items():
        for m in ms:
            where[m.id].append('idle:%s' % obs)
    return where


def check(cluster, label):
    problems = []
    for mid, pools in sorted(census(cluster).items()):
        if len(pools) != 1:
            problems.append("%s: machine %s is in %d pools %s, required "
                            "exactly 1" % (label, mid, len(pools), pools))
    res = cluster._clusters['default']['resources']
    usage = cluster._clusters['default']['usage_data']
    true_free = len(res['available']) + sum(
        len(v) for v in res['idle'].values())
    if usage['available'] != true_free:
        problems.append("%s: reported free machines %d, true %d" % (
            label, usage['available'], true_free))
    return problems


def scenario(cfg_path):
    problems = []
    env = simpy.Environment()
    cluster = Cluster(env, Config(cfg_path))
    res = cluster._clusters['default']['resources']

    # 1. first reservation for 'obsA'
    cluster.provision_batch_resources(2, 'obsA')
    problems += check(cluster, "after 1st provision")
    # 2. one of the reserved machines starts a task
    busy = cluster.get_idle_resources('obsA')[0]
    task = Task('obsA_t0', 0, 3, None, [])
    env.process(cluster.allocate_task_to_cluster(
        task, busy, observation='obsA'))
    env.run(until=1)
    problems += check(cluster, "after allocation")
    # 3. the same observation asks for more machines (extends reservation)
    cluster.provision_batch_resources(2, 'obsA')
    problems += check(cluster, "after 2nd provision for same observation")
    n_reserved = len(cluster.get_idle_resources('obsA'))
    if n_reserved != 3:
        problems.append("after 2nd provision: %d machines reserved-idle for "
                        "obsA, required 3 (1 old idle + 2 new)" % n_reserved)
    # 4. let the task complete, then release everything
    env.run(until=8)
    problems += check(cluster, "after completion")
    cluster.release_batch_resources('obsA')
    problems += check(cluster, "after release")
    if len(res['available']) != NMACH or res['idle']:
        problems.append("after release: %d of %d machines available, "
                        "reservations %s; required all available and no "
                        "reservation" % (len(res['available']), NMACH,
                                         dict(res['idle'])))
    return problems


def main():
    tmp = tempfile.mkdtemp(prefix="c02demo1_")
    try:
        problems = scenario(write_config(tmp))
    finally:
        shutil.rmtree(tmp, ignore_errors=True)
    if problems:
        print("FAIL: " + problems[0]
              + (" (+%d more)" % (len(problems) - 1)
                 if len(problems) > 1 else ""))
        return 1
    print("PASS")
    return 0


if __name__ == "__main__":
    sys.exit(main())
