"""
demo3 - C02: when a simulation ends every machine is back in the available
pool and no reservation is outstanding.

The Cluster documentation promises that a user-written scheduling algorithm
which reserves machines with Cluster.provision_batch_resources needs no
clean-up code of its own: the Scheduler releases the reservation once the
workflow has finished.  This demo runs a full simulation with such a
user-defined algorithm (it reserves, allocates from its reservation, and
never calls release_batch_resources itself) and checks the pools after every
timestep and at the end of the simulation.

Usage: python demo3.py <path-to-tree>
"""
import sys
import os
import copy
import json
import shutil
import logging
import tempfile

TREE = os.path.abspath(sys.argv[1]) if len(sys.argv) > 1 else os.getcwd()
sys.path.insert(0, TREE)
logging.disable(logging.CRITICAL)

import simpy  # noqa: E402
from topsim.core.simulation import Simulation  # noqa: E402
from topsim.core.task import TaskStatus  # noqa: E402
from topsim.core.planner import WorkflowStatus  # noqa: E402
from topsim.algorithms.scheduling import Scheduling  # noqa: E402
from topsim.user.telescope import Telescope  # noqa: E402
from topsim.user.plan.batch_planning import BatchPlanning  # noqa: E402

NMACH = 5
BOUND = 80


class ReserveAndRun(Scheduling):
    """User algorithm: reserve `size` machines for the workflow, run ready
    tasks on the reserved machines, leave the clean-up to the Scheduler."""

    def __init__(self, size):
        super().__init__()
        self.size = size

    def __repr__(self):
        return "ReserveAndRun"

    def run(self, cluster, clock, workflow_plan, existing_schedule,
            task_pool):
        allocations = copy.copy(existing_schedule)
        name = workflow_plan.id
        if len(workflow_plan.tasks) == 0:
            workflow_plan.status = WorkflowStatus.FINISHED
            return allocations, workflow_plan.status, task_pool
        if not cluster.is_observation_provisioned(name):
            if len(cluster.get_available_resources()) < self.size:
                return allocations, workflow_plan.status, task_pool
            cluster.provision_batch_resources(self.size, name)
        free = [m for m in cluster.get_idle_resources(name)
                if m not in allocations.values()]
        for task in sorted(workflow_plan.tasks, key=lambda t: t.id):
            if not free:
                break
            if (task in allocations
                    or task.task_status is not TaskStatus.UNSCHEDULED):
                continue
            preds = list(workflow_plan.graph.predecessors(task))
            if all(cluster.is_task_finished(p) for p in preds):
                allocations[task] = free.pop(0)
        return allocations, workflow_plan.status, task_pool

    def to_df(self):
        return None


def write_config(tmp):
    nodes = [{"comp": 300, "id": 0}, {"comp": 200, "id": 1},
             {"comp": 250, "id": 2}, {"comp": 100, "id": 3}]
    edges = [{"transfer_data": 0, "source": 0, "target": 1},
             {"transfer_data": 0, "source": 0, "target": 2},
             {"transfer_data": 0, "source": 1, "target": 3},
             {"transfer_data": 0, "source": 2, "target": 3}]
    wf = {"header": {}, "graph": {"directed": True, "multigraph": False,
                                  "graph": {}, "nodes": nodes,
                                  "edges": edges}}
    with open(os.path.join(tmp, "wf.json"), "w") as fp:
        json.dump(wf, fp)
    cfg = {
        "instrument": {"telescope": {
            "total_arrays": 36, "max_ingest_resources": 2,
            "pipelines": {"obsA": {"workflow": "wf.json",
                                   "ingest_demand": 2}},
            "observations": [{"name": "obsA", "start": 0, "duration": 4,
                              "instrument_demand": 18,
                              "data_product_rate": 1.0}]}},
        "cluster": {"header": {}, "system": {
            "resources": {
                "m%d" % i: {"flops": 50, "compute_bandwidth": 10}
                for i in range(NMACH)},
            "system_bandwidth": 1.0}},
        "buffer": {"hot": {"capacity": 1000, "max_ingest_rate": 100},
                   "cold": {"capacity": 1000, "max_data_rate": 50}},
        "timestep": "seconds"}
    path = os.path.join(tmp, "cfg.json")
    with open(path, "w") as fp:
        json.dump(cfg, fp)
    return path


def pool_problems(cluster, label):
    res = cluster._clusters['default']['resources']
    usage = cluster._clusters['default']['usage_data']
    tasks = cluster._clusters['default']['tasks']
    where = {m.id: [] for m in cluster.machines}
    for pool in ('available', 'ingest', 'occupied'):
        for m in res[pool]:
            where[m.id].append(pool)
    for obs, ms in res['idle'].items():
        for m in ms:
            where[m.id].append('idle:%s' % obs)
    out = []
    for mid, pools in sorted(where.items()):
        if len(pools) != 1:
            out.append("%s: machine %s is in %d pools %s, required exactly 1"
                       % (label, mid, len(pools), pools))
    true_free = len(res['available']) + sum(
        len(v) for v in res['idle'].values())
    if usage['available'] != true_free:
        out.append("%s: reported free machines %d, true %d"
                   % (label, usage['available'], true_free))
    if usage['running_tasks'] != len(tasks['running']):
        out.append("%s: reported running tasks %d, true %d"
                   % (label, usage['running_tasks'], len(tasks['running'])))
    true_finished = sum(1 for v in tasks['finished'].values() if v)
    if usage['finished_tasks'] != true_finished:
        out.append("%s: reported finished tasks %d, true %d"
                   % (label, usage['finished_tasks'], true_finished))
    return out


def scenario(cfg_path):
    problems = []
    env = simpy.Environment()
    sim = Simulation(env=env, config=cfg_path, instrument=Telescope,
                     planning_model=BatchPlanning('batch'),
                     planning_algorithm='batch',
                     scheduling=ReserveAndRun(size=2), delay=None,
                     timestamp=0)
    cluster = sim.cluster
    sim.start(runtime=1)
    while not sim.is_finished() and env.now < BOUND:
        sim.resume(env.now + 1)
        problems += pool_problems(cluster, "t=%d" % env.now)
    if not sim.is_finished():
        problems.append("simulation did not finish within %d steps" % BOUND)
        return problems
    res = cluster._clusters['default']['resources']
    n_finished = cluster._clusters['default']['usage_data']['finished_tasks']
    if n_finished != 6:
        problems.append("finished tasks at the end: %d, required 6 "
                        "(2 ingest + 4 workflow)" % n_finished)
    reservations = {k: [m.id for m in v] for k, v in res['idle'].items()}
    if reservations or len(res['available']) != NMACH:
        problems.insert(0, (
            "simulation ended at t=%d with %d of %d machines available and "
            "reservations outstanding %s; required all machines available "
            "and no reservation" % (env.now, len(res['available']), NMACH,
                                    reservations)))
    return problems


def main():
    tmp = tempfile.mkdtemp(prefix="c02demo3_")
    try:
        problems = scenario(write_config(tmp))
    finally:
        shutil.rmtree(tmp, ignore_errors=True)
    if problems:
        print("FAIL: " + problems[0]
              + (" (+%d more)" % (len(problems) - 1)
                 if len(problems) > 1 else ""))
        return 1
    print("PASS")
    return 0


if __name__ == "__main__":
    sys.exit(main())
