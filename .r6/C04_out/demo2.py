"""
demo2 - two workflows hold batch reservations at the same time
(BatchProcessing with max_resource_partitions=2); the first one finishes and
releases its reservation while the second one is still running on its own
reserved machines.

Required (C04): when start() returns no reservation is held, and the
'available' pool holds every machine of the cluster exactly once; every task
ran exactly once and no machine ever ran two tasks at the same time.

usage: python demo2.py <path-to-tree>
"""
import sys
import os
import json
import shutil
import logging
import tempfile

TREE = os.path.abspath(sys.argv[1]) if len(sys.argv) > 1 else os.getcwd()
sys.path.insert(0, TREE)
logging.disable(logging.CRITICAL)

import simpy  # noqa: E402
from topsim.core.simulation import Simulation  # noqa: E402
from topsim.core.task import Task  # noqa: E402
from topsim.user.telescope import Telescope  # noqa: E402
from topsim.user.plan.batch_planning import BatchPlanning  # noqa: E402
from topsim.user.schedule.batch_allocation import BatchProcessing  # noqa: E402


def diamond(c0, c1, c2, c3):
    return {"graph": {"directed": True, "multigraph": False, "graph": {},
                      "nodes": [{"id": 0, "comp": c0}, {"id": 1, "comp": c1},
                                {"id": 2, "comp": c2}, {"id": 3, "comp": c3}],
                      "edges": [
                          {"source": 0, "target": 1, "transfer_data": 5},
                          {"source": 0, "target": 2, "transfer_data": 5},
                          {"source": 1, "target": 3, "transfer_data": 5},
                          {"source": 2, "target": 3, "transfer_data": 5}]}}


def write_config(d):
    with open(os.path.join(d, 'wf_a.json'), 'w') as fp:
        json.dump(diamond(60, 80, 80, 40), fp)
    with open(os.path.join(d, 'wf_b.json'), 'w') as fp:
        json.dump(diamond(60, 90, 90, 40), fp)
    cfg = {
        "instrument": {"telescope": {
            "total_arrays": 36, "max_ingest_resources": 2,
            "pipelines": {
                "alpha": {"workflow": "wf_a.json", "ingest_demand": 1},
                "beta": {"workflow": "wf_b.json", "ingest_demand": 1}},
            "observations": [
                {"name": "alpha", "start": 1, "duration": 4,
                 "instrument_demand": 36, "data_product_rate": 10},
                {"name": "beta", "start": 6, "duration": 4,
                 "instrument_demand": 36, "data_product_rate": 10}]}},
        "cluster": {"system": {
            "resources": {f"m{i}": {"flops": 10, "compute_bandwidth": 10}
                          for i in range(6)},
            "system_bandwidth": 1.0}},
        "buffer": {"hot": {"capacity": 1000, "max_ingest_rate": 100},
                   "cold": {"capacity": 1000, "max_data_rate": 100}}}
    path = os.path.join(d, 'config.json')
    with open(path, 'w') as fp:
        json.dump(cfg, fp)
    return path


def main():
    executions = {}
    intervals = {}
    original = Task.do_work

    def counted(self, env, machine, predecessor_allocations=None):
        executions[self.id] = executions.get(self.id, 0) + 1
        start = env.now
        yield from original(self, env, machine, predecessor_allocations)
        intervals.setdefault(machine.id, []).append((start, env.now, self.id))

    Task.do_work = counted
    d = tempfile.mkdtemp(prefix='c04demo2_')
    try:
        cfg = write_config(d)
        sim = Simulation(env=simpy.Environment(), config=cfg,
                         instrument=Telescope,
                         planning_model=BatchPlanning('batch'),
                         planning_algorithm='batch',
                         scheduling=BatchProcessing(
                             max_resource_partitions=2,
                             min_resources_per_workflow=1),
                         delay=None, timestamp=0)
        _, tasks = sim.start()
    finally:
        Task.do_work = original
        shutil.rmtree(d, ignore_errors=True)

    problems = []
    res = sim.cluster._clusters['default']['resources']
    all_ids = sorted(m.id for m in sim.cluster.machines)
    avail_ids = sorted(m.id for m in res['available'])
    if res['idle']:
        problems.append("reservations still held at return: %s"
                        % {str(k): [m.id for m in v]
                           for k, v in res['idle'].items()})
    if avail_ids != all_ids:
        problems.append("'available' pool at return is %s, required each "
                        "machine exactly once %s" % (avail_ids, all_ids))
    for mid, ivs in intervals.items():
        ivs.sort()
        for (s1, e1, t1), (s2, e2, t2) in zip(ivs, ivs[1:]):
            if s2 < e1:
                problems.append("machine %s ran %s and %s at the same time"
                                % (mid, t1, t2))
    expected = 1 + 1 + 4 + 4
    wrong = {k: v for k, v in executions.items() if v != 1}
    if wrong or len(executions) != expected:
        problems.append("task executions %s (expected %d tasks once each)"
                        % (executions, expected))
    if len(tasks) != expected:
        problems.append("task table has %d rows, required %d"
                        % (len(tasks), expected))
    if problems:
        print("FAIL: " + "; ".join(problems))
        return 1
    print("PASS")
    return 0


if __name__ == '__main__':
    sys.exit(main())
