"""
demo1 - a scheduling algorithm that provisions a batch reservation for its
workflow (cluster.provision_batch_resources) and, as the Cluster documentation
promises ("The clean-up of resources is completed by the Scheduler once all
Task objects in the WorkflowPlan have finished running, and requires no
additional code on behalf of the user"), leaves the release to the Scheduler.

Required (C04): when start() returns, no reservation is held and every machine
is back in the 'available' pool; every task ran exactly once.

usage: python demo1.py <path-to-tree>
"""
import sys
import os
import json
import copy
import shutil
import logging
import tempfile

TREE = os.path.abspath(sys.argv[1]) if len(sys.argv) > 1 else os.getcwd()
sys.path.insert(0, TREE)
logging.disable(logging.CRITICAL)

import simpy  # noqa: E402
from topsim.core.simulation import Simulation  # noqa: E402
from topsim.core.task import Task, TaskStatus  # noqa: E402
from topsim.core.planner import WorkflowStatus  # noqa: E402
from topsim.algorithms.scheduling import Scheduling  # noqa: E402
from topsim.user.telescope import Telescope  # noqa: E402
from topsim.user.plan.batch_planning import BatchPlanning  # noqa: E402


class ReserveOnly(Scheduling):
    """Provision K machines for the workflow once; allocate ready tasks to
    the free machines of that reservation; never release (Scheduler's job)."""

    def __init__(self, k):
        super().__init__()
        self.k = k

    def __repr__(self):
        return "ReserveOnly"

    def run(self, cluster, clock, workflow_plan, existing_schedule, task_pool):
        allocations = copy.copy(existing_schedule)
        if len(workflow_plan.tasks) == 0:
            workflow_plan.status = WorkflowStatus.FINISHED
            return allocations, workflow_plan.status, task_pool
        if not cluster.is_observation_provisioned(workflow_plan.id):
            if len(cluster.get_available_resources()) < self.k:
                return allocations, workflow_plan.status, task_pool
            cluster.provision_batch_resources(self.k, workflow_plan.id)
        free = [m for m in cluster.get_idle_resources(workflow_plan.id)
                if m not in allocations.values()]
        for task in sorted(workflow_plan.tasks, key=lambda t: t.id):
            if not free:
                break
            if task.task_status is not TaskStatus.UNSCHEDULED:
                continue
            if task in allocations:
                continue
            preds = list(workflow_plan.graph.predecessors(task))
            if all(cluster.is_task_finished(p) for p in preds):
                allocations[task] = free.pop(0)
        return allocations, workflow_plan.status, task_pool

    def to_df(self):
        pass


def write_config(d):
    wf = {"graph": {"directed": True, "multigraph": False, "graph": {},
                    "nodes": [{"id": 0, "comp": 20}, {"id": 1, "comp": 30},
                              {"id": 2, "comp": 30}, {"id": 3, "comp": 10}],
                    "edges": [
                        {"source": 0, "target": 1, "transfer_data": 5},
                        {"source": 0, "target": 2, "transfer_data": 5},
                        {"source": 1, "target": 3, "transfer_data": 5},
                        {"source": 2, "target": 3, "transfer_data": 5}]}}
    with open(os.path.join(d, 'wf.json'), 'w') as fp:
        json.dump(wf, fp)
    cfg = {
        "instrument": {"telescope": {
            "total_arrays": 36, "max_ingest_resources": 2,
            "pipelines": {
                "alpha": {"workflow": "wf.json", "ingest_demand": 2},
                "beta": {"workflow": "wf.json", "ingest_demand": 1}},
            "observations": [
                {"name": "alpha", "start": 1, "duration": 5,
                 "instrument_demand": 36, "data_product_rate": 10},
                {"name": "beta", "start": 9, "duration": 4,
                 "instrument_demand": 36, "data_product_rate": 10}]}},
        "cluster": {"system": {
            "resources": {f"m{i}": {"flops": 10, "compute_bandwidth": 10}
                          for i in range(6)},
            "system_bandwidth": 1.0}},
        "buffer": {"hot": {"capacity": 1000, "max_ingest_rate": 100},
                   "cold": {"capacity": 1000, "max_data_rate": 100}}}
    path = os.path.join(d, 'config.json')
    with open(path, 'w') as fp:
        json.dump(cfg, fp)
    return path


def main():
    executions = {}
    original = Task.do_work

    def counted(self, env, machine, predecessor_allocations=None):
        executions[self.id] = executions.get(self.id, 0) + 1
        return original(self, env, machine, predecessor_allocations)

    Task.do_work = counted
    d = tempfile.mkdtemp(prefix='c04demo1_')
    try:
        cfg = write_config(d)
        sim = Simulation(env=simpy.Environment(), config=cfg,
                         instrument=Telescope,
                         planning_model=BatchPlanning('batch'),
                         planning_algorithm='batch',
                         scheduling=ReserveOnly(3), delay=None, timestamp=0)
        _, tasks = sim.start()
    finally:
        Task.do_work = original
        shutil.rmtree(d, ignore_errors=True)

    problems = []
    res = sim.cluster._clusters['default']['resources']
    all_ids = sorted(m.id for m in sim.cluster.machines)
    avail_ids = sorted(m.id for m in res['available'])
    if res['idle']:
        problems.append(
            "reservations still held at return: %s (required: none)" % {
                str(k if isinstance(k, str) else getattr(k, 'name', k)):
                    [m.id for m in v] for k, v in res['idle'].items()})
    if avail_ids != all_ids:
        problems.append("available machines at return %s, required %s"
                        % (avail_ids, all_ids))
    if sim.cluster.num_provisioned_obs != 0:
        problems.append("num_provisioned_obs=%d at return, required 0"
                        % sim.cluster.num_provisioned_obs)
    expected = 2 + 1 + 4 + 4
    wrong = {k: v for k, v in executions.items() if v != 1}
    if wrong or len(executions) != expected:
        problems.append("task executions %s (expected %d tasks once each)"
                        % (executions, expected))
    if len(tasks) != expected:
        problems.append("task table has %d rows, required %d"
                        % (len(tasks), expected))
    if problems:
        print("FAIL: " + "; ".join(problems))
        return 1
    print("PASS")
    return 0


if __name__ == '__main__':
    sys.exit(main())
