"""
demo3 - an adversarial scheduling algorithm (a thin wrapper around the
shipped QueueProcessing) double-books: every task it newly proposes in a
timestep is mapped onto the SAME machine.  The Scheduler must refuse the
illegal second allocation, keep it pending, and make it once the machine is
free again.

Required (C04): whatever illegal allocations are proposed, the run completes,
every ingest / workflow task has executed exactly once, the returned state is
quiescent and the task table has one row per task.

usage: python demo3.py <path-to-tree>
"""
import sys
import os
import json
import shutil
import logging
import tempfile

TREE = os.path.abspath(sys.argv[1]) if len(sys.argv) > 1 else os.getcwd()
sys.path.insert(0, TREE)
logging.disable(logging.CRITICAL)

import simpy  # noqa: E402
from topsim.core.simulation import Simulation  # noqa: E402
from topsim.core.task import Task  # noqa: E402
from topsim.user.telescope import Telescope  # noqa: E402
from topsim.user.plan.batch_planning import BatchPlanning  # noqa: E402
from topsim.user.schedule.queue_allocation import QueueProcessing  # noqa: E402

BOUND = 300  # the unmodified code finishes this plan at t < 60


class DoubleBooker(QueueProcessing):
    """QueueProcessing, but all allocations proposed in one call go to the
    first machine that QueueProcessing picked in that call."""

    def __repr__(self):
        return "DoubleBooker"

    def run(self, cluster, clock, workflow_plan, existing_schedule, task_pool):
        allocations, status, task_pool = super().run(
            cluster, clock, workflow_plan, existing_schedule, task_pool)
        new = [t for t in allocations if t not in existing_schedule]
        if len(new) > 1:
            target = allocations[sorted(new, key=lambda t: t.id)[0]]
            for t in new:
                allocations[t] = target
        return allocations, status, task_pool


def diamond(c0, c1, c2, c3):
    return {"graph": {"directed": True, "multigraph": False, "graph": {},
                      "nodes": [{"id": 0, "comp": c0}, {"id": 1, "comp": c1},
                                {"id": 2, "comp": c2}, {"id": 3, "comp": c3}],
                      "edges": [
                          {"source": 0, "target": 1, "transfer_data": 5},
                          {"source": 0, "target": 2, "transfer_data": 5},
                          {"source": 1, "target": 3, "transfer_data": 5},
                          {"source": 2, "target": 3, "transfer_data": 5}]}}


def write_config(d):
    with open(os.path.join(d, 'wf_a.json'), 'w') as fp:
        json.dump(diamond(20, 30, 30, 10), fp)
    with open(os.path.join(d, 'wf_b.json'), 'w') as fp:
        json.dump(diamond(20, 30, 30, 10), fp)
    cfg = {
        "instrument": {"telescope": {
            "total_arrays": 36, "max_ingest_resources": 2,
            "pipelines": {
                "alpha": {"workflow": "wf_a.json", "ingest_demand": 1},
                "beta": {"workflow": "wf_b.json", "ingest_demand": 1}},
            "observations": [
                {"name": "alpha", "start": 1, "duration": 4,
                 "instrument_demand": 36, "data_product_rate": 10},
                {"name": "beta", "start": 30, "duration": 4,
                 "instrument_demand": 36, "data_product_rate": 10}]}},
        "cluster": {"system": {
            "resources": {f"m{i}": {"flops": 10, "compute_bandwidth": 10}
                          for i in range(6)},
            "system_bandwidth": 1.0}},
        "buffer": {"hot": {"capacity": 1000, "max_ingest_rate": 100},
                   "cold": {"capacity": 1000, "max_data_rate": 100}}}
    path = os.path.join(d, 'config.json')
    with open(path, 'w') as fp:
        json.dump(cfg, fp)
    return path


def main():
    executions = {}
    original = Task.do_work

    def counted(self, env, machine, predecessor_allocations=None):
        executions[self.id] = executions.get(self.id, 0) + 1
        return original(self, env, machine, predecessor_allocations)

    Task.do_work = counted
    d = tempfile.mkdtemp(prefix='c04demo3_')
    try:
        cfg = write_config(d)
        sim = Simulation(env=simpy.Environment(), config=cfg,
                         instrument=Telescope,
                         planning_model=BatchPlanning('batch'),
                         planning_algorithm='batch',
                         scheduling=DoubleBooker(), delay=None, timestamp=0)
        # bounded so that the demonstration terminates on a broken tree; the
        # same loop as Simulation.start() without runtime.
        sim.start(runtime=1)
        while not sim.is_finished() and sim.env.now < BOUND:
            sim.resume(until=sim.env.now + 1)
        tasks = sim._generate_final_task_data()
    finally:
        Task.do_work = original
        shutil.rmtree(d, ignore_errors=True)

    problems = []
    ingest_wrong = {
        "%s_ingest_t0" % o.name: executions.get("%s_ingest_t0" % o.name, 0)
        for o in sim.instrument.observations
        if executions.get("%s_ingest_t0" % o.name, 0) != 1}
    never = sorted(
        "%s node %d" % (o.name, t.graph_id)
        for o in sim.instrument.observations if o.plan is not None
        for t in o.plan.graph.nodes if executions.get(t.id, 0) == 0)
    unplanned = [o.name for o in sim.instrument.observations
                 if o.plan is None]
    twice = {k: v for k, v in executions.items() if v > 1}
    if not sim.is_finished():
        problems.append("run not complete after %d timesteps (required: "
                        "completes; unmodified code completes before t=60); "
                        "scheduler queue %s"
                        % (BOUND,
                           [o.name for o in sim.scheduler.observation_queue]))
    if never:
        problems.append("workflow tasks never executed: %s (required: each "
                        "exactly once)" % never)
    if ingest_wrong:
        problems.append("ingest task executions %s (required 1 each)"
                        % ingest_wrong)
    if unplanned:
        problems.append("observations never processed: %s" % unplanned)
    if twice:
        problems.append("tasks executed more than once: %s" % twice)
    res = sim.cluster._clusters['default']['resources']
    all_ids = sorted(m.id for m in sim.cluster.machines)
    if sorted(m.id for m in res['available']) != all_ids or res['idle'] \
            or res['occupied'] or res['ingest']:
        problems.append("cluster not quiescent: available=%s occupied=%s"
                        % ([m.id for m in res['available']],
                           [m.id for m in res['occupied']]))
    if not sim.buffer.is_empty():
        problems.append("buffers not at full free capacity")
    if not problems and len(tasks) != 2 * (1 + 4):
        problems.append("task table has %d rows, required %d"
                        % (len(tasks), 2 * (1 + 4)))
    if problems:
        print("FAIL: " + "; ".join(problems))
        return 1
    print("PASS")
    return 0


if __name__ == '__main__':
    sys.exit(main())
