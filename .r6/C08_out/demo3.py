#!/usr/bin/env python
"""
Demonstration for C08 seeded bug 3 -- planned start rounded to the nearest timestep

usage: /venv/bin/python demo3.py <path-to-tree>
prints PASS (exit 0) when the property holds in the scenario(s) below,
"FAIL: <observed vs required>" (exit 1) otherwise.

Scenario 1: timestep 'minutes'; observation a is planned for 80 s
  (= timestep 1.33) -> the first timestep at which it may start is 2 (120 s).
Scenario 2: timestep 'seconds'; observation a planned for 2.4 s -> earliest
  start is timestep 3.
"""
import contextlib
import io
import json
import logging
import os
import shutil
import sys
import tempfile

if len(sys.argv) < 2:
    print("usage: demo.py <path-to-tree>")
    sys.exit(2)
sys.path.insert(0, os.path.abspath(sys.argv[1]))
logging.disable(logging.CRITICAL)

import simpy  # noqa: E402
from topsim.core.simulation import Simulation  # noqa: E402
from topsim.core.instrument import RunStatus  # noqa: E402
from topsim.user.telescope import Telescope  # noqa: E402
from topsim.user.plan.batch_planning import BatchPlanning  # noqa: E402
from topsim.user.schedule.queue_allocation import QueueProcessing  # noqa: E402

MULT = {'seconds': 1, 'minutes': 60, 'hours': 3600}


def write_config(d, obs, ingest, machines, total_arrays, max_ingest, hot, cold,
                 hot_rate, cold_rate, timestep='seconds'):
    """obs: list of (name, start, duration, arrays, rate); ingest: name->demand."""
    pipelines = {}
    for name, demand in ingest.items():
        wf = {"header": {}, "graph": {
            "directed": True, "multigraph": False, "graph": {},
            "nodes": [{"comp": 20, "id": 0}], "edges": []}}
        with open(os.path.join(d, 'wf_%s.json' % name), 'w') as f:
            json.dump(wf, f)
        pipelines[name] = {"workflow": 'wf_%s.json' % name,
                           "ingest_demand": demand}
    cfg = {
        "instrument": {"telescope": {
            "total_arrays": total_arrays, "max_ingest_resources": max_ingest,
            "pipelines": pipelines,
            "observations": [
                {"name": n, "start": s, "duration": du,
                 "instrument_demand": a, "data_product_rate": r}
                for (n, s, du, a, r) in obs]}},
        "cluster": {"header": {}, "system": {
            "resources": {"m%d" % i: {"flops": 10, "compute_bandwidth": 10}
                          for i in range(machines)},
            "system_bandwidth": 1.0}},
        "buffer": {"hot": {"capacity": hot, "max_ingest_rate": hot_rate},
                   "cold": {"capacity": cold, "max_data_rate": cold_rate}},
        "timestep": timestep,
    }
    path = os.path.join(d, 'config.json')
    with open(path, 'w') as f:
        json.dump(cfg, f)
    return path, cfg


class Run:
    """Runs one simulation step by step and checks property C08."""

    def __init__(self, cfgpath, cfg, runtime):
        self.violations = []
        self.cfg = cfg
        tcfg = cfg['instrument']['telescope']
        self.mult = MULT.get(cfg['timestep'], cfg['timestep'])
        self.total_arrays = tcfg['total_arrays']
        self.max_ingest = tcfg['max_ingest_resources']
        self.plan = {o['name']: o for o in tcfg['observations']}
        self.ingest_demand = {k: v['ingest_demand']
                              for k, v in tcfg['pipelines'].items()}
        self.env = env = simpy.Environment()
        self.sim = sim = Simulation(
            env=env, config=cfgpath, instrument=Telescope,
            planning_model=BatchPlanning('batch'), planning_algorithm='batch',
            scheduling=QueueProcessing(), delay=None, timestamp=0)
        self.tel = tel = sim.instrument
        self.res = sim.cluster._clusters['default']['resources']
        self.hot = sim.buffer.hot[0]
        self.cold = sim.buffer.cold[0]
        self.started = {}
        self.history = {o.name: [o.status.value] for o in tel.observations}
        self.idle_before = {}
        orig_begin = tel.begin_observation

        def begin(observation):
            self._check_start(observation)
            return orig_begin(observation)

        tel.begin_observation = begin
        # same process registration as Simulation.start()
        sim.running = True
        env.process(sim.monitor.run())
        env.process(sim.instrument.run())
        env.process(sim.cluster.run())
        sim.scheduler.start()
        env.process(sim.scheduler.run())
        env.process(sim.buffer.run())
        self.ingest_steps = {o.name: 0 for o in tel.observations}
        for t in range(0, runtime):
            # state at the end of timestep t-1 == what the telescope sees at t
            self.idle_before[t] = self._system_idle()
            with contextlib.redirect_stdout(io.StringIO()):
                env.run(until=t + 1)
            self._check_step(t)
        self._check_final(runtime)

    # -- helpers ---------------------------------------------------------
    def _system_idle(self):
        sim = self.sim
        return (self.tel.telescope_use == 0
                and all(o.status is not RunStatus.RUNNING
                        for o in self.tel.observations)
                and sim.cluster.is_idle() and sim.buffer.is_empty()
                and sim.scheduler.is_idle())

    def _bad(self, msg):
        self.violations.append(msg)

    def _check_start(self, o):
        now = self.env.now
        p = self.plan[o.name]
        name = o.name
        if name in self.started:
            self._bad("%s started twice (t=%s and t=%s); required: once"
                      % (name, self.started[name], now))
        self.started[name] = now
        planned = p['start'] / self.mult
        if now < planned:
            self._bad("%s started at timestep %s (= %s s) but its planned "
                      "start is %s s (= timestep %.3f); required: not before "
                      "the planned start" % (name, now, now * self.mult,
                                             p['start'], planned))
        free = self.total_arrays - self.tel.telescope_use
        if p['instrument_demand'] > free:
            self._bad("%s started at t=%s needing %s arrays with %s free"
                      % (name, now, p['instrument_demand'], free))
        dem = self.ingest_demand[name]
        avail = len(self.res['available'])
        on_ingest = len(self.res['ingest'])
        if dem > avail:
            self._bad("%s started at t=%s needing %s machines with %s "
                      "available" % (name, now, dem, avail))
        if on_ingest + dem > self.max_ingest:
            self._bad("%s started at t=%s: %s machines already on ingest + "
                      "demand %s exceeds the limit %s"
                      % (name, now, on_ingest, dem, self.max_ingest))
        size = o.ingest_data_rate * o.duration
        if self.hot.current_capacity < size:
            self._bad("%s started at t=%s with data volume %s but only %s "
                      "free in the hot buffer; required: room for the whole "
                      "volume" % (name, now, size, self.hot.current_capacity))
        if self.cold.current_capacity < size:
            self._bad("%s started at t=%s with data volume %s but only %s "
                      "free in the cold buffer"
                      % (name, now, size, self.cold.current_capacity))

    def _check_step(self, t):
        if self.tel.telescope_use > self.total_arrays:
            self._bad("t=%s: %s arrays in use, telescope has %s"
                      % (t, self.tel.telescope_use, self.total_arrays))
        n = len(self.res['ingest'])
        if n > self.max_ingest:
            self._bad("t=%s: %s machines on ingest, limit is %s"
                      % (t, n, self.max_ingest))
        if self.hot.current_capacity < 0:
            self._bad("t=%s: hot buffer over-filled (free capacity %s)"
                      % (t, self.hot.current_capacity))
        for o in self.tel.observations:
            h = self.history[o.name]
            s = o.status.value
            if not h or h[-1] != s:
                h.append(s)
            # an observation due now on a completely idle system must start
            planned = self.plan[o.name]['start'] / self.mult
            others = [n for n, st in self.started.items()
                      if st == t and n != o.name]
            if (t - 1 < planned <= t and self.idle_before[t] and not others
                    and self.started.get(o.name) != t):
                self._bad("%s fell due at t=%s on a completely idle system "
                          "but did not start then (started: %s); required: "
                          "starts exactly on time"
                          % (o.name, t, self.started.get(o.name)))

    def _check_final(self, runtime):
        for name, h in self.history.items():
            if h != ['WAITING', 'RUNNING', 'FINISHED']:
                self._bad("%s status sequence after %s steps is %s; required "
                          "WAITING, RUNNING, FINISHED" % (name, runtime, h))


def finish(violations):
    if violations:
        print("FAIL: " + " | ".join(violations[:4]))
        sys.exit(1)
    print("PASS")
    sys.exit(0)


def scenario(timestep, start, duration, rate):
    d = tempfile.mkdtemp(prefix='c08demo3_')
    try:
        path, cfg = write_config(
            d, [('a', start, duration, 5, rate)], {'a': 1},
            machines=4, total_arrays=10, max_ingest=4, hot=1000, cold=1000,
            hot_rate=100, cold_rate=100, timestep=timestep)
        return Run(path, cfg, 40).violations
    finally:
        shutil.rmtree(d, ignore_errors=True)


v = []
v += ["[minutes] " + m for m in scenario('minutes', 80, 180, 0.1)]
v += ["[seconds] " + m for m in scenario('seconds', 2.4, 3, 5)]
finish(v)
