"""C13 demo 1: the event log must contain every life-cycle entry exactly once,
whatever the pause point of the simulation (start(runtime=N) + resume()).

usage: python demo1.py <path-to-tree>
"""
import sys
import os
import json
import shutil
import tempfile
import logging

TREE = os.path.abspath(sys.argv[1])
sys.path.insert(0, TREE)
logging.disable(logging.CRITICAL)

import simpy  # noqa: E402
from topsim.core.simulation import Simulation  # noqa: E402
from topsim.user.telescope import Telescope  # noqa: E402
from topsim.user.plan.batch_planning import BatchPlanning  # noqa: E402
from topsim.user.schedule.batch_allocation import BatchProcessing  # noqa: E402

TRANSITIONS = [
    ("instrument", "telescope", "started"),
    ("instrument", "telescope", "finished"),
    ("buffer", "buffer", "added"),
    ("buffer", "buffer", "removed"),
    ("scheduler", "queue", "added"),
    ("scheduler", "queue", "removed"),
    ("scheduler", "allocation", "started"),
    ("scheduler", "allocation", "stopped"),
]

OBSERVATIONS = [
    {"name": "alpha", "start": 0, "duration": 5, "demand": 10, "rate": 2},
    {"name": "beta", "start": 3, "duration": 4, "demand": 10, "rate": 1},
]
END = 40


def write_workflow(path):
    graph = {
        "directed": True, "multigraph": False, "graph": {},
        "nodes": [{"id": 0, "comp": 200}, {"id": 1, "comp": 100}],
        "edges": [{"source": 0, "target": 1, "transfer_data": 0}],
    }
    with open(path, "w") as fp:
        json.dump({"graph": graph}, fp)


def write_config(directory):
    write_workflow(os.path.join(directory, "wf.json"))
    cfg = {
        "instrument": {"telescope": {
            "total_arrays": 36, "max_ingest_resources": 2,
            "pipelines": {o["name"]: {"workflow": "wf.json", "ingest_demand": 1}
                          for o in OBSERVATIONS},
            "observations": [
                {"name": o["name"], "start": o["start"],
                 "duration": o["duration"], "instrument_demand": o["demand"],
                 "data_product_rate": o["rate"]} for o in OBSERVATIONS]}},
        "cluster": {"header": {}, "system": {
            "resources": {"m%d" % i: {"flops": 100, "compute_bandwidth": 10}
                          for i in range(6)},
            "system_bandwidth": 1.0}},
        "buffer": {"hot": {"capacity": 1000, "max_ingest_rate": 10},
                   "cold": {"capacity": 1000, "max_data_rate": 10}},
        "timestep": "seconds",
    }
    path = os.path.join(directory, "config.json")
    with open(path, "w") as fp:
        json.dump(cfg, fp)
    return path


def run_with_pause(config, pause):
    env = simpy.Environment()
    sim = Simulation(env=env, config=config, instrument=Telescope,
                     planning_model=BatchPlanning('batch'),
                     planning_algorithm='batch',
                     scheduling=BatchProcessing(min_resources_per_workflow=1),
                     delay=None, timestamp=0)
    if pause is None:
        sim.start(runtime=END)
    else:
        sim.start(runtime=pause)
        sim.resume(until=END)
        sim.monitor.collate_events()  # flush the last timestep
    return sim.monitor.events


def check_log(events, label):
    problems = []
    for obs in OBSERVATIONS:
        rows = events[events["observation"] == obs["name"]]
        times = {}
        for actor, resource, event in TRANSITIONS:
            sel = rows[(rows["actor"] == actor) & (rows["resource"] == resource)
                       & (rows["event"] == event)]
            if len(sel) != 1:
                problems.append(
                    "%s: observation %s has %d '%s %s' entries (times %s), "
                    "required exactly 1" % (label, obs["name"], len(sel),
                                            resource, event,
                                            list(sel["time"])))
            if len(sel):
                times[(resource, event)] = int(sel["time"].iloc[0])
        if len(times) == len(TRANSITIONS) and not problems:
            chain = [times[("telescope", "started")], times[("queue", "added")],
                     times[("allocation", "started")],
                     times[("allocation", "stopped")],
                     times[("queue", "removed")]]
            if chain != sorted(chain):
                problems.append("%s: %s causal chain out of order %s"
                                % (label, obs["name"], chain))
            if times[("buffer", "added")] != times[("telescope", "started")]:
                problems.append("%s: %s buffer added != started"
                                % (label, obs["name"]))
            if times[("buffer", "removed")] != times[("allocation", "stopped")]:
                problems.append("%s: %s buffer removed != allocation stopped"
                                % (label, obs["name"]))
            if (times[("telescope", "finished")]
                    != times[("telescope", "started")] + obs["duration"]):
                problems.append("%s: %s finished-started != duration"
                                % (label, obs["name"]))
    return problems


def main():
    tmp = tempfile.mkdtemp(prefix="c13demo1_")
    try:
        config = write_config(tmp)
        problems = check_log(run_with_pause(config, None), "no pause")
        reference = None
        for pause in range(1, 16):
            events = run_with_pause(config, pause)
            problems += check_log(events, "pause at t=%d" % pause)
            key = sorted(map(tuple, events[
                ["time", "actor", "observation", "event",
                 "resource"]].values.tolist()))
            if reference is None:
                reference = key
            elif key != reference and not problems:
                problems.append("pause at t=%d: log differs from the log of "
                                "the run paused at t=1" % pause)
    finally:
        shutil.rmtree(tmp, ignore_errors=True)
    if problems:
        print("FAIL: " + problems[0]
              + " (%d problem(s) in total)" % len(problems))
        return 1
    print("PASS")
    return 0


if __name__ == "__main__":
    sys.exit(main())
