"""C13 demo 2: an observation that has to wait for the telescope (all arrays
are taken by a longer, earlier observation) for longer than its own duration
must still get the complete life cycle in the event log, with 'finished'
exactly one duration after 'started'.

usage: python demo2.py <path-to-tree>
"""
import sys
import os
import json
import shutil
import tempfile
import logging

TREE = os.path.abspath(sys.argv[1])
sys.path.insert(0, TREE)
logging.disable(logging.CRITICAL)

import simpy  # noqa: E402
from topsim.core.simulation import Simulation  # noqa: E402
from topsim.user.telescope import Telescope  # noqa: E402
from topsim.user.plan.batch_planning import BatchPlanning  # noqa: E402
from topsim.user.schedule.batch_allocation import BatchProcessing  # noqa: E402

TRANSITIONS = [
    ("instrument", "telescope", "started"),
    ("instrument", "telescope", "finished"),
    ("buffer", "buffer", "added"),
    ("buffer", "buffer", "removed"),
    ("scheduler", "queue", "added"),
    ("scheduler", "queue", "removed"),
    ("scheduler", "allocation", "started"),
    ("scheduler", "allocation", "stopped"),
]

# 'late' is planned for t=2 but the whole telescope (36 arrays) is used by
# 'long' until t=10, i.e. for longer than est + duration of 'late'.
OBSERVATIONS = [
    {"name": "long", "start": 0, "duration": 10, "demand": 36, "rate": 2},
    {"name": "late", "start": 2, "duration": 3, "demand": 36, "rate": 1},
]
END = 60


def write_workflow(path):
    graph = {
        "directed": True, "multigraph": False, "graph": {},
        "nodes": [{"id": 0, "comp": 200}, {"id": 1, "comp": 100}],
        "edges": [{"source": 0, "target": 1, "transfer_data": 0}],
    }
    with open(path, "w") as fp:
        json.dump({"graph": graph}, fp)


def write_config(directory):
    write_workflow(os.path.join(directory, "wf.json"))
    cfg = {
        "instrument": {"telescope": {
            "total_arrays": 36, "max_ingest_resources": 2,
            "pipelines": {o["name"]: {"workflow": "wf.json", "ingest_demand": 1}
                          for o in OBSERVATIONS},
            "observations": [
                {"name": o["name"], "start": o["start"],
                 "duration": o["duration"], "instrument_demand": o["demand"],
                 "data_product_rate": o["rate"]} for o in OBSERVATIONS]}},
        "cluster": {"header": {}, "system": {
            "resources": {"m%d" % i: {"flops": 100, "compute_bandwidth": 10}
                          for i in range(6)},
            "system_bandwidth": 1.0}},
        "buffer": {"hot": {"capacity": 1000, "max_ingest_rate": 10},
                   "cold": {"capacity": 1000, "max_data_rate": 10}},
        "timestep": "seconds",
    }
    path = os.path.join(directory, "config.json")
    with open(path, "w") as fp:
        json.dump(cfg, fp)
    return path


def run_with_pause(config, pause):
    env = simpy.Environment()
    sim = Simulation(env=env, config=config, instrument=Telescope,
                     planning_model=BatchPlanning('batch'),
                     planning_algorithm='batch',
                     scheduling=BatchProcessing(min_resources_per_workflow=1),
                     delay=None, timestamp=0)
    if pause is None:
        sim.start(runtime=END)
    else:
        sim.start(runtime=pause)
        sim.resume(until=END)
        sim.monitor.collate_events()  # flush the last timestep
    return sim.monitor.events


def check_log(events, label):
    problems = []
    for obs in OBSERVATIONS:
        rows = events[events["observation"] == obs["name"]]
        times = {}
        for actor, resource, event in TRANSITIONS:
            sel = rows[(rows["actor"] == actor) & (rows["resource"] == resource)
                       & (rows["event"] == event)]
            if len(sel) != 1:
                problems.append(
                    "%s: observation %s has %d '%s %s' entries (times %s), "
                    "required exactly 1" % (label, obs["name"], len(sel),
                                            resource, event,
                                            list(sel["time"])))
            if len(sel):
                times[(resource, event)] = int(sel["time"].iloc[0])
        if len(times) == len(TRANSITIONS) and not problems:
            chain = [times[("telescope", "started")], times[("queue", "added")],
                     times[("allocation", "started")],
                     times[("allocation", "stopped")],
                     times[("queue", "removed")]]
            if chain != sorted(chain):
                problems.append("%s: %s causal chain out of order %s"
                                % (label, obs["name"], chain))
            if times[("buffer", "added")] != times[("telescope", "started")]:
                problems.append("%s: %s buffer added != started"
                                % (label, obs["name"]))
            if times[("buffer", "removed")] != times[("allocation", "stopped")]:
                problems.append("%s: %s buffer removed != allocation stopped"
                                % (label, obs["name"]))
            if (times[("telescope", "finished")]
                    != times[("telescope", "started")] + obs["duration"]):
                problems.append("%s: %s finished-started != duration"
                                % (label, obs["name"]))
    return problems


def main():
    tmp = tempfile.mkdtemp(prefix="c13demo2_")
    try:
        config = write_config(tmp)
        events = run_with_pause(config, None)
        rows = events[(events["actor"] == "instrument")]
        seen = [(int(t), o, e) for t, o, e in
                rows[["time", "observation", "event"]].values.tolist()]
        problems = []
        for obs in OBSERVATIONS:
            began = [t for t, o, e in seen
                     if o == obs["name"] and e == "started"]
            ended = [t for t, o, e in seen
                     if o == obs["name"] and e == "finished"]
            if ended and not began:
                problems.append(
                    "observation %s logged 'finished' at t=%s without ever "
                    "being 'started'; required one 'started' and 'finished' "
                    "= 'started' + %d" % (obs["name"], ended, obs["duration"]))
        problems += check_log(events, "blocked telescope")
    finally:
        shutil.rmtree(tmp, ignore_errors=True)
    if problems:
        print("FAIL: " + problems[0]
              + " (%d problem(s) in total); telescope entries: %s"
              % (len(problems), seen))
        return 1
    print("PASS")
    return 0


if __name__ == "__main__":
    sys.exit(main())
