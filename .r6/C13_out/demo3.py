"""C13 demo 3: an observation whose processing workflow is EMPTY (a pipeline
with no tasks) still goes through every life-cycle transition - in particular
its allocation is started and stopped (in the same timestep) - and each of
them must appear exactly once in the event log, in causal order.  A second
observation with a single-node workflow and a third with an ordinary
two-node workflow run alongside, under both dynamic algorithm pairings.

usage: python demo3.py <path-to-tree>
"""
import sys
import os
import json
import shutil
import tempfile
import logging

TREE = os.path.abspath(sys.argv[1])
sys.path.insert(0, TREE)
logging.disable(logging.CRITICAL)

import simpy  # noqa: E402
from topsim.core.simulation import Simulation  # noqa: E402
from topsim.user.telescope import Telescope  # noqa: E402
from topsim.user.plan.batch_planning import BatchPlanning  # noqa: E402
from topsim.user.schedule.batch_allocation import BatchProcessing  # noqa: E402
from topsim.user.schedule.queue_allocation import QueueProcessing  # noqa: E402

TRANSITIONS = [
    ("instrument", "telescope", "started"),
    ("instrument", "telescope", "finished"),
    ("buffer", "buffer", "added"),
    ("buffer", "buffer", "removed"),
    ("scheduler", "queue", "added"),
    ("scheduler", "queue", "removed"),
    ("scheduler", "allocation", "started"),
    ("scheduler", "allocation", "stopped"),
]

OBSERVATIONS = [
    {"name": "empty", "start": 0, "duration": 5, "demand": 10, "rate": 2,
     "comps": []},
    {"name": "single", "start": 3, "duration": 4, "demand": 10, "rate": 1,
     "comps": [150]},
    {"name": "chain", "start": 9, "duration": 3, "demand": 10, "rate": 1,
     "comps": [200, 100]},
]
END = 60


def write_workflow(path, comps):
    graph = {
        "directed": True, "multigraph": False, "graph": {},
        "nodes": [{"id": i, "comp": c} for i, c in enumerate(comps)],
        "edges": [{"source": i, "target": i + 1, "transfer_data": 0}
                  for i in range(len(comps) - 1)],
    }
    with open(path, "w") as fp:
        json.dump({"graph": graph}, fp)


def write_config(directory):
    for o in OBSERVATIONS:
        write_workflow(os.path.join(directory, "wf_%s.json" % o["name"]),
                       o["comps"])
    cfg = {
        "instrument": {"telescope": {
            "total_arrays": 36, "max_ingest_resources": 2,
            "pipelines": {o["name"]: {"workflow": "wf_%s.json" % o["name"],
                                      "ingest_demand": 1}
                          for o in OBSERVATIONS},
            "observations": [
                {"name": o["name"], "start": o["start"],
                 "duration": o["duration"], "instrument_demand": o["demand"],
                 "data_product_rate": o["rate"]} for o in OBSERVATIONS]}},
        "cluster": {"header": {}, "system": {
            "resources": {"m%d" % i: {"flops": 100, "compute_bandwidth": 10}
                          for i in range(6)},
            "system_bandwidth": 1.0}},
        "buffer": {"hot": {"capacity": 1000, "max_ingest_rate": 10},
                   "cold": {"capacity": 1000, "max_data_rate": 10}},
        "timestep": "seconds",
    }
    path = os.path.join(directory, "config.json")
    with open(path, "w") as fp:
        json.dump(cfg, fp)
    return path


def run_with_pause(config, pause, scheduling=None):
    env = simpy.Environment()
    if scheduling is None:
        scheduling = BatchProcessing(min_resources_per_workflow=1)
    sim = Simulation(env=env, config=config, instrument=Telescope,
                     planning_model=BatchPlanning('batch'),
                     planning_algorithm='batch',
                     scheduling=scheduling,
                     delay=None, timestamp=0)
    if pause is None:
        sim.start(runtime=END)
    else:
        sim.start(runtime=pause)
        sim.resume(until=END)
        sim.monitor.collate_events()  # flush the last timestep
    return sim.monitor.events


def check_log(events, label):
    problems = []
    for obs in OBSERVATIONS:
        rows = events[events["observation"] == obs["name"]]
        times = {}
        for actor, resource, event in TRANSITIONS:
            sel = rows[(rows["actor"] == actor) & (rows["resource"] == resource)
                       & (rows["event"] == event)]
            if len(sel) != 1:
                problems.append(
                    "%s: observation %s has %d '%s %s' entries (times %s), "
                    "required exactly 1" % (label, obs["name"], len(sel),
                                            resource, event,
                                            list(sel["time"])))
            if len(sel):
                times[(resource, event)] = int(sel["time"].iloc[0])
        if len(times) == len(TRANSITIONS) and not problems:
            chain = [times[("telescope", "started")], times[("queue", "added")],
                     times[("allocation", "started")],
                     times[("allocation", "stopped")],
                     times[("queue", "removed")]]
            if chain != sorted(chain):
                problems.append("%s: %s causal chain out of order %s"
                                % (label, obs["name"], chain))
            if times[("buffer", "added")] != times[("telescope", "started")]:
                problems.append("%s: %s buffer added != started"
                                % (label, obs["name"]))
            if times[("buffer", "removed")] != times[("allocation", "stopped")]:
                problems.append("%s: %s buffer removed != allocation stopped"
                                % (label, obs["name"]))
            if (times[("telescope", "finished")]
                    != times[("telescope", "started")] + obs["duration"]):
                problems.append("%s: %s finished-started != duration"
                                % (label, obs["name"]))
    return problems


def main():
    tmp = tempfile.mkdtemp(prefix="c13demo3_")
    problems = []
    try:
        config = write_config(tmp)
        for label, alg in (
                ("batch", BatchProcessing(min_resources_per_workflow=1)),
                ("queue", QueueProcessing())):
            events = run_with_pause(config, None, alg)
            problems += check_log(events, label)
    finally:
        shutil.rmtree(tmp, ignore_errors=True)
    if problems:
        print("FAIL: " + problems[0]
              + " (%d problem(s) in total)" % len(problems))
        return 1
    print("PASS")
    return 0


if __name__ == "__main__":
    sys.exit(main())
