"""
demo2 - C06 for a workflow in which only SOME nodes carry a data demand.

"task_data" is optional on a workflow node; a node without it has a data
demand of zero, so its runtime is floor(comp / speed) (at least one step),
no matter what the node before it in the topological order needed.

usage: python demo2.py <path-to-tree>
"""
import sys

sys.path.insert(0, sys.argv[1])

import json
import logging
import os
import shutil
import tempfile

logging.disable(logging.CRITICAL)

import simpy  # noqa: E402

from topsim.core.simulation import Simulation  # noqa: E402
from topsim.user.telescope import Telescope  # noqa: E402
from topsim.user.plan.batch_planning import BatchPlanning  # noqa: E402
from topsim.user.schedule.batch_allocation import BatchProcessing  # noqa: E402

UNIT = 1  # seconds per timestep ("seconds")
FLOPS = 10  # per second
BANDWIDTH = 2  # per second
OBS_SECONDS = 4

# gid -> (comp, task_data); None = the node has no "task_data" attribute
NODES = {0: (100, 60), 1: (25, None), 2: (5, None), 3: (40, 0), 4: (0, None)}
EDGES = [(0, 1), (1, 2), (2, 3), (3, 4)]


def build(tmp):
    wf = {"header": {"time": False},
          "graph": {"directed": True, "multigraph": False, "graph": {},
                    "nodes": [({"id": n, "comp": c} if d is None else
                               {"id": n, "comp": c, "task_data": d})
                              for n, (c, d) in NODES.items()],
                    "edges": [{"source": u, "target": v, "transfer_data": 0}
                              for u, v in EDGES]}}
    with open(os.path.join(tmp, "wf.json"), "w") as f:
        json.dump(wf, f)
    cfg = {
        "instrument": {"telescope": {
            "total_arrays": 36, "max_ingest_resources": 2,
            "pipelines": {"obs": {"workflow": "wf.json", "ingest_demand": 2}},
            "observations": [{"name": "obs", "start": 0,
                              "duration": OBS_SECONDS,
                              "instrument_demand": 36,
                              "data_product_rate": 1}]}},
        "cluster": {"header": {"time": "false", "gen_specs": {}},
                    "system": {"resources": {
                        f"m{i}": {"flops": FLOPS,
                                  "compute_bandwidth": BANDWIDTH}
                        for i in range(3)},
                        "system_bandwidth": 1.0}},
        "buffer": {"hot": {"capacity": 10000, "max_ingest_rate": 100},
                   "cold": {"capacity": 10000, "max_data_rate": 100}},
        "timestep": "seconds"}
    path = os.path.join(tmp, "cfg.json")
    with open(path, "w") as f:
        json.dump(cfg, f)
    return path


def main():
    problems = []
    tmp = tempfile.mkdtemp(prefix="c06demo2_")
    try:
        cfg_path = build(tmp)

        env = simpy.Environment()
        sim = Simulation(env=env, config=cfg_path, instrument=Telescope,
                         planning_model=BatchPlanning('batch'),
                         planning_algorithm='batch',
                         scheduling=BatchProcessing(
                             min_resources_per_workflow=1),
                         delay=None, timestamp=0)
        sim.start(runtime=150)
        finished = list(sim.cluster._clusters['default']['tasks']['finished'])
        seen_wf, seen_ingest = 0, 0
        for t in finished:
            if t.aft < 0:
                continue
            observed = t.aft - t.ast
            if '_ingest_' in t.id:
                required = OBS_SECONDS / UNIT
                seen_ingest += 1
                kind = "ingest task"
            else:
                comp, data = NODES[t.graph_id]
                data = data or 0
                if t.task_data != data:
                    problems.append(
                        f"planned task {t.id} carries data demand "
                        f"{t.task_data}, its workflow node has {data}")
                required = max(comp // (FLOPS * UNIT),
                               data // (BANDWIDTH * UNIT), 1)
                seen_wf += 1
                kind = f"workflow task (comp={comp}, data={data})"
            if observed != required:
                problems.append(
                    f"{kind} {t.id} ran {observed} timesteps "
                    f"(ast={t.ast}, aft={t.aft}), required {required}")
        if seen_wf != len(NODES) or seen_ingest != 2:
            problems.append(
                f"simulation incomplete: {seen_wf} workflow / {seen_ingest} "
                f"ingest tasks finished by t={env.now}, required "
                f"{len(NODES)} / 2")
    finally:
        shutil.rmtree(tmp, ignore_errors=True)

    if problems:
        print("FAIL: " + "; ".join(problems))
        return 1
    print("PASS")
    return 0


if __name__ == "__main__":
    sys.exit(main())
