"""
demo3 - C06 for ingest tasks of two observations whose ingest overlaps.

Observation A (start 0, 6 timesteps) is still being ingested when observation
B (start 2, 3 timesteps) begins on the other half of the telescope; C (start
20, 5 timesteps) runs alone afterwards.  Every ingest task must run for
exactly the duration of ITS OWN observation: A 6, B 3, C 5.

usage: python demo3.py <path-to-tree>
"""
import sys

sys.path.insert(0, sys.argv[1])

import json
import logging
import os
import shutil
import tempfile

logging.disable(logging.CRITICAL)

import simpy  # noqa: E402

from topsim.core.simulation import Simulation  # noqa: E402
from topsim.user.telescope import Telescope  # noqa: E402
from topsim.user.plan.batch_planning import BatchPlanning  # noqa: E402
from topsim.user.schedule.batch_allocation import BatchProcessing  # noqa: E402

FLOPS = 10  # per second
BANDWIDTH = 2  # per second

# name -> (start, duration, ingest machines)
OBSERVATIONS = {"A": (0, 6, 2), "B": (2, 3, 1), "C": (20, 5, 2)}

# gid -> (comp, task_data)
NODES = {0: (30, 0), 1: (0, 8)}
EDGES = [(0, 1)]


def build(tmp):
    wf = {"header": {"time": False},
          "graph": {"directed": True, "multigraph": False, "graph": {},
                    "nodes": [{"id": n, "comp": c, "task_data": d}
                              for n, (c, d) in NODES.items()],
                    "edges": [{"source": u, "target": v, "transfer_data": 0}
                              for u, v in EDGES]}}
    with open(os.path.join(tmp, "wf.json"), "w") as f:
        json.dump(wf, f)
    cfg = {
        "instrument": {"telescope": {
            "total_arrays": 36, "max_ingest_resources": 4,
            "pipelines": {name: {"workflow": "wf.json", "ingest_demand": n}
                          for name, (_, _, n) in OBSERVATIONS.items()},
            "observations": [{"name": name, "start": start,
                              "duration": duration,
                              "instrument_demand": 18,
                              "data_product_rate": 1}
                             for name, (start, duration, _)
                             in OBSERVATIONS.items()]}},
        "cluster": {"header": {"time": "false", "gen_specs": {}},
                    "system": {"resources": {
                        f"m{i}": {"flops": FLOPS,
                                  "compute_bandwidth": BANDWIDTH}
                        for i in range(8)},
                        "system_bandwidth": 1.0}},
        "buffer": {"hot": {"capacity": 10000, "max_ingest_rate": 100},
                   "cold": {"capacity": 10000, "max_data_rate": 100}},
        "timestep": "seconds"}
    path = os.path.join(tmp, "cfg.json")
    with open(path, "w") as f:
        json.dump(cfg, f)
    return path


def main():
    problems = []
    tmp = tempfile.mkdtemp(prefix="c06demo3_")
    try:
        cfg_path = build(tmp)

        env = simpy.Environment()
        sim = Simulation(env=env, config=cfg_path, instrument=Telescope,
                         planning_model=BatchPlanning('batch'),
                         planning_algorithm='batch',
                         scheduling=BatchProcessing(
                             min_resources_per_workflow=1),
                         delay=None, timestamp=0)
        sim.start(runtime=150)
        finished = list(sim.cluster._clusters['default']['tasks']['finished'])
        seen_wf, seen_ingest = 0, 0
        for t in finished:
            if t.aft < 0:
                continue
            observed = t.aft - t.ast
            obs_name = t.id.split('_')[0]
            if '_ingest_' in t.id:
                required = OBSERVATIONS[obs_name][1]
                seen_ingest += 1
                kind = f"ingest task of observation {obs_name}"
            else:
                comp, data = NODES[t.graph_id]
                required = max(comp // FLOPS, data // BANDWIDTH, 1)
                seen_wf += 1
                kind = f"workflow task (comp={comp}, data={data})"
            if observed != required:
                problems.append(
                    f"{kind} {t.id} ran {observed} timesteps "
                    f"(ast={t.ast}, aft={t.aft}), required {required}")
        want_wf = len(NODES) * len(OBSERVATIONS)
        want_ingest = sum(n for _, _, n in OBSERVATIONS.values())
        if seen_wf != want_wf or seen_ingest != want_ingest:
            problems.append(
                f"simulation incomplete: {seen_wf} workflow / {seen_ingest} "
                f"ingest tasks finished by t={env.now}, required "
                f"{want_wf} / {want_ingest}")
    finally:
        shutil.rmtree(tmp, ignore_errors=True)

    if problems:
        print("FAIL: " + "; ".join(problems))
        return 1
    print("PASS")
    return 0


if __name__ == "__main__":
    sys.exit(main())
