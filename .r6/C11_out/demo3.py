"""
demo3 - C11 (pausing and resuming is transparent): REFUSED start()/resume().

"Starting twice, or resuming before starting, is refused with an error and
changes nothing."

Scenario 1: resume() on a simulation that has not been started must raise and
leave the simulation untouched: a subsequent start(runtime=T) gives exactly the
tables of a fresh uninterrupted run.

Scenario 2 (for several pause points k): start(runtime=k); a second start()
(with and without a runtime) must raise; afterwards resume(until=T) must still
give exactly the per-timestep table, event log and task table of one
uninterrupted run of T timesteps.

usage: python demo3.py <path-to-tree>
"""
import sys

TREE = sys.argv[1]
sys.path.insert(0, TREE)

import contextlib
import io
import json
import logging
import os
import shutil
import tempfile
import warnings

warnings.simplefilter('ignore')
logging.disable(logging.CRITICAL)

import simpy  # noqa: E402

from topsim.core.simulation import Simulation  # noqa: E402
from topsim.user.telescope import Telescope  # noqa: E402
from topsim.user.plan.batch_planning import BatchPlanning  # noqa: E402
from topsim.user.schedule.batch_allocation import BatchProcessing  # noqa: E402

T = 30


def write_config(d):
    workflow = {
        "header": {"time": False},
        "graph": {
            "directed": True, "multigraph": False, "graph": {},
            "nodes": [{"comp": 4, "id": 0}, {"comp": 6, "id": 1},
                      {"comp": 2, "id": 2}, {"comp": 4, "id": 3}],
            "edges": [{"transfer_data": 2, "source": 0, "target": 1},
                      {"transfer_data": 2, "source": 0, "target": 2},
                      {"transfer_data": 2, "source": 1, "target": 3},
                      {"transfer_data": 2, "source": 2, "target": 3}]}}
    with open(os.path.join(d, 'wf.json'), 'w') as f:
        json.dump(workflow, f)
    cfg = {
        "instrument": {"telescope": {
            "total_arrays": 36, "max_ingest_resources": 2,
            "pipelines": {
                "a": {"workflow": "wf.json", "ingest_demand": 1},
                "b": {"workflow": "wf.json", "ingest_demand": 1}},
            "observations": [
                {"name": "a", "start": 2, "duration": 5,
                 "instrument_demand": 18, "data_product_rate": 4},
                {"name": "b", "start": 9, "duration": 4,
                 "instrument_demand": 18, "data_product_rate": 3}]}},
        "cluster": {"header": {}, "system": {
            "resources": {f"m{i}": {"flops": 2.0, "compute_bandwidth": 1.0}
                          for i in range(4)},
            "system_bandwidth": 1.0}},
        "buffer": {"hot": {"capacity": 200, "max_ingest_rate": 10},
                   "cold": {"capacity": 200, "max_data_rate": 10}},
        "timestep": "seconds"}
    path = os.path.join(d, 'cfg.json')
    with open(path, 'w') as f:
        json.dump(cfg, f)
    return path


def build(cfg):
    return Simulation(
        env=simpy.Environment(), config=cfg, instrument=Telescope,
        planning_model=BatchPlanning('batch'), planning_algorithm='batch',
        scheduling=BatchProcessing(min_resources_per_workflow=1),
        delay=None, timestamp=0)


def quiet(fn, *args, **kwargs):
    with contextlib.redirect_stdout(io.StringIO()), \
            contextlib.redirect_stderr(io.StringIO()):
        return fn(*args, **kwargs)


def tables(sim):
    df = sim.monitor.df
    # '<obs>-algtime' columns hold wall-clock durations: not reproducible
    df = df[[c for c in df.columns if not c.endswith('algtime')]]
    events = sim.monitor.events.reset_index(drop=True)
    tasks = sim._generate_final_task_data().sort_index()
    return {'per-timestep table': df.to_csv(),
            'event log': events.to_csv(),
            'task table': tasks.to_csv()}


def uninterrupted(cfg):
    sim = build(cfg)
    quiet(sim.start, runtime=T)
    return tables(sim)


def paused(cfg, points):
    sim = build(cfg)
    quiet(sim.start, runtime=points[0])
    for p in points[1:]:
        quiet(sim.resume, until=p)
    # start() collates the last timestep's events itself, resume() does not
    sim.monitor.collate_events()
    return tables(sim)


def first_difference(a, b):
    la, lb = a.splitlines(), b.splitlines()
    for i in range(max(len(la), len(lb))):
        x = la[i] if i < len(la) else '<missing>'
        y = lb[i] if i < len(lb) else '<missing>'
        if x != y:
            return f"paused run has row '{y}', uninterrupted run has '{x}'"
    return 'no difference'


NAMES = ('per-timestep table', 'event log', 'task table')


def refused(fn, *args, **kwargs):
    """True if the call is refused with an error (any Exception subclass)."""
    try:
        quiet(fn, *args, **kwargs)
    except Exception:
        return True
    return False


def compare(ref, got, what):
    for name in NAMES:
        if got[name] != ref[name]:
            return (f"{name} differs {what}: "
                    f"{first_difference(ref[name], got[name])}; required: "
                    f"the refused call changes nothing, i.e. identical to the "
                    f"uninterrupted run of {T} timesteps")
    return None


def main():
    d = tempfile.mkdtemp(prefix='c11_demo3_')
    try:
        cfg = write_config(d)
        ref = uninterrupted(cfg)

        # Scenario 1: resume before start
        sim = build(cfg)
        if not refused(sim.resume, until=5):
            return ("resume(until=5) before start() was accepted; required: "
                    "refused with an error")
        if sim.env.now != 0 or len(sim.monitor.df) != 0:
            return (f"refused resume() advanced the simulation to "
                    f"t={sim.env.now} with {len(sim.monitor.df)} rows; "
                    f"required: nothing changes")
        quiet(sim.start, runtime=T)
        problem = compare(ref, tables(sim),
                          'after a refused resume() followed by start()')
        if problem:
            return problem

        # Scenario 2: start twice, then resume
        for k in (1, 4, 8, 13, 20):
            for second_runtime in (-1, T):
                sim = build(cfg)
                quiet(sim.start, runtime=k)
                if not refused(sim.start, runtime=second_runtime):
                    return (f"second start(runtime={second_runtime}) at "
                            f"t={k} was accepted; required: refused with an "
                            f"error")
                if sim.env.now != k:
                    return (f"refused second start() moved the clock from "
                            f"{k} to {sim.env.now}; required: nothing changes")
                quiet(sim.resume, until=(k + T) // 2)
                quiet(sim.resume, until=T)
                sim.monitor.collate_events()
                problem = compare(
                    ref, tables(sim),
                    f"after start(runtime={k}), a refused second "
                    f"start(runtime={second_runtime}) and resume to {T}")
                if problem:
                    return problem
        return None
    finally:
        shutil.rmtree(d, ignore_errors=True)


if __name__ == '__main__':
    try:
        problem = main()
    except Exception as exc:  # any crash is a violation too
        problem = f'unexpected {type(exc).__name__}: {exc}'
    if problem:
        print(f'FAIL: {problem}')
        sys.exit(1)
    print('PASS')
    sys.exit(0)
