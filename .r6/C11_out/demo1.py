"""
demo1 - C11 (pausing and resuming is transparent): TASK TABLE.

Runs one small simulation uninterrupted for T timesteps and then, for every
pause point k in 1..T-1, the same simulation as start(runtime=k) followed by
resume() in one, two and many segments.  The task table (and, for good
measure, the per-timestep table) of every paused run must be
identical to the one of the uninterrupted run.  (The event log is the
subject of demo2.)

The scenario is chosen so that some pause points fall INSIDE the ingest of an
observation (the ingest tasks are already listed by the cluster at that time,
but have not finished yet).

usage: python demo1.py <path-to-tree>
"""
import sys

TREE = sys.argv[1]
sys.path.insert(0, TREE)

import contextlib
import io
import json
import logging
import os
import shutil
import tempfile
import warnings

warnings.simplefilter('ignore')
logging.disable(logging.CRITICAL)

import simpy  # noqa: E402

from topsim.core.simulation import Simulation  # noqa: E402
from topsim.user.telescope import Telescope  # noqa: E402
from topsim.user.plan.batch_planning import BatchPlanning  # noqa: E402
from topsim.user.schedule.batch_allocation import BatchProcessing  # noqa: E402

T = 30


def write_config(d):
    workflow = {
        "header": {"time": False},
        "graph": {
            "directed": True, "multigraph": False, "graph": {},
            "nodes": [{"comp": 4, "id": 0}, {"comp": 6, "id": 1},
                      {"comp": 2, "id": 2}, {"comp": 4, "id": 3}],
            "edges": [{"transfer_data": 2, "source": 0, "target": 1},
                      {"transfer_data": 2, "source": 0, "target": 2},
                      {"transfer_data": 2, "source": 1, "target": 3},
                      {"transfer_data": 2, "source": 2, "target": 3}]}}
    with open(os.path.join(d, 'wf.json'), 'w') as f:
        json.dump(workflow, f)
    cfg = {
        "instrument": {"telescope": {
            "total_arrays": 36, "max_ingest_resources": 2,
            "pipelines": {
                "a": {"workflow": "wf.json", "ingest_demand": 1},
                "b": {"workflow": "wf.json", "ingest_demand": 1}},
            "observations": [
                {"name": "a", "start": 2, "duration": 5,
                 "instrument_demand": 18, "data_product_rate": 4},
                {"name": "b", "start": 9, "duration": 4,
                 "instrument_demand": 18, "data_product_rate": 3}]}},
        "cluster": {"header": {}, "system": {
            "resources": {f"m{i}": {"flops": 2.0, "compute_bandwidth": 1.0}
                          for i in range(4)},
            "system_bandwidth": 1.0}},
        "buffer": {"hot": {"capacity": 200, "max_ingest_rate": 10},
                   "cold": {"capacity": 200, "max_data_rate": 10}},
        "timestep": "seconds"}
    path = os.path.join(d, 'cfg.json')
    with open(path, 'w') as f:
        json.dump(cfg, f)
    return path


def build(cfg):
    return Simulation(
        env=simpy.Environment(), config=cfg, instrument=Telescope,
        planning_model=BatchPlanning('batch'), planning_algorithm='batch',
        scheduling=BatchProcessing(min_resources_per_workflow=1),
        delay=None, timestamp=0)


def quiet(fn, *args, **kwargs):
    with contextlib.redirect_stdout(io.StringIO()), \
            contextlib.redirect_stderr(io.StringIO()):
        return fn(*args, **kwargs)


def tables(sim):
    df = sim.monitor.df
    # '<obs>-algtime' columns hold wall-clock durations: not reproducible
    df = df[[c for c in df.columns if not c.endswith('algtime')]]
    events = sim.monitor.events.reset_index(drop=True)
    tasks = sim._generate_final_task_data().sort_index()
    return {'per-timestep table': df.to_csv(),
            'event log': events.to_csv(),
            'task table': tasks.to_csv()}


def uninterrupted(cfg):
    sim = build(cfg)
    quiet(sim.start, runtime=T)
    return tables(sim)


def paused(cfg, points):
    sim = build(cfg)
    quiet(sim.start, runtime=points[0])
    for p in points[1:]:
        quiet(sim.resume, until=p)
    # start() collates the last timestep's events itself, resume() does not
    sim.monitor.collate_events()
    return tables(sim)


def first_difference(a, b):
    la, lb = a.splitlines(), b.splitlines()
    for i in range(max(len(la), len(lb))):
        x = la[i] if i < len(la) else '<missing>'
        y = lb[i] if i < len(lb) else '<missing>'
        if x != y:
            return f"paused run has row '{y}', uninterrupted run has '{x}'"
    return 'no difference'


def main():
    d = tempfile.mkdtemp(prefix='c11_demo1_')
    try:
        cfg = write_config(d)
        ref = uninterrupted(cfg)
        # the scenario must really contain an ingest that is cut by a pause
        if 'a_ingest_t0' not in ref['task table']:
            return 'scenario broken: no ingest task in the task table'
        for k in range(1, T):
            mid = (k + T) // 2
            splits = [[k, T], list(range(k, T + 1))]
            if k < mid < T:
                splits.append([k, mid, T])
            for points in splits:
                got = paused(cfg, points)
                for name in ('task table', 'per-timestep table'):
                    if got[name] != ref[name]:
                        shown = points if len(points) < 5 else \
                            f'{points[:3]}...{points[-1]}'
                        return (f"{name} differs after start(runtime={k}) + "
                                f"resume over {shown}: "
                                f"{first_difference(ref[name], got[name])}; "
                                f"required: identical to the uninterrupted "
                                f"run of {T} timesteps")
        return None
    finally:
        shutil.rmtree(d, ignore_errors=True)


if __name__ == '__main__':
    try:
        problem = main()
    except Exception as exc:  # any crash is a violation too
        problem = f'unexpected {type(exc).__name__}: {exc}'
    if problem:
        print(f'FAIL: {problem}')
        sys.exit(1)
    print('PASS')
    sys.exit(0)
