"""
demo1 - C12: the per-timestep table has one row per simulated timestep, also
when the simulation is run in two legs (Simulation.start(runtime=N) followed by
Simulation.resume(until=M)), and every row reports the true state.

usage: python demo1.py <path-to-tree>
"""
import sys
import os
import json
import shutil
import tempfile
import logging

sys.path.insert(0, os.path.abspath(sys.argv[1]))
logging.disable(logging.CRITICAL)

import simpy  # noqa: E402
from topsim.core.simulation import Simulation  # noqa: E402
from topsim.user.telescope import Telescope  # noqa: E402
from topsim.user.plan.batch_planning import BatchPlanning  # noqa: E402
from topsim.user.schedule.queue_allocation import QueueProcessing  # noqa: E402

COLS = ['available_resources', 'ingest_resources', 'running_tasks',
        'finished_tasks', 'provisioned_observations', 'hot_buffer',
        'cold_buffer', 'stored', 'observations_waiting',
        'observations_finished', 'scheduler_observation_queue']


def workflow(nodes, edges):
    return {"graph": {
        "directed": True, "multigraph": False, "graph": {},
        "nodes": [{"id": n, "comp": c} for n, c in nodes],
        "edges": [{"source": s, "target": t, "transfer_data": d}
                  for s, t, d in edges]}}


def write_config(d):
    wfs = {
        "A": workflow([(0, 20), (1, 30), (2, 10), (3, 20)],
                      [(0, 1, 0), (0, 2, 0), (1, 3, 0), (2, 3, 0)]),
        "B": workflow([(0, 10), (1, 40), (2, 10)], [(0, 1, 0), (1, 2, 0)]),
    }
    for name, wf in wfs.items():
        with open(os.path.join(d, name + '_wf.json'), 'w') as f:
            json.dump(wf, f)
    cfg = {
        "instrument": {"telescope": {
            "total_arrays": 36, "max_ingest_resources": 4,
            "pipelines": {
                "A": {"workflow": "A_wf.json", "ingest_demand": 2},
                "B": {"workflow": "B_wf.json", "ingest_demand": 1}},
            "observations": [
                {"name": "A", "start": 0, "duration": 5,
                 "instrument_demand": 10, "data_product_rate": 10},
                {"name": "B", "start": 2, "duration": 6,
                 "instrument_demand": 10, "data_product_rate": 8}]}},
        "cluster": {"header": {}, "system": {
            "resources": {'m%d' % i: {"flops": 10, "compute_bandwidth": 10}
                          for i in range(6)},
            "system_bandwidth": 1.0}},
        "buffer": {"hot": {"capacity": 1000, "max_ingest_rate": 100},
                   "cold": {"capacity": 1000, "max_data_rate": 50}},
        "timestep": "seconds"}
    path = os.path.join(d, 'cfg.json')
    with open(path, 'w') as f:
        json.dump(cfg, f)
    return path


def truth(sim):
    cl = sim.cluster._clusters['default']
    res, tasks = cl['resources'], cl['tasks']
    obs = sim.instrument.observations
    return {
        'available_resources': len(res['available']) + sum(
            len(v) for v in res['idle'].values()),
        'ingest_resources': len(res['ingest']),
        'running_tasks': len(tasks['running']),
        'finished_tasks': sum(1 for v in tasks['finished'].values() if v),
        'provisioned_observations': len(res['idle']),
        'hot_buffer': sim.buffer.hot[0].current_capacity,
        'cold_buffer': sim.buffer.cold[0].current_capacity,
        'stored': len(sim.buffer.hot[0].observations['stored']) + len(
            sim.buffer.cold[0].observations['stored']),
        'observations_waiting': sum(
            1 for o in obs if o.status.value == 'WAITING'),
        'observations_finished': sum(
            1 for o in obs if o.status.value == 'FINISHED'),
        'scheduler_observation_queue': len(sim.scheduler.observation_queue),
    }


def build(cfg):
    env = simpy.Environment()
    sim = Simulation(env=env, config=cfg, instrument=Telescope,
                     planning_model=BatchPlanning('batch'),
                     planning_algorithm='batch',
                     scheduling=QueueProcessing(), delay=None, timestamp=0)
    rows = []

    def probe():
        # registered before Simulation.start(): runs first in every timestep
        while True:
            rows.append(truth(sim))
            yield env.timeout(1)

    env.process(probe())
    return sim, rows


def compare(table, rows, upto, label):
    if len(table) != upto:
        return ('%s: table has %d rows but %d timesteps (0..%d) were '
                'simulated; exactly one row per timestep is required'
                % (label, len(table), upto, upto - 1))
    for t in range(upto):
        for c in COLS:
            got, want = table[c].iloc[t], rows[t][c]
            if float(got) != float(want):
                return ('%s: row %d column %s reports %s but the true state '
                        'at the beginning of timestep %d is %s'
                        % (label, t, c, got, t, want))
    return None


def main():
    d = tempfile.mkdtemp(prefix='c12demo1_')
    try:
        cfg = write_config(d)
        # leg 1 + leg 2
        sim, rows = build(cfg)
        sim.start(runtime=6)
        err = compare(sim.monitor.df, rows, 6, 'after start(runtime=6)')
        if err is None:
            sim.resume(until=14)
            err = compare(sim.monitor.df, rows, 14, 'after resume(until=14)')
        if err is None:
            sim.resume(until=19)
            err = compare(sim.monitor.df, rows, 19, 'after resume(until=19)')
        # reference: a single uninterrupted run
        if err is None:
            sim2, rows2 = build(cfg)
            df2, _ = sim2.start()
            err = compare(df2, rows2, int(sim2.env.now), 'after start()')
    finally:
        shutil.rmtree(d, ignore_errors=True)
    if err:
        print('FAIL: ' + err)
        return 1
    print('PASS')
    return 0


if __name__ == '__main__':
    sys.exit(main())
