"""C05 demo 3: a transient shortage of machines only postpones an observation.

Batch pairing (BatchPlanning + BatchProcessing): the workflow of observation
'first' has provisioned every machine of the 4-machine cluster when observation
'second' (ingest demand 2) is due at t=8.  'second' has to wait until the
workflow releases its machines and then run to completion - no exception, no
dead-lock, finished within the serial bound.

usage: python demo3.py <path-to-tree>
"""
import sys, os, json, math, shutil, tempfile, logging

TREE = os.path.abspath(sys.argv[1])
sys.path.insert(0, TREE)
logging.disable(logging.CRITICAL)

import simpy
from topsim.core.simulation import Simulation
from topsim.user.telescope import Telescope
from topsim.user.plan.batch_planning import BatchPlanning
from topsim.user.schedule.batch_allocation import BatchProcessing

STEP_LATENCY = 4


def workflow(comps):
    nodes = [{"id": i, "comp": c} for i, c in enumerate(comps)]
    edges = [{"source": i, "target": i + 1, "transfer_data": 0}
             for i in range(len(comps) - 1)]
    return {"graph": {"directed": True, "multigraph": False, "graph": {},
                      "nodes": nodes, "edges": edges}}


def build(tmp):
    comps = [30, 30, 30]
    with open(os.path.join(tmp, 'wf.json'), 'w') as fp:
        json.dump(workflow(comps), fp)
    machines = {f"m{i}": {"flops": 10, "compute_bandwidth": 5}
                for i in range(4)}
    observations = [
        {"name": "first", "start": 0, "duration": 5, "instrument_demand": 10,
         "data_product_rate": 4},
        {"name": "second", "start": 8, "duration": 5, "instrument_demand": 10,
         "data_product_rate": 4},
    ]
    cfg = {
        "instrument": {"telescope": {
            "total_arrays": 36, "max_ingest_resources": 2,
            "pipelines": {
                "first": {"workflow": "wf.json", "ingest_demand": 2},
                "second": {"workflow": "wf.json", "ingest_demand": 2}},
            "observations": observations}},
        "cluster": {"header": {}, "system": {
            "resources": machines, "system_bandwidth": 1.0}},
        "buffer": {"hot": {"capacity": 500, "max_ingest_rate": 10},
                   "cold": {"capacity": 500, "max_data_rate": 5}},
        "timestep": "seconds"}
    path = os.path.join(tmp, 'cfg.json')
    with open(path, 'w') as fp:
        json.dump(cfg, fp)
    bound = max(o["start"] for o in observations)
    steps = 0
    for o in observations:
        size = o["duration"] * o["data_product_rate"]
        bound += o["duration"] + 2 * math.ceil(size / 5)
        bound += sum(math.ceil(c / 10) for c in comps)
        steps += 3 + 2 * len(comps) - 1
    bound += STEP_LATENCY * steps
    return path, bound, 2 * len(comps)


def main():
    tmp = tempfile.mkdtemp(prefix='c05demo3_')
    try:
        path, bound, ntotal = build(tmp)
        env = simpy.Environment()
        sim = Simulation(env=env, config=path, instrument=Telescope,
                         planning_model=BatchPlanning('batch'),
                         planning_algorithm='batch',
                         scheduling=BatchProcessing(
                             max_resource_partitions=1,
                             min_resources_per_workflow=1),
                         delay=None, timestamp=0)
        try:
            sim.start(runtime=bound + 1)
            finished = sim.is_finished()
        except Exception as exc:  # noqa
            print(f"FAIL: simulation raised {type(exc).__name__}: {exc} at "
                  f"t={env.now}; required: the second observation is only "
                  f"postponed and the run completes without raising")
            return 1
        tasks = sim.cluster.finished_task_time_data().T
        ndone = len([t for t in tasks.index if 'ingest' not in t])
        second = [o for o in sim.instrument.observations
                  if o.name == 'second'][0]
        if not finished or ndone != ntotal:
            print(f"FAIL: not finished by the serial bound t={bound}: tasks "
                  f"done {ndone}/{ntotal}, second observation status "
                  f"{second.status.value} (actual start {second.ast}); "
                  f"required: completion within the bound")
            return 1
        if second.ast is None or second.ast < 8:
            print(f"FAIL: second observation started at {second.ast}; "
                  f"required: not before its planned start 8")
            return 1
        print(f"PASS (second observation postponed to t={second.ast}, all "
              f"{ndone} tasks finished, bound {bound})")
        return 0
    finally:
        shutil.rmtree(tmp, ignore_errors=True)


if __name__ == '__main__':
    sys.exit(main())
