"""C05 demo 1: a late observation whose workflow hops between machines with a
non-zero edge transfer must still finish within the serial bound.

usage: python demo1.py <path-to-tree>
"""
import sys, os, json, math, shutil, tempfile, logging

TREE = os.path.abspath(sys.argv[1])
sys.path.insert(0, TREE)
logging.disable(logging.CRITICAL)

import simpy
from topsim.core.simulation import Simulation
from topsim.user.telescope import Telescope
from topsim.user.plan.batch_planning import BatchPlanning
from topsim.user.schedule.queue_allocation import QueueProcessing

STEP_LATENCY = 4  # constant per-step latency allowed by the serial bound


def workflow(comps, edges, transfer):
    nodes = [{"id": i, "comp": c} for i, c in enumerate(comps)]
    return {"graph": {"directed": True, "multigraph": False, "graph": {},
                      "nodes": nodes,
                      "edges": [{"source": a, "target": b,
                                 "transfer_data": transfer} for a, b in edges]}}


def build(tmp):
    comps, edges, transfer = [30, 30, 30, 30], [(0, 1), (1, 2), (2, 3)], 10
    with open(os.path.join(tmp, 'wf.json'), 'w') as fp:
        json.dump(workflow(comps, edges, transfer), fp)
    machines = {f"m{i}": {"flops": 10, "compute_bandwidth": 5}
                for i in range(3)}
    observations = [
        {"name": "early", "start": 0, "duration": 4, "instrument_demand": 4,
         "data_product_rate": 3},
        {"name": "late", "start": 300, "duration": 4, "instrument_demand": 4,
         "data_product_rate": 3},
    ]
    cfg = {
        "instrument": {"telescope": {
            "total_arrays": 8, "max_ingest_resources": 1,
            "pipelines": {
                "early": {"workflow": "wf.json", "ingest_demand": 1},
                "late": {"workflow": "wf.json", "ingest_demand": 1}},
            "observations": observations}},
        "cluster": {"header": {}, "system": {
            "resources": machines, "system_bandwidth": 1.0}},
        "buffer": {"hot": {"capacity": 100, "max_ingest_rate": 10},
                   "cold": {"capacity": 100, "max_data_rate": 5}},
        "timestep": "seconds"}
    path = os.path.join(tmp, 'cfg.json')
    with open(path, 'w') as fp:
        json.dump(cfg, fp)
    # serial bound
    min_cpu = min(m["flops"] for m in machines.values())
    min_bw = min(m["compute_bandwidth"] for m in machines.values())
    bound = max(o["start"] for o in observations)
    steps = 0
    for o in observations:
        size = o["duration"] * o["data_product_rate"]
        bound += o["duration"]
        bound += 2 * math.ceil(size / 5)            # tier transfers
        bound += sum(math.ceil(c / min_cpu) for c in comps)
        bound += len(edges) * math.ceil(transfer / min_bw)
        steps += 3 + len(comps) + len(edges)
    bound += STEP_LATENCY * steps
    return path, bound


def main():
    tmp = tempfile.mkdtemp(prefix='c05demo1_')
    try:
        path, bound = build(tmp)
        env = simpy.Environment()
        sim = Simulation(env=env, config=path, instrument=Telescope,
                         planning_model=BatchPlanning('batch'),
                         planning_algorithm='batch',
                         scheduling=QueueProcessing(), delay=None, timestamp=0)
        try:
            sim.start(runtime=bound + 1)
            finished = sim.is_finished()
        except Exception as exc:  # noqa
            print(f"FAIL: simulation raised {type(exc).__name__}: {exc}; "
                  f"required: run to completion without raising")
            return 1
        tasks = sim.cluster.finished_task_time_data().T
        last = max(tasks['aft']) if len(tasks) else None
        ntasks = len([t for t in tasks.index if 'ingest' not in t])
        if not finished or ntasks != 8:
            print(f"FAIL: not finished by serial bound t={bound} "
                  f"(finished workflow tasks {ntasks}/8, last task finish "
                  f"{last}); required: completion within the bound")
            return 1
        print(f"PASS (last task finished at {last}, serial bound {bound})")
        return 0
    finally:
        shutil.rmtree(tmp, ignore_errors=True)


if __name__ == '__main__':
    sys.exit(main())
