"""C05 demo 2: a hot buffer filled beyond its tiering threshold parks the newest
observation in the cold tier and fetches it back later; the round trip must
only postpone the work, the simulation must still run to completion.

Three overlapping observations a (15), b (42), c (10) on a hot buffer of 100:
when c is stored the hot tier is 67% full (> 60%), c is moved to the cold tier
at 4 units/step (4+4+2: the last slice is smaller than the rate), and fetched
back once a's workflow has finished.

usage: python demo2.py <path-to-tree>
"""
import sys, os, io, json, math, shutil, tempfile, logging, contextlib

TREE = os.path.abspath(sys.argv[1])
sys.path.insert(0, TREE)
logging.disable(logging.CRITICAL)

import simpy
from topsim.core.simulation import Simulation
from topsim.user.telescope import Telescope
from topsim.user.plan.batch_planning import BatchPlanning
from topsim.user.schedule.queue_allocation import QueueProcessing

STEP_LATENCY = 4
COLD_RATE = 4


def workflow(comps):
    nodes = [{"id": i, "comp": c} for i, c in enumerate(comps)]
    edges = [{"source": i, "target": i + 1, "transfer_data": 0}
             for i in range(len(comps) - 1)]
    return {"graph": {"directed": True, "multigraph": False, "graph": {},
                      "nodes": nodes, "edges": edges}}


def build(tmp):
    wfs = {"a": [160], "b": [400], "c": [30, 30]}
    for name, comps in wfs.items():
        with open(os.path.join(tmp, f'w{name}.json'), 'w') as fp:
            json.dump(workflow(comps), fp)
    machines = {f"m{i}": {"flops": 10, "compute_bandwidth": 5}
                for i in range(6)}
    observations = [
        {"name": "a", "start": 0, "duration": 3, "instrument_demand": 1,
         "data_product_rate": 5},
        {"name": "b", "start": 0, "duration": 6, "instrument_demand": 1,
         "data_product_rate": 7},
        {"name": "c", "start": 7, "duration": 5, "instrument_demand": 1,
         "data_product_rate": 2},
    ]
    cfg = {
        "instrument": {"telescope": {
            "total_arrays": 36, "max_ingest_resources": 3,
            "pipelines": {n: {"workflow": f"w{n}.json", "ingest_demand": 1}
                          for n in wfs},
            "observations": observations}},
        "cluster": {"header": {}, "system": {
            "resources": machines, "system_bandwidth": 1.0}},
        "buffer": {"hot": {"capacity": 100, "max_ingest_rate": 10},
                   "cold": {"capacity": 100, "max_data_rate": COLD_RATE}},
        "timestep": "seconds"}
    path = os.path.join(tmp, 'cfg.json')
    with open(path, 'w') as fp:
        json.dump(cfg, fp)
    bound = max(o["start"] for o in observations)
    steps = 0
    for o in observations:
        comps = wfs[o["name"]]
        size = o["duration"] * o["data_product_rate"]
        bound += o["duration"] + 2 * math.ceil(size / COLD_RATE)
        bound += sum(math.ceil(c / 10) for c in comps)
        steps += 3 + 2 * len(comps) - 1
    bound += STEP_LATENCY * steps
    return path, bound, sum(len(v) for v in wfs.values())


def main():
    tmp = tempfile.mkdtemp(prefix='c05demo2_')
    try:
        path, bound, ntotal = build(tmp)
        env = simpy.Environment()
        sim = Simulation(env=env, config=path, instrument=Telescope,
                         planning_model=BatchPlanning('batch'),
                         planning_algorithm='batch',
                         scheduling=QueueProcessing(), delay=None, timestamp=0)
        try:
            with contextlib.redirect_stdout(io.StringIO()):
                sim.start(runtime=bound + 1)
            finished = sim.is_finished()
        except Exception as exc:  # noqa
            print(f"FAIL: simulation raised {type(exc).__name__}: {exc}; "
                  f"required: run to completion without raising")
            return 1
        events = sim.monitor.events
        moves = events[(events['observation'] == 'c')
                       & (events['resource'] == 'transfer')
                       & (events['event'] == 'stopped')]
        if len(moves) != 2:
            print(f"FAIL: scenario did not exercise the hot->cold->hot round "
                  f"trip of observation c (completed moves: {len(moves)}); "
                  f"required: 2")
            return 1
        tasks = sim.cluster.finished_task_time_data().T
        ndone = len([t for t in tasks.index if 'ingest' not in t])
        hot, cold = sim.buffer.hot[0], sim.buffer.cold[0]
        if not finished or ndone != ntotal:
            print(f"FAIL: simulation not finished by the serial bound "
                  f"t={bound}: tasks done {ndone}/{ntotal}, hot buffer free "
                  f"{hot.current_capacity}/{hot.total_capacity}, cold free "
                  f"{cold.current_capacity}/{cold.total_capacity}, "
                  f"buffer.is_empty()={sim.buffer.is_empty()}, "
                  f"scheduler idle={sim.scheduler.is_idle()}; required: "
                  f"every observation processed, buffers drained and "
                  f"is_finished() by the bound")
            return 1
        print(f"PASS (round trip done, all {ndone} tasks finished, buffers "
              f"drained, bound {bound})")
        return 0
    finally:
        shutil.rmtree(tmp, ignore_errors=True)


if __name__ == '__main__':
    sys.exit(main())
