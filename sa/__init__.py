"""Static analysis of topsim (stdlib ast only)."""
