"""Checker self-test (thorough tier): mutants must be reported, twins must stay silent.

Scratch copies of the CURRENT /repo/topsim are made under a mkdtemp directory outside
/repo and /verif and removed afterwards.  The outcome is recorded in the evidence and
printed as MUTANT-KILLED / MUTANT-MISSED / TWIN-SILENT / TWIN-ALARM / SKIPPED; it never
produces a VIOLATION line (that verdict is about /repo only).
"""
import glob
import json
import os
import shutil
import subprocess
import sys
import tempfile
from concurrent.futures import ThreadPoolExecutor
from pathlib import Path

VERIF = Path(__file__).resolve().parent.parent


def _run_case(args):
    repo_root, prop, case, workdir = args
    tmp = tempfile.mkdtemp(prefix='st_', dir=workdir)
    try:
        shutil.copytree(os.path.join(repo_root, 'topsim'), os.path.join(tmp, 'topsim'),
                        ignore=shutil.ignore_patterns('__pycache__'))
        if 'patch' in case:
            r = subprocess.run(['git', 'apply', '--directory=' + os.path.relpath(tmp, tmp), case['patch']],
                               cwd=tmp, capture_output=True, text=True)
            if r.returncode != 0:
                # not a git repo: use patch-like application through git apply --unsafe-paths
                r = subprocess.run(['git', 'apply', '--unsafe-paths', '--directory=' + tmp, case['patch']],
                                   capture_output=True, text=True)
            if r.returncode != 0:
                return case, 'SKIPPED', 'patch does not apply to the current tree'
        else:
            for f, old, new in case['edits']:
                p = os.path.join(tmp, f)
                if not os.path.exists(p):
                    return case, 'SKIPPED', 'file %s missing' % f
                s = open(p).read()
                if s.count(old) != 1:
                    return case, 'SKIPPED', 'anchor text of the edit matches %d times in %s' % (s.count(old), f)
                s = s.replace(old, new)
                try:
                    compile(s, p, 'exec')
                except SyntaxError as e:
                    return case, 'SKIPPED', 'edit does not compile: %s' % e
                open(p, 'w').write(s)
        env = dict(os.environ, SA_NO_SELFTEST='1')
        r = subprocess.run([sys.executable, '-B', '-m', 'sa.cli', prop, '--repo', tmp, '--tier', 'quick',
                            '--no-evidence'], cwd=str(VERIF), capture_output=True, text=True, env=env)
        rule = ''
        for l in r.stdout.splitlines():
            if l.strip().startswith('rule '):
                rule = l.strip()[:220].replace(tmp + '/', '')
                break
        if r.returncode == 2:
            return case, 'ERROR', (r.stdout.strip().splitlines() or ['?'])[-1][:200]
        fired = r.returncode == 1
        if case['kind'] == 'mutant':
            return case, 'MUTANT-KILLED' if fired else 'MUTANT-MISSED', rule
        return case, 'TWIN-ALARM' if fired else 'TWIN-SILENT', rule
    finally:
        shutil.rmtree(tmp, ignore_errors=True)


def seeded_cases(prop):
    out = []
    for meta in sorted(glob.glob(str(VERIF / 'seeded' / '*' / 'meta.json'))):
        try:
            m = json.load(open(meta))
        except Exception:
            continue
        d = os.path.dirname(meta)
        benign = 'benign' in os.path.basename(d) or 'refactoring' in m.get('kind', '')
        det = m.get('detected_by', {})
        if benign:
            if m.get('property') == prop:
                out.append({'prop': prop, 'kind': 'twin', 'name': 'seeded ' + os.path.basename(d),
                            'patch': os.path.join(d, 'patch.diff')})
        elif prop in det and det[prop].get('exit') == 1:
            out.append({'prop': prop, 'kind': 'mutant', 'name': 'seeded ' + os.path.basename(d),
                        'patch': os.path.join(d, 'patch.diff')})
    return out


def run(prop, repo_root, out=print, jobs=16):
    from .selftest_catalogue import CASES
    cases = [c for c in CASES if c['prop'] == prop] + seeded_cases(prop)
    workdir = tempfile.mkdtemp(prefix='topsim_selftest_')
    results = []
    try:
        with ThreadPoolExecutor(max_workers=jobs) as ex:
            for case, verdict, detail in ex.map(_run_case, [(repo_root, prop, c, workdir) for c in cases]):
                results.append({'kind': case['kind'], 'name': case['name'], 'verdict': verdict, 'detail': detail})
                out('%s %s: %s%s' % (verdict, prop, case['name'], (' -- ' + detail) if detail else ''))
    finally:
        shutil.rmtree(workdir, ignore_errors=True)
    tally = {}
    for r in results:
        tally[r['verdict']] = tally.get(r['verdict'], 0) + 1
    return {'cases': results, 'tally': tally}
