"""Tiny concrete evaluator for configuration-ladder expressions (finite worlds)."""
import ast


class Unknown(Exception):
    pass


_TYPES = {'int': int, 'str': str, 'float': float, 'bool': bool}


def ceval(e, env):
    """Evaluate e with env: dict from source text of a sub-expression (e.g.
    'self.timestep_unit') or local name -> python value.  Raises Unknown."""
    try:
        key = ast.unparse(e)
    except Exception:
        key = None
    if key in env:
        return env[key]
    if isinstance(e, ast.Constant):
        return e.value
    if isinstance(e, ast.Name):
        if e.id in _TYPES:
            return _TYPES[e.id]
        raise Unknown(e.id)
    if isinstance(e, ast.UnaryOp):
        v = ceval(e.operand, env)
        if isinstance(e.op, ast.Not):
            return not v
        if isinstance(e.op, ast.USub):
            return -v
        raise Unknown('unary')
    if isinstance(e, ast.BoolOp):
        if isinstance(e.op, ast.And):
            last = True
            for v in e.values:
                last = ceval(v, env)
                if not last:
                    return last
            return last
        last = False
        unknown = None
        for v in e.values:
            try:
                last = ceval(v, env)
            except Unknown as u:
                unknown = u
                continue
            if last:
                return last
        if unknown:
            raise unknown
        return last
    if isinstance(e, ast.Compare):
        left = ceval(e.left, env)
        for op, r in zip(e.ops, e.comparators):
            right = ceval(r, env)
            try:
                if isinstance(op, ast.Eq):
                    ok = left == right
                elif isinstance(op, ast.NotEq):
                    ok = left != right
                elif isinstance(op, ast.Is):
                    ok = left is right or (isinstance(left, (str, int)) and left == right
                                           and type(left) is type(right))
                elif isinstance(op, ast.IsNot):
                    ok = not (left is right or (isinstance(left, (str, int)) and left == right
                                                and type(left) is type(right)))
                elif isinstance(op, ast.In):
                    ok = left in right
                elif isinstance(op, ast.NotIn):
                    ok = left not in right
                elif isinstance(op, ast.Lt):
                    ok = left < right
                elif isinstance(op, ast.LtE):
                    ok = left <= right
                elif isinstance(op, ast.Gt):
                    ok = left > right
                elif isinstance(op, ast.GtE):
                    ok = left >= right
                else:
                    raise Unknown('cmp')
            except TypeError:
                raise Unknown('type')
            if not ok:
                return False
            left = right
        return True
    if isinstance(e, (ast.Tuple, ast.List, ast.Set)):
        return tuple(ceval(x, env) for x in e.elts)
    if isinstance(e, ast.Dict):
        return {ceval(k, env): ceval(v, env) for k, v in zip(e.keys, e.values)}
    if isinstance(e, ast.IfExp):
        return ceval(e.body, env) if ceval(e.test, env) else ceval(e.orelse, env)
    if isinstance(e, ast.Subscript):
        return_v = ceval(e.value, env)
        try:
            return return_v[ceval(e.slice, env)]
        except (KeyError, IndexError, TypeError):
            raise Unknown('subscript')
    if isinstance(e, ast.BinOp):
        a, b = ceval(e.left, env), ceval(e.right, env)
        try:
            if isinstance(e.op, ast.Add):
                return a + b
            if isinstance(e.op, ast.Sub):
                return a - b
            if isinstance(e.op, ast.Mult):
                return a * b
            if isinstance(e.op, ast.Div):
                return a / b
            if isinstance(e.op, ast.FloorDiv):
                return a // b
        except Exception:
            raise Unknown('arith')
        raise Unknown('binop')
    if isinstance(e, ast.Call):
        fn = e.func
        if isinstance(fn, ast.Name) and fn.id == 'isinstance' and len(e.args) == 2:
            v = ceval(e.args[0], env)
            t = ceval(e.args[1], env)
            return isinstance(v, t)
        if isinstance(fn, ast.Name) and fn.id == 'type' and len(e.args) == 1:
            return type(ceval(e.args[0], env))
        if isinstance(fn, ast.Name) and fn.id in ('int', 'str', 'float') and len(e.args) == 1:
            try:
                return _TYPES[fn.id](ceval(e.args[0], env))
            except (ValueError, TypeError):
                raise Unknown('conv')
        if isinstance(fn, ast.Attribute) and fn.attr == 'get' and 1 <= len(e.args) <= 2:
            d = ceval(fn.value, env)
            if isinstance(d, dict):
                k = ceval(e.args[0], env)
                dflt = ceval(e.args[1], env) if len(e.args) == 2 else None
                try:
                    return d.get(k, dflt)
                except TypeError:
                    raise Unknown('get')
        if isinstance(fn, ast.Attribute) and fn.attr in ('items', 'keys', 'values') and not e.args and not e.keywords:
            d = ceval(fn.value, env)
            if isinstance(d, dict):
                return tuple(getattr(d, fn.attr)())
        if isinstance(fn, ast.Name) and fn.id in (env.get('__funcs__') or {}) and not any(
                isinstance(a, ast.Starred) for a in e.args) and all(k.arg for k in e.keywords):
            # a module-level helper of the package, interpreted on concrete arguments
            node, consts = env['__funcs__'][fn.id]
            params = [a.arg for a in node.args.args]
            if node.args.vararg or node.args.kwarg or node.args.kwonlyargs or len(e.args) > len(params):
                raise Unknown('call')
            loc = {'__funcs__': env['__funcs__'], '__depth__': env.get('__depth__', 0) + 1}
            if loc['__depth__'] > 4:
                raise Unknown('depth')
            loc.update(consts)
            for p_, a_ in zip(params, e.args):
                loc[p_] = ceval(a_, env)
            for k in e.keywords:
                if k.arg not in params or k.arg in loc and k.arg in params[:len(e.args)]:
                    raise Unknown('call')
                loc[k.arg] = ceval(k.value, env)
            dflt = dict(zip(params[len(params) - len(node.args.defaults):], node.args.defaults))
            for p_ in params:
                if p_ not in loc:
                    if p_ not in dflt:
                        raise Unknown('call')
                    loc[p_] = ceval(dflt[p_], {})
            return cexec(node.body, loc)
        if isinstance(fn, ast.Attribute) and fn.attr in ('lower', 'upper', 'strip') and not e.args:
            v = ceval(fn.value, env)
            if isinstance(v, str):
                return getattr(v, fn.attr)()
        raise Unknown('call')
    raise Unknown(type(e).__name__)


class _Return(Exception):
    def __init__(self, value):
        self.value = value


def cexec(body, env):
    """Interpret a straight-forward function body (assignments to locals, if, for over a concrete
    sequence, return; logging and docstrings ignored) on concrete values.  Returns the returned
    value (None when the body falls off its end); raises Unknown for anything else."""
    try:
        _block(body, env, [0])
    except _Return as r:
        return r.value
    return None


def _assign(t, v, env):
    if isinstance(t, ast.Name):
        env[t.id] = v
    elif isinstance(t, (ast.Tuple, ast.List)) and isinstance(v, (tuple, list)) and len(v) == len(t.elts):
        for x, y in zip(t.elts, v):
            _assign(x, y, env)
    else:
        raise Unknown('target')


def _block(stmts, env, fuel):
    for st in stmts:
        fuel[0] += 1
        if fuel[0] > 2000:
            raise Unknown('fuel')
        if isinstance(st, ast.Pass):
            continue
        if isinstance(st, ast.Expr):
            v = st.value
            if isinstance(v, ast.Constant):
                continue
            if isinstance(v, ast.Call) and isinstance(v.func, ast.Attribute) and v.func.attr in (
                    'debug', 'info', 'warning', 'error', 'critical', 'exception', 'log'):
                continue
            raise Unknown('expr')
        if isinstance(st, ast.Return):
            raise _Return(ceval(st.value, env) if st.value is not None else None)
        if isinstance(st, ast.Assign) and len(st.targets) == 1:
            _assign(st.targets[0], ceval(st.value, env), env)
            continue
        if isinstance(st, ast.AnnAssign) and st.value is not None:
            _assign(st.target, ceval(st.value, env), env)
            continue
        if isinstance(st, ast.If):
            _block(st.body if ceval(st.test, env) else st.orelse, env, fuel)
            continue
        if isinstance(st, ast.For) and not st.orelse:
            seq = ceval(st.iter, env)
            if isinstance(seq, dict):
                seq = tuple(seq)
            if not isinstance(seq, (tuple, list)):
                raise Unknown('iter')
            for x in seq:
                _assign(st.target, x, env)
                _block(st.body, env, fuel)       # (break / continue are not supported: Unknown below)
            continue
        raise Unknown(type(st).__name__)


def package_helpers(repo):
    """{name: (FunctionDef, literal module constants)} for module-level functions of the package (unique names)"""
    out, dup = {}, set()
    for f in repo.all_functions(include_inlined=True):
        if f.cls is not None:
            continue
        if f.name in out:
            dup.add(f.name)
            continue
        consts = {}
        for st in f.module.tree.body:
            if isinstance(st, ast.Assign) and len(st.targets) == 1 and isinstance(st.targets[0], ast.Name):
                try:
                    consts[st.targets[0].id] = ceval(st.value, {})
                except Unknown:
                    pass
        out[f.name] = (f.node, consts)
    for k in dup:
        out.pop(k, None)
    return out
