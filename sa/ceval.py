"""Tiny concrete evaluator for configuration-ladder expressions (finite worlds)."""
import ast


class Unknown(Exception):
    pass


_TYPES = {'int': int, 'str': str, 'float': float, 'bool': bool}


def ceval(e, env):
    """Evaluate e with env: dict from source text of a sub-expression (e.g.
    'self.timestep_unit') or local name -> python value.  Raises Unknown."""
    try:
        key = ast.unparse(e)
    except Exception:
        key = None
    if key in env:
        return env[key]
    if isinstance(e, ast.Constant):
        return e.value
    if isinstance(e, ast.Name):
        if e.id in _TYPES:
            return _TYPES[e.id]
        raise Unknown(e.id)
    if isinstance(e, ast.UnaryOp):
        v = ceval(e.operand, env)
        if isinstance(e.op, ast.Not):
            return not v
        if isinstance(e.op, ast.USub):
            return -v
        raise Unknown('unary')
    if isinstance(e, ast.BoolOp):
        if isinstance(e.op, ast.And):
            last = True
            for v in e.values:
                last = ceval(v, env)
                if not last:
                    return last
            return last
        last = False
        unknown = None
        for v in e.values:
            try:
                last = ceval(v, env)
            except Unknown as u:
                unknown = u
                continue
            if last:
                return last
        if unknown:
            raise unknown
        return last
    if isinstance(e, ast.Compare):
        left = ceval(e.left, env)
        for op, r in zip(e.ops, e.comparators):
            right = ceval(r, env)
            try:
                if isinstance(op, ast.Eq):
                    ok = left == right
                elif isinstance(op, ast.NotEq):
                    ok = left != right
                elif isinstance(op, ast.Is):
                    ok = left is right or (isinstance(left, (str, int)) and left == right
                                           and type(left) is type(right))
                elif isinstance(op, ast.IsNot):
                    ok = not (left is right or (isinstance(left, (str, int)) and left == right
                                                and type(left) is type(right)))
                elif isinstance(op, ast.In):
                    ok = left in right
                elif isinstance(op, ast.NotIn):
                    ok = left not in right
                elif isinstance(op, ast.Lt):
                    ok = left < right
                elif isinstance(op, ast.LtE):
                    ok = left <= right
                elif isinstance(op, ast.Gt):
                    ok = left > right
                elif isinstance(op, ast.GtE):
                    ok = left >= right
                else:
                    raise Unknown('cmp')
            except TypeError:
                raise Unknown('type')
            if not ok:
                return False
            left = right
        return True
    if isinstance(e, (ast.Tuple, ast.List, ast.Set)):
        return tuple(ceval(x, env) for x in e.elts)
    if isinstance(e, ast.Dict):
        return {ceval(k, env): ceval(v, env) for k, v in zip(e.keys, e.values)}
    if isinstance(e, ast.IfExp):
        return ceval(e.body, env) if ceval(e.test, env) else ceval(e.orelse, env)
    if isinstance(e, ast.Subscript):
        return_v = ceval(e.value, env)
        try:
            return return_v[ceval(e.slice, env)]
        except (KeyError, IndexError, TypeError):
            raise Unknown('subscript')
    if isinstance(e, ast.BinOp):
        a, b = ceval(e.left, env), ceval(e.right, env)
        try:
            if isinstance(e.op, ast.Add):
                return a + b
            if isinstance(e.op, ast.Sub):
                return a - b
            if isinstance(e.op, ast.Mult):
                return a * b
            if isinstance(e.op, ast.Div):
                return a / b
            if isinstance(e.op, ast.FloorDiv):
                return a // b
        except Exception:
            raise Unknown('arith')
        raise Unknown('binop')
    if isinstance(e, ast.Call):
        fn = e.func
        if isinstance(fn, ast.Name) and fn.id == 'isinstance' and len(e.args) == 2:
            v = ceval(e.args[0], env)
            t = ceval(e.args[1], env)
            return isinstance(v, t)
        if isinstance(fn, ast.Name) and fn.id == 'type' and len(e.args) == 1:
            return type(ceval(e.args[0], env))
        if isinstance(fn, ast.Name) and fn.id in ('int', 'str', 'float') and len(e.args) == 1:
            try:
                return _TYPES[fn.id](ceval(e.args[0], env))
            except (ValueError, TypeError):
                raise Unknown('conv')
        if isinstance(fn, ast.Attribute) and fn.attr == 'get' and 1 <= len(e.args) <= 2:
            d = ceval(fn.value, env)
            if isinstance(d, dict):
                k = ceval(e.args[0], env)
                dflt = ceval(e.args[1], env) if len(e.args) == 2 else None
                try:
                    return d.get(k, dflt)
                except TypeError:
                    raise Unknown('get')
        if isinstance(fn, ast.Attribute) and fn.attr in ('lower', 'upper', 'strip') and not e.args:
            v = ceval(fn.value, env)
            if isinstance(v, str):
                return getattr(v, fn.attr)()
        raise Unknown('call')
    raise Unknown(type(e).__name__)
