"""E6 -- boolean skeletons: a predicate function as a set of outcome paths,
each a conjunction of canonical literals."""
import ast
import re

from .norm import Lit
from .paths import Frame, bind_args, function_paths

MAX_ALTS = 4000


class Outcome:
    __slots__ = ('lits', 'result', 'path', 'node')

    def __init__(self, lits, result, path, node):
        self.lits = lits        # list of Lit (conjunction)
        self.result = result    # 'T' 'F' 'raise' 'none' or ('val', canon)
        self.path = path
        self.node = node

    def __repr__(self):
        return '<%s if %s>' % (self.result, ' & '.join(map(repr, self.lits)) or 'true')


def _mentions(atom, var):
    return re.search(r'(?<![\w#.])%s(?![\w])' % re.escape(var), atom) is not None


def outcomes(logic, func, frame=None, boolean=True, depth=2):
    """Outcome paths of `func`.  With boolean=True a returned expression is
    split into its true and false cases."""
    canon = logic.canon
    frame = frame or Frame(func)
    res = []
    for p in function_paths(func, frame):
        alts = [[]]
        loops = []      # (loop node, var canon strings, iter canon, start index per alt)
        dead = False
        last_ret = None
        cenv = {}
        for e in p.events:
            if e.kind == 'stmt' and e.frame is frame:
                _track_consts(e.node, cenv)
            if e.kind == 'test':
                parts = logic.dnf(_subst(e.node, cenv), e.frame, e.pol, depth=depth)
                alts = [a + q for a in alts for q in parts]
                if len(alts) > MAX_ALTS:
                    alts = alts[:MAX_ALTS]
            elif e.kind in ('for', 'for0'):
                it = canon.c(e.node.iter, e.frame)
                sing = elem_singletons(canon, e.node.iter, e.frame)
                forms = None
                if not sing and isinstance(e.node.target, (ast.Tuple, ast.List)):
                    forms = elem_forms(canon, e.node.iter, e.frame, e.node.target)
                if e.kind == 'for0':
                    if sing or forms:
                        dead = True      # a collection made of the simulation's singletons is not empty
                        break
                    alts = [a + [Lit('empty(%s)' % it, True)] for a in alts]
                else:
                    from .norm import SINGLETONS as _SG
                    vs = [v for v in (canon.c(n, e.frame) for n in ast.walk(e.node.target)
                                      if isinstance(n, ast.Name)) if v not in _SG]
                    loops.append((e.node, vs, ('<forms>', forms) if forms else (
                        it if not sing else ('<each>', sorted(sing))), [len(a) for a in alts]))
            elif e.kind == 'back' and loops and loops[-1][0] is e.node:
                _, vs, it, starts = loops.pop()
                alts = [_quantify(a, s, vs, it, 'forall') for a, s in zip(alts, _pad(starts, alts))]
            elif e.kind == 'stmt' and isinstance(e.node, ast.Return):
                last_ret = e.node
        # literals of loops left open by an early exit are existential
        while loops:
            _, vs, it, starts = loops.pop()
            alts = [_quantify(a, s, vs, it, 'exists') for a, s in zip(alts, _pad(starts, alts))]
        if dead:
            continue
        if p.exit == 'raise':
            for a in alts:
                res.append(Outcome(a, 'raise', p, None))
        elif p.exit in ('fall', 'cycle') or last_ret is None or last_ret.value is None:
            for a in alts:
                res.append(Outcome(a, 'none' if not boolean else 'F', p, last_ret))
        else:
            v = _subst(last_ret.value, cenv)
            if isinstance(v, ast.Constant) and isinstance(v.value, bool):
                for a in alts:
                    res.append(Outcome(a, 'T' if v.value else 'F', p, last_ret))
            elif boolean:
                for pol, r in ((True, 'T'), (False, 'F')):
                    for q in logic.dnf(v, frame, pol, depth=depth):
                        for a in alts:
                            res.append(Outcome(a + q, r, p, last_ret))
            else:
                for a in alts:
                    res.append(Outcome(a, ('val', canon.c(v, frame)), p, last_ret))
    return [o for o in res if not contradictory(o.lits)]


def _mentions_loc(expr, written):
    """does expr read one of the locations (unparsed text) in `written`?"""
    for x in ast.walk(expr):
        if isinstance(x, (ast.Name, ast.Attribute, ast.Subscript)) and ast.unparse(x) in written:
            return True
    return False


def _track_consts(node, cenv):
    """path-sensitive propagation for boolean flag locals: constants, and boolean expressions
    (comparisons, and/or/not, one predicate call) whose operands are not written before the
    flag is read"""
    if isinstance(node, ast.Assign):
        written = set()
        for t in node.targets:
            for x in ast.walk(t):
                if isinstance(x, ast.Name):
                    cenv.pop(x.id, None)
            for x in (t.elts if isinstance(t, (ast.Tuple, ast.List)) else [t]):
                written.add(ast.unparse(x))
        if len(node.targets) == 1 and isinstance(node.targets[0], ast.Name):
            v = node.value
            nm = node.targets[0].id
            if isinstance(v, ast.Constant) and isinstance(v.value, bool):
                cenv[nm] = v
            elif isinstance(v, (ast.BoolOp, ast.Compare)) or (
                    isinstance(v, ast.UnaryOp) and isinstance(v.op, ast.Not)):
                if not any(isinstance(x, ast.Name) and x.id == nm for x in ast.walk(v)):
                    cenv[nm] = _subst(v, cenv)
            elif isinstance(v, ast.Name) and v.id in cenv and v.id != nm:
                cenv[nm] = cenv[v.id]          # a copy of a tracked flag
    elif isinstance(node, (ast.AugAssign, ast.AnnAssign)):
        if isinstance(node.target, ast.Name):
            cenv.pop(node.target.id, None)
        # (a flag keeps the value it was given: literals are facts about the moment they were
        # evaluated, like every other literal of an outcome path)


class _Sub(ast.NodeTransformer):
    def __init__(self, cenv):
        self.cenv = cenv

    def visit_Name(self, n):
        if isinstance(n.ctx, ast.Load) and n.id in self.cenv:
            import copy as _copy
            return ast.copy_location(_copy.deepcopy(self.cenv[n.id]), n)
        return n

    def visit_Lambda(self, n):
        return n


def _subst(expr, cenv):
    if not cenv or expr is None:
        return expr
    if not any(isinstance(x, ast.Name) and x.id in cenv for x in ast.walk(expr)):
        return expr
    import copy
    return _fold(_Sub(cenv).visit(copy.deepcopy(expr)))


def _fold(e):
    """fold and/or/not over boolean constants"""
    if isinstance(e, ast.UnaryOp) and isinstance(e.op, ast.Not):
        v = _fold(e.operand)
        if isinstance(v, ast.Constant):
            return ast.copy_location(ast.Constant(value=not v.value), e)
        e.operand = v
        return e
    if isinstance(e, ast.BoolOp):
        vals = [_fold(v) for v in e.values]
        is_and = isinstance(e.op, ast.And)
        out = []
        for v in vals:
            if isinstance(v, ast.Constant) and isinstance(v.value, bool):
                if v.value != is_and:        # False in and / True in or: decides
                    return ast.copy_location(ast.Constant(value=v.value), e)
                continue                      # neutral element
            out.append(v)
        if not out:
            return ast.copy_location(ast.Constant(value=is_and), e)
        if len(out) == 1:
            return out[0]
        e.values = out
        return e
    return e


def _pad(starts, alts):
    # alts may have multiplied since the loop was entered; literals added before
    # the loop are a prefix common to all descendants, so reuse the minimum
    if len(starts) == len(alts):
        return starts
    m = min(starts) if starts else 0
    return [m] * len(alts)


def quantified(q, vs, it, lit):
    """canonical quantified literal; bound variables are renamed $1, $2 ..."""
    inner = repr(lit)
    for i, v in enumerate(vs):
        inner = re.sub(r'(?<![\w#.$])%s(?![\w])' % re.escape(v), '$%d' % (i + 1), inner)
    return Lit('%s %s in %s: %s' % (q, ','.join('$%d' % (i + 1) for i in range(len(vs))), it, inner), True)


def _quantify(lits, start, vs, it, q):
    out = list(lits[:start])
    for l in lits[start:]:
        if any(_mentions(l.atom, v) for v in vs):
            if isinstance(it, tuple) and it[0] == '<forms>' and q == 'forall':
                # every element is one of finitely many known tuples: state the literal for each
                for form in it[1]:
                    atom = l.atom
                    for v, t in form.items():
                        atom = re.sub(r'(?<![\w#.$])%s(?![\w])' % re.escape(v), t, atom)
                    out.append(_reorder_eq(Lit(atom, l.pol)))
            elif isinstance(it, tuple) and it[0] == '<forms>':
                out.append(Lit('exists %s in <forms>: %r' % (','.join(vs), l), True))
            elif isinstance(it, tuple) and it[0] == '<each>' and len(vs) == 1 and q == 'forall':
                # the loop runs over known singleton objects: state the literal for each of them
                for t in it[1]:
                    atom = re.sub(r'(?<![\w#.$])%s(?![\w])' % re.escape(vs[0]), t, l.atom)
                    out.append(_reorder_eq(Lit(atom, l.pol)))
            else:
                out.append(quantified(q, vs, it if not isinstance(it, tuple) else '|'.join(it[1]), l))
        else:
            out.append(l)
    return out


def _reorder_eq(l):
    if ' == ' in l.atom and not l.atom.startswith(('forall', 'exists')):
        a, b = l.atom.split(' == ', 1)
        a, b = sorted([a, b])
        return Lit('%s == %s' % (a, b), l.pol)
    return l


def elem_singletons(canon, it, frame, _d=0):
    """class names when every element of the iterable is one of the simulation's singleton
    objects (e.g. [self.hot[b] for b in self.hot] + [self.cold[b] for b in self.cold]); else empty"""
    from .norm import SINGLETONS
    from .paths import assigned_names
    repo = canon.repo
    if _d > 6 or frame is None:
        return set()

    def single(expr):
        ts = {canon.class_name(t) for t in repo.expr_types(expr, frame.func)}
        return ts if ts and ts <= SINGLETONS else set()
    if isinstance(it, ast.Name):
        defs = assigned_names(frame.func).get(it.id, [])
        if not defs or it.id in frame.func.params:
            return set()
        out = set()
        for n in defs:
            v = n.value if isinstance(n, (ast.Assign, ast.AugAssign)) else None
            if v is None:
                return set()
            s = elem_singletons(canon, v, frame, _d + 1)
            if not s:
                return set()
            out |= s
        # elements added after creation: xs.extend(I) / xs.append(x); any other change is unknown
        from .index import walk_no_nested
        for n in walk_no_nested(frame.func.node):
            if isinstance(n, ast.Call) and isinstance(n.func, ast.Attribute) and isinstance(
                    n.func.value, ast.Name) and n.func.value.id == it.id:
                if n.func.attr == 'extend' and len(n.args) == 1:
                    s = elem_singletons(canon, n.args[0], frame, _d + 1)
                elif n.func.attr == 'append' and len(n.args) == 1:
                    s = single(n.args[0])
                elif n.func.attr in ('insert', '__setitem__'):
                    s = set()
                else:
                    continue
                if not s:
                    return set()
                out |= s
        return out
    if isinstance(it, (ast.ListComp, ast.GeneratorExp)) and len(it.generators) == 1:
        return single(it.elt)
    if isinstance(it, (ast.List, ast.Tuple)) and it.elts:
        out = set()
        for x in it.elts:
            s = elem_singletons(canon, x.value, frame, _d + 1) if isinstance(x, ast.Starred) else single(x)
            if not s:
                return set()
            out |= s
        return out
    if isinstance(it, ast.BinOp) and isinstance(it.op, ast.Add):
        a = elem_singletons(canon, it.left, frame, _d + 1)
        b = elem_singletons(canon, it.right, frame, _d + 1)
        return (a | b) if a and b else set()
    if isinstance(it, ast.Call):
        fn = it.func
        if isinstance(fn, ast.Name) and fn.id in ('list', 'tuple') and len(it.args) == 1:
            return elem_singletons(canon, it.args[0], frame, _d + 1)
        if isinstance(fn, ast.Attribute) and fn.attr == 'values' and not it.args and isinstance(fn.value, ast.Attribute):
            out = set()
            for b in repo.expr_types(fn.value.value, frame.func):
                out |= {canon.class_name(t) for t in repo.elem_types.get((b, fn.value.attr), set())}
            return out if out and out <= SINGLETONS else set()
        if isinstance(fn, ast.Name) and fn.id == 'chain' or (isinstance(fn, ast.Attribute) and fn.attr == 'chain'):
            out = set()
            for a in it.args:
                s = elem_singletons(canon, a, frame, _d + 1)
                if not s:
                    return set()
                out |= s
            return out
    return set()


def elem_forms(canon, it, frame, target, _d=0):
    """[{loop variable: canonical string}] when every element of the iterable is one of finitely many
    tuples whose components do not depend on the element (e.g. (hot.current, hot.total) for every hot
    tier: the tier is a singleton, so the tuple is the same for each); None otherwise."""
    from .paths import assigned_names
    if _d > 6 or frame is None:
        return None
    names = [x.id for x in target.elts if isinstance(x, ast.Name)]
    if len(names) != len(target.elts):
        return None
    if isinstance(it, ast.Name):
        defs = assigned_names(frame.func).get(it.id, [])
        if len(defs) != 1 or not isinstance(defs[0], ast.Assign) or it.id in frame.func.params:
            return None
        from .index import walk_no_nested
        for n in walk_no_nested(frame.func.node):
            if isinstance(n, ast.Attribute) and isinstance(n.value, ast.Name) and n.value.id == it.id and n.attr in (
                    'append', 'extend', 'insert', 'remove', 'pop', 'clear', 'sort', 'reverse'):
                return None
        return elem_forms(canon, defs[0].value, frame, target, _d + 1)
    if isinstance(it, ast.BinOp) and isinstance(it.op, ast.Add):
        a = elem_forms(canon, it.left, frame, target, _d + 1)
        b = elem_forms(canon, it.right, frame, target, _d + 1)
        return a + b if a and b else None
    if isinstance(it, ast.Call) and isinstance(it.func, ast.Name) and it.func.id in ('list', 'tuple') and len(it.args) == 1:
        return elem_forms(canon, it.args[0], frame, target, _d + 1)
    if isinstance(it, (ast.List, ast.Tuple)) and it.elts and all(
            isinstance(x, ast.Tuple) and len(x.elts) == len(names) for x in it.elts):
        return [{n: canon.c(v, frame) for n, v in zip(names, x.elts)} for x in it.elts]
    if isinstance(it, (ast.ListComp, ast.GeneratorExp)) and len(it.generators) == 1 and not it.generators[0].ifs \
            and isinstance(it.elt, ast.Tuple) and len(it.elt.elts) == len(names):
        bound = {x.id for x in ast.walk(it.generators[0].target) if isinstance(x, ast.Name)}
        form = {}
        for n, v in zip(names, it.elt.elts):
            s = canon.c(v, frame)
            if any(re.search(r'(?<![\w#.$])%s(?![\w])' % re.escape(b), s) for b in bound):
                return None
            form[n] = s
        return [form]
    return None


def contradictory(lits):
    seen = {}
    for l in lits:
        if l.atom.startswith('const:'):
            val = l.atom == 'const:True'
            if val != l.pol:
                return True
            continue
        if seen.get(l.atom, l.pol) != l.pol:
            return True
        seen[l.atom] = l.pol
    return False
