"""C03 -- workflow precedence and data-transfer waits are respected.

Q1 predecessor gate: in each shipped scheduling algorithm every proposal of task t is
   made only on paths that established "t has no predecessors" or "all predecessors finished"
Q2 finished means finished: a task is recorded finished only under <handle>.triggered;
   is_task_finished is false for unknown tasks
Q3 transfer wait: cross-machine predecessors are collected, passed to do_work, waited for
   before the start is recorded; the wait is max(p.aft + io[p]/bandwidth(receiver) - now)
"""
import ast
import re

from ..index import AnalysisError, is_spawn, walk_no_nested
from ..norm import Canon, Lit, Logic, ProvCanon, affine, effects_of_event, lit_lt, effects_along
from ..paths import Frame, cached_paths, contains_yield
from ..skel import outcomes
from . import cluster_units as CU
from .common import (bound_args, call_name, enclosing_loops, iteration_segments, path_must,
                     reaching_value, short, stmt_contains)
from .c17 import map_stores, returned_map_name

FLOORS = {'C03.Q1': 4, 'C03.Q2': 2, 'C03.Q3': 5, 'C03.Q5': 2}

ALGS = ['BatchProcessing.run', 'QueueProcessing.run', 'DynamicSchedulingFromPlan.run',
        'GreedySchedulingFromPlan.run']


def check(repo, res, tier):
    canon = Canon(repo)
    pc = ProvCanon(repo)
    logic = Logic(canon)
    plogic = Logic(pc)
    res.rule('C03.Q1', 'each allocation store for task t is dominated by "no predecessors" or an all-finished fact '
                       '(counting idiom, subset idiom or all(...))')
    res.rule('C03.Q2', 'tasks.finished[t] = True only under <handle>.triggered; is_task_finished(unknown) is false')
    res.rule('C03.Q3', 'cross-machine predecessor list -> allocate_task_to_cluster -> do_work; transfer wait yielded '
                       'before ast is recorded; wait = running max of p.aft + io[p.id]/machine.bandwidth - now')
    from . import c14
    from .common import borrow
    res.rule('C03.Q4', 'adopted C14.G2: the per-edge volumes a task waits for (Task.io) are those of its own in-edges, in a '
                       'dictionary of its own')
    borrow(repo, res, tier, c14, {'C14.G2', 'C14.G5'}, 'C03.Q4')
    res.assumptions += ['exact start equality under concurrency and the one-step visibility of FINISHED are timing facts, not decided',
                        'networkx predecessors() yields exactly the graph predecessors (C14 ties the graph to the workflow)']
    for q in ALGS:
        q1(repo, res, canon, pc, plogic, repo.func(q))
    q2(repo, res, canon, logic)
    q3(repo, res, canon, pc, logic)
    q5(repo, res, canon)


# --------------------------------------------------------------------------- Q5
def q5(repo, res, canon):
    """The process that watches a task (Cluster.allocate_task_to_cluster) wakes only at whole
    steps: every yield is env.timeout(<whole number>).  Waiting on the work process itself
    (`yield ret`) resumes it at the fractional time the work ends, the task is reported FINISHED
    before its recorded finish (now + 1) and a successor is placed a step early."""
    res.rule('C03.Q5', 'the task-watching process yields only env.timeout(<whole steps>): completion is seen at whole-step '
                       'polls, never at the (possibly fractional) moment the work process ends')
    f = repo.func('Cluster.allocate_task_to_cluster')
    fr = Frame(f)
    seen = set()
    n_y = [0]

    def judge(g, gfr):
        if g.qual in seen:
            return
        seen.add(g.qual)
        for n in walk_no_nested(g.node):
            if isinstance(n, ast.Yield):
                n_y[0] += 1
                v = n.value
                okv = isinstance(v, ast.Call) and call_name(v) == 'timeout' and len(v.args) == 1 and not v.keywords
                if okv:
                    a = canon.c(v.args[0], gfr)
                    okv = bool(re.fullmatch(r'\d+', a))
                    why = 'sleeps %s, not a whole number of steps' % a
                else:
                    why = 'waits on %s instead of sleeping a whole step' % short(ast.unparse(v) if v is not None else 'nothing')
                if okv:
                    res.ok('C03.Q5', g, n, short(ast.unparse(n)), 'whole-step sleep')
                else:
                    res.bad('C03.Q5', g, n, short(ast.unparse(n)),
                            'the process watching the task %s: it resumes the moment the work process ends (a fractional '
                            'time when a transfer wait was fractional), reports the task FINISHED before its recorded '
                            'finish time and lets a successor start a step early' % why)
            elif isinstance(n, ast.YieldFrom):
                c = n.value
                sub = None
                if isinstance(c, ast.Call):
                    cals, _exact = repo.resolve_call(c, g)
                    if len(cals) == 1:
                        sub = cals[0]
                if sub is not None:
                    judge(sub, Frame(sub))
                else:
                    n_y[0] += 1
                    res.bad('C03.Q5', g, n, short(ast.unparse(n)), 'the process watching the task delegates to %s, whose '
                            'sleeps cannot be judged' % short(ast.unparse(c)))
    judge(f, fr)
    if not n_y[0]:
        raise AnalysisError('Cluster.allocate_task_to_cluster yields nothing (C03.Q5 anchor moved)')


# --------------------------------------------------------------------------- Q1
def store_sites(repo, f):
    """[(function containing the store, store node, key expr, call chain from run)]"""
    m = returned_map_name(f)
    out = []
    if m is None:
        return None
    stores, others = map_stores(f, m)
    for n, k, v in stores:
        out.append((f, n, k, None))
    # helper called with the map as argument whose result is assigned back to the map
    for n in walk_no_nested(f.node):
        if isinstance(n, ast.Call) and any(isinstance(a, ast.Name) and a.id == m for a in n.args):
            cals, exact = repo.resolve_call(n, f)
            for cal in cals:
                if cal.cls is not f.cls and not f.cls.is_subclass_of(cal.cls.name):
                    continue
                b = bound_args(repo, cal.qual, n, Frame(f))
                pm = [p for p, a in b.items() if isinstance(a, ast.Name) and a.id == m]
                if not pm:
                    continue
                st, _ = map_stores(cal, pm[0])
                for sn, k, v in st:
                    # the key inside the helper is a parameter: map back to the caller's expression
                    if isinstance(k, ast.Name) and k.id in b:
                        out.append((f, n, b[k.id], cal))
                    else:
                        out.append((f, n, None, cal))
    return out


def q1(repo, res, canon, pc, plogic, f):
    fr = Frame(f)
    paths = cached_paths(f)
    res.analysed(f, len(paths))
    sites = store_sites(repo, f)
    if sites is None:
        raise AnalysisError('%s does not return a named allocation map' % f.qual)
    if not sites:
        res.bad('C03.Q1', f, None, 'no allocation store', '%s never proposes an allocation' % f.qual)
        return
    seen = set()
    for g, node, key, helper in sites:
        if id(node) in seen:
            continue
        seen.add(id(node))
        if key is None:
            res.bad('C03.Q1', f, node, 'allocation store with untracked task', 'cannot tell which task is allocated')
            continue
        T = pc.p(key, fr)
        Tn = key.id if isinstance(key, ast.Name) else None
        gate_counts = {'no-predecessors': 0, 'counting': 0, 'subset': 0, 'all()': 0}
        bad = None
        for p in paths:
            for i, e in enumerate(p.events):
                if not stmt_contains(e, lambda x: x is node):
                    continue
                kind = gate_on_path(repo, canon, pc, plogic, f, fr, p, i, key, T)
                if kind is None:
                    bad = p
                else:
                    gate_counts[kind] += 1
                break
            if bad:
                break
        what = '%s: proposal of task `%s` at line %d is gated' % (f.qual, Tn or short(T, 30), node.lineno)
        if bad:
            res.bad('C03.Q1', f, node, '%s ungated proposal at `%s`' % (f.qual, short(ast.unparse(node), 60)),
                    'a path of %s proposes task `%s` without having established that it has no predecessors '
                    'or that all its predecessors are finished: the task can start before a predecessor '
                    'has finished' % (f.qual, Tn or 'task'), path=bad.describe(), what=what)
        else:
            res.ok('C03.Q1', f, node, what, ', '.join('%s x%d' % kv for kv in gate_counts.items() if kv[1]))


def pred_sources(T):
    return {'workflow_plan.graph.predecessors(%s)' % T, 'workflow_plan.graph.pred[%s]' % T, '%s.pred' % T}


def gate_on_path(repo, canon, pc, plogic, f, fr, p, i, key, T):
    srcs = pred_sources(T)
    must = path_must(plogic, p, i, depth=0)
    # (a) no predecessors
    for s in srcs:
        if Lit('truthy(%s)' % s, False) in must or Lit('empty(%s)' % s, True) in must:
            return 'no-predecessors'
    # (b) subset idiom:  set(t.pred).issubset({x.id for x in cluster.finished_tasks})
    for l in must:
        if l.pol and l.atom.startswith('truthy(') and '.issubset(' in l.atom:
            inner = l.atom[len('truthy('):-1]
            a, _, b = inner.partition('.issubset(')
            b = b[:-1]
            if any(a in (s, 'set(%s)' % s) or a == s for s in srcs) and 'finished' in b and (
                    b.startswith('set[') or b.startswith('seq[') or 'finished_tasks' in b or "['finished']" in b):
                return 'subset'
        if l.pol and l.atom.startswith('truthy(all(') and 'is_task_finished' in l.atom and any(s in l.atom for s in srcs):
            return 'all()'
    # (b1) the quantified form every counting / all() / filtered-list idiom reduces to
    for s in srcs:
        if Lit('forall $1 in %s: truthy(Cluster.is_task_finished($1))' % s, True) in must:
            return 'all()'
    # (b2) "the list of unfinished predecessors is empty"
    for s in srcs:
        unf = 'seq[elem(%s) for %s if (not Cluster.is_task_finished(elem(%s)))]' % (s, s, s)
        if Lit('empty(%s)' % unf, True) in must or Lit('truthy(%s)' % unf, False) in must:
            return 'all()'
    # (b3) "as many finished predecessors as predecessors":  sum(1 for p in S if finished(p)) == len(S)
    for s in srcs:
        cnt = 'sum(seq[1 for %s if Cluster.is_task_finished(elem(%s))])' % (s, s)
        a_, b_ = sorted(['len(%s)' % s, cnt])
        if Lit('%s == %s' % (a_, b_), True) in must:
            return 'counting'
        from ..norm import lit_lt
        if lit_lt(cnt, 'len(%s)' % s).neg() in must:
            return 'counting'
    # (c) counting idiom: not (count < len(pred))
    for e in reversed(p.events[:i]):
        if e.kind != 'test':
            continue
        tnode, tpol = e.node, e.pol
        while isinstance(tnode, ast.UnaryOp) and isinstance(tnode.op, ast.Not):
            tnode, tpol = tnode.operand, not tpol
        if not isinstance(tnode, ast.Compare) or len(tnode.ops) != 1:
            continue
        l, r, op = tnode.left, tnode.comparators[0], tnode.ops[0]
        cnt = lst = None
        ge = None
        if isinstance(l, ast.Name) and _is_len(r):
            cnt, lst = l, r.args[0]
            ge = {ast.Lt: not tpol, ast.GtE: tpol, ast.Eq: tpol, ast.NotEq: not tpol}.get(type(op))
        elif isinstance(r, ast.Name) and _is_len(l):
            cnt, lst = r, l.args[0]
            ge = {ast.Gt: not tpol, ast.LtE: tpol, ast.Eq: tpol, ast.NotEq: not tpol}.get(type(op))
        if cnt is None or not ge:
            continue
        if pc.p(lst, fr) not in srcs:
            continue
        if counting_ok(repo, canon, pc, f, fr, p, cnt.id, lst, srcs):
            return 'counting'
    return None


def _is_len(e):
    return isinstance(e, ast.Call) and isinstance(e.func, ast.Name) and e.func.id == 'len' and len(e.args) == 1


def counting_ok(repo, canon, pc, f, fr, p, cname, lst, srcs):
    """`cname` is set to 0 and incremented by 1 only inside a loop over the predecessor
    list, under is_task_finished(<loop var>)."""
    incs = [n for n in walk_no_nested(f.node) if isinstance(n, ast.AugAssign) and isinstance(
        n.target, ast.Name) and n.target.id == cname]
    inits = [n for n in walk_no_nested(f.node) if isinstance(n, ast.Assign) and any(
        isinstance(t, ast.Name) and t.id == cname for t in n.targets)]
    if not incs or not inits:
        return False
    if not all(isinstance(n.value, ast.Constant) and n.value.value == 0 for n in inits):
        return False
    for n in incs:
        if not (isinstance(n.op, ast.Add) and isinstance(n.value, ast.Constant) and n.value.value == 1):
            return False
        loops = [l for l in enclosing_loops(f, n) if isinstance(l, ast.For)]
        if not loops:
            return False
        lp = loops[-1]
        if pc.p(lp.iter, fr) not in srcs or not isinstance(lp.target, ast.Name):
            return False
        # the increment is guarded by is_task_finished(loop var)
        guarded = False
        for s in ast.walk(lp):
            if isinstance(s, ast.If) and any(x is n for x in ast.walk(ast.Module(body=s.body, type_ignores=[]))):
                t = s.test
                if isinstance(t, ast.Call) and call_name(t) == 'is_task_finished' and t.args and isinstance(
                        t.args[0], ast.Name) and t.args[0].id == lp.target.id:
                    cals, _ = repo.resolve_call(t, f)
                    if any(c.qual == 'Cluster.is_task_finished' for c in cals):
                        guarded = True
        if not guarded:
            return False
        # the initialisation happens in the same iteration of the task loop as the count loop
        for ini in inits:
            li = enclosing_loops(f, ini)
            ll = enclosing_loops(f, lp)
            if li != ll:
                return False
    return True


# --------------------------------------------------------------------------- Q2
def q2(repo, res, canon, logic):
    alloc = repo.func('Cluster.allocate_task_to_cluster')
    us = CU.dedupe(CU.units(repo))
    sites = {}
    for u in us:
        if u.func is not alloc:
            continue
        for e, efs in u.effects:
            for ef in efs:
                if ef.kind == 'assign' and ef.loc.startswith(CU.FINISHED + '[') and ef.arg == 'True':
                    idx = u.path.events.index(e)
                    must = set()
                    for x in u.path.events[:idx]:
                        if x.kind == 'test' and x.frame.depth == 0:
                            must |= logic.must(x.node, x.frame, x.pol)
                    trig = any(l.pol and l.atom.endswith('.triggered)') for l in must)
                    sites.setdefault(ef.node.lineno, []).append((trig, u, ef))
    # workflow tasks ENTER the finished table (as keys) only on completion: algorithms read the keys
    keysites = {}
    for u in us:
        if u.func is not alloc or u.world.get('ingest') is not False:
            continue
        for e, efs in u.effects:
            for ef in efs:
                if ef.kind == 'store' and ef.loc == CU.FINISHED:
                    idx = u.path.events.index(e)
                    must = set()
                    for x in u.path.events[:idx]:
                        if x.kind == 'test' and x.frame.depth == 0:
                            must |= logic.must(x.node, x.frame, x.pol)
                    trig = any(l.pol and l.atom.endswith('.triggered)') for l in must)
                    keysites.setdefault(ef.node.lineno, []).append((trig, u, ef))
    for line, lst in sorted(keysites.items()):
        bad = [x for x in lst if not x[0]]
        what = 'a workflow task becomes a key of tasks.finished (line %d) only under <handle>.triggered' % line
        if bad:
            res.bad('C03.Q2', alloc, lst[0][2].node, 'workflow task entered into tasks.finished at allocation',
                    'a workflow task is entered into the finished table before it has completed; '
                    'Cluster.finished_tasks (the keys) is what GreedySchedulingFromPlan tests predecessors against, '
                    'so a successor can start while its predecessor is still running',
                    path=bad[0][1].path.describe(), what=what)
        else:
            res.ok('C03.Q2', alloc, lst[0][2].node, what)
    for line, lst in sorted(sites.items()):
        bad = [x for x in lst if not x[0]]
        what = 'finished[task] = True (line %d) only under <handle>.triggered' % line
        if bad:
            res.bad('C03.Q2', alloc, lst[0][2].node, 'task marked finished without the completion test',
                    'a task is recorded as finished on a path that has not tested that its process has '
                    'completed: successors can start while it is still running', path=bad[0][1].path.describe(), what=what)
        else:
            res.ok('C03.Q2', alloc, lst[0][2].node, what)
    if not sites:
        res.bad('C03.Q2', alloc, None, 'tasks are never marked finished', 'finished[task] = True is gone')
    # writers of the finished table outside allocate_task_to_cluster
    for f in repo.all_functions():
        if f is alloc or f.name == '__init__':
            continue
        for p in cached_paths(f) if f.cls and f.cls.name == 'Cluster' else []:
            for e, _efs in effects_along(canon, p.events):
                for ef in _efs:
                    if ef.kind == 'assign' and ef.loc.startswith(CU.FINISHED + '[') and ef.arg == 'True':
                        res.bad('C03.Q2', f, ef.node, '%s marks tasks finished' % f.qual,
                                '%s marks a task finished outside the completion branch' % f.qual)
    g = repo.func('Cluster.is_task_finished')
    outs = outcomes(logic, g)
    res.analysed(g, len(outs))
    tparam = g.params[1]
    ok = True
    for o in outs:
        if o.result == 'T':
            if Lit('%s in %s' % (tparam, CU.FINISHED), True) not in o.lits or \
                    Lit('truthy(%s[%s])' % (CU.FINISHED, tparam), True) not in o.lits:
                ok = False
    (res.ok if ok and any(o.result == 'T' for o in outs) else res.bad)(
        'C03.Q2', g, None, 'is_task_finished(t) true only if t is recorded and its flag is true',
        'ok' if ok else 'is_task_finished can be true for a task that is not recorded as finished')


# --------------------------------------------------------------------------- Q3
def q3(repo, res, canon, pc, logic):
    plogic = Logic(pc)

    def judge_list(value, fr, T, M, A=None):
        """is `value` (in frame fr) the list of predecessors of T that ran on another machine than M,
        looked up in the allocation record A (discovered from the element when None)?"""
        parts = pc.seq_parts(value, fr)
        if parts is None:
            return False, 'the transfer list is not "the predecessors whose machine differs" (%s)' % short(pc.p(value, fr))
        elt, it, conds, lvars = parts
        E = pc.p(elt, fr)
        src = pc._iter_p(it, fr, 0, frozenset())
        if A is None:
            m_ = re.fullmatch(r'(.+)\[elem\(%s\.pred\)\]\[0\]' % re.escape(T), E)
            A = m_.group(1) if m_ else '?'
        pair = '%s[elem(%s.pred)]' % (A, T)
        if src not in ('%s.pred' % T, 'seq[%s for %s.pred]' % (pair, T)):
            return False, 'the transfer list is built over %s, not over all predecessors of the task' % short(src)
        if E != pair + '[0]':
            return False, 'the transfer list holds %s, not the predecessor tasks' % short(E)
        lits = set()
        for c_, pol in conds:
            lits |= plogic.must(c_, fr, pol)
        a_, b_ = sorted([pair + '[1]', M])
        want = Lit('%s == %s' % (a_, b_), False)
        if lits != {want}:
            return False, ('a predecessor is put on the transfer list under %s, not exactly when it ran on a '
                           'different machine: same-machine predecessors wait, or cross-machine ones do not' % (
                               sorted(map(repr, lits)) or 'no condition'))
        return True, 'ok'
    s = repo.func('Scheduler._process_current_schedule')
    sfr = Frame(s)
    sp = [n for n in walk_no_nested(s.node) if is_spawn(n) and call_name(n.args[0]) == 'allocate_task_to_cluster']
    if repo.has_func('Scheduler._find_pred_allocations'):
        # (1) _find_pred_allocations keeps a predecessor iff it ran on another machine
        f = repo.func('Scheduler._find_pred_allocations')
        fr = Frame(f)
        res.analysed(f, len(cached_paths(f)))
        off = 0 if any('staticmethod' in d for d in f.decorators) else 1
        tparam, mparam, aparam = f.params[off], f.params[off + 1], f.params[off + 2]
        rets = [n for n in walk_no_nested(f.node) if isinstance(n, ast.Return) and n.value is not None]
        ok = bool(rets)
        why = 'nothing returned'
        for r in rets:
            o, w = judge_list(r.value, fr, tparam, mparam, aparam)
            if not o:
                ok, why = False, w
        (res.ok if ok else res.bad)('C03.Q3', f, rets[0] if rets else None,
                                    'cross-machine predecessors (and only those) are collected', 'ok' if ok else why)
        # (2) passed on: scheduler -> cluster -> do_work
        ok = False
        if sp:
            a = bound_args(repo, 'Cluster.allocate_task_to_cluster', sp[0].args[0], sfr)
            v = a.get('predecessor_allocations')
            if v is not None:
                P = pc.p(v, sfr)
                T, M = pc.p(a['task'], sfr), pc.p(a['machine'], sfr)
                ok = P.startswith('Scheduler._find_pred_allocations(%s, %s, ' % (T, M))
        (res.ok if ok else res.bad)('C03.Q3', s, sp[0] if sp else None,
                                    'scheduler passes _find_pred_allocations(task, machine, ...) to the cluster',
                                    'ok' if ok else 'the cross-machine predecessor list no longer reaches the cluster allocation')
    else:
        # the list is built where it is used: judge the third argument of the allocation spawn itself
        ok, why = False, 'the cross-machine predecessor list no longer reaches the cluster allocation'
        if sp:
            a = bound_args(repo, 'Cluster.allocate_task_to_cluster', sp[0].args[0], sfr)
            v = a.get('predecessor_allocations')
            if v is not None:
                T, M = pc.p(a['task'], sfr), pc.p(a['machine'], sfr)
                ok, why = judge_list(v, sfr, T, M)
        (res.ok if ok else res.bad)('C03.Q3', s, sp[0] if sp else None,
                                    'cross-machine predecessors (and only those) are collected and passed to the cluster',
                                    'ok' if ok else why)
        res.ok('C03.Q3', s, sp[0] if sp else None, '(the list is built in the submitting function itself)')
    # (2b) every submitted task is entered in the allocation record with the machine it got: its
    # successors look their predecessors up there (a missing entry is a KeyError, a wrong machine a
    # wrong transfer decision)
    if sp:
        a = bound_args(repo, 'Cluster.allocate_task_to_cluster', sp[0].args[0], sfr)
        T, M = canon.c(a['task'], sfr), canon.c(a['machine'], sfr)
        loops_ = [l for l in enclosing_loops(s, sp[0]) if isinstance(l, ast.For)]
        okr, whyr, nseg = True, '', 0
        if loops_:
            for seg, how in iteration_segments(s, loops_[-1]):
                if how == 'raise' or not any(e.kind == 'stmt' and any(x is sp[0] for x in ast.walk(e.node)) for e in seg):
                    continue
                nseg += 1
                recs = [ef for e, efs in effects_along(canon, seg) for ef in efs
                        if ef.kind == 'store' and ef.arg in ('%s.id' % T, T) and ef.value is not None
                        and isinstance(ef.value, ast.Tuple) and len(ef.value.elts) == 2]
                good = [ef for ef in recs if canon.c(ef.value.elts[0], sfr) == T and canon.c(ef.value.elts[1], sfr) == M]
                if not good:
                    okr, whyr = False, ('a task is submitted to the cluster without being entered in the allocation record as '
                                        '(task, machine) under its id: its successors cannot find where it ran (KeyError, or a '
                                        'transfer wait decided against the wrong machine)')
        (res.ok if okr and nseg else res.bad)('C03.Q3', s, sp[0], 'a submitted task is recorded as allocations[task.id] = (task, machine)',
                                              'ok' if okr and nseg else whyr or 'no submitting iteration found')
    c = repo.func('Cluster.allocate_task_to_cluster')
    cfr = Frame(c)
    n_ok = n_bad = 0
    for n in walk_no_nested(c.node):
        if isinstance(n, ast.Call) and call_name(n) == 'do_work':
            a = bound_args(repo, 'Task.do_work', n, cfr)
            if pc.p(a.get('predecessor_allocations'), cfr) == 'predecessor_allocations':
                n_ok += 1
            else:
                n_bad += 1
        if isinstance(n, ast.Call) and call_name(n) == 'run' and isinstance(n.func, ast.Attribute) and \
                canon.c(n.func.value, cfr) == c.params[2]:
            a = bound_args(repo, 'Machine.run', n, cfr)
            if pc.p(a.get('predecessor_allocations'), cfr) == 'predecessor_allocations':
                n_ok += 1
            else:
                n_bad += 1
    (res.ok if n_ok and not n_bad else res.bad)('C03.Q3', c, None, 'cluster hands the predecessor list to do_work',
                                                'ok' if n_ok and not n_bad else 'the predecessor list is dropped on the way to do_work')
    # (3) do_work waits before recording the start
    d = repo.func('Task.do_work')
    dfr = Frame(d)
    ok = True
    why = ''
    pparam = d.params[3] if len(d.params) > 3 else 'predecessor_allocations'
    n_wait = 0
    for p in cached_paths(d):
        must_nonempty = False
        waited = False
        for e in p.events:
            if e.kind == 'test':
                tn, tp = e.node, e.pol
                while isinstance(tn, ast.UnaryOp) and isinstance(tn.op, ast.Not):
                    tn, tp = tn.operand, not tp
                if isinstance(tn, ast.Compare) and len(tn.ops) == 1 and isinstance(tn.ops[0], (ast.Gt, ast.NotEq)) \
                        and isinstance(tn.left, ast.Call) and call_name(tn.left) == 'len' and isinstance(
                            tn.comparators[0], ast.Constant) and tn.comparators[0].value == 0:
                    tn = tn.left.args[0]          # len(x) > 0
                if canon.c(tn, dfr) == pparam:
                    must_nonempty = tp
            if e.kind == 'stmt':
                for y in ast.walk(e.node):
                    if isinstance(y, ast.Yield) and isinstance(y.value, ast.Call) and call_name(y.value) == 'timeout' \
                            and y.value.args:
                        wp_ = pc.p(y.value.args[0], dfr)
                        if wp_ == 'Task._wait_for_transfer(%s, %s, %s)' % (d.params[1], d.params[2], pparam):
                            waited = True
                n = e.node
                if isinstance(n, ast.Assign) and canon.c(n.targets[0], dfr) == 'Task.ast':
                    if must_nonempty and not waited:
                        ok, why = False, 'the start is recorded before the transfer wait on a path with cross-machine predecessors'
                    if must_nonempty and waited:
                        n_wait += 1
                    break
    if not n_wait:
        ok, why = False, why or 'do_work never waits for predecessor data'
    (res.ok if ok else res.bad)('C03.Q3', d, None, 'transfer wait is yielded before ast is recorded', 'ok' if ok else why)
    res.analysed(d, len(cached_paths(d)))
    # (4) the wait formula
    w = repo.func('Task._wait_for_transfer')
    wfr = Frame(w)
    res.analysed(w, len(cached_paths(w)))
    lp = [n for n in walk_no_nested(w.node) if isinstance(n, ast.For)]
    ok = False
    why = 'no loop over the predecessor list'
    if lp and pc.p(lp[0].iter, wfr) == w.params[3] and isinstance(lp[0].target, ast.Name):
        pv = lp[0].target.id
        want = affine(pc, ast.parse('%s.aft + self.io[%s.id] / %s.bandwidth - %s.now' % (
            pv, pv, w.params[2], w.params[1]), mode='eval').body, wfr)
        mx = None
        ok = True
        rets0 = [n for n in walk_no_nested(w.node) if isinstance(n, ast.Return) and isinstance(n.value, ast.Name)]
        retname = rets0[0].value.id if rets0 else None
        assigns = [n for n in ast.walk(lp[0]) if isinstance(n, ast.Assign) and isinstance(n.targets[0], ast.Name)
                   and n.targets[0].id == retname]
        tests = [n for n in ast.walk(lp[0]) if isinstance(n, ast.If)]
        upd = [a for a in assigns if affine(pc, a.value, wfr) == want]
        if not upd:
            # max(mx, expr) form
            upd = [a for a in assigns if isinstance(a.value, ast.Call) and call_name(a.value) == 'max'
                   and any(affine(pc, x, wfr) == want for x in a.value.args)]
            if not upd:
                ok, why = False, 'the per-predecessor arrival is not p.aft + io[p.id]/machine.bandwidth - now (receiving machine)'
        if ok:
            mx = upd[0].targets[0].id
            rets = [n for n in walk_no_nested(w.node) if isinstance(n, ast.Return)]
            if not rets or not all(isinstance(r.value, ast.Name) and r.value.id == mx for r in rets):
                ok, why = False, 'the running maximum is not what is returned'
            inits = [n for n in walk_no_nested(w.node) if isinstance(n, ast.Assign) and isinstance(
                n.targets[0], ast.Name) and n.targets[0].id == mx and not any(x is n for x in ast.walk(lp[0]))]
            if not inits or not all(isinstance(n.value, ast.Constant) and n.value.value == 0 for n in inits):
                ok, why = False, 'the maximum does not start at 0'
            # guarded update: if <arrival> > mx
            for a in upd:
                if isinstance(a.value, ast.Call):
                    continue
                g = [t for t in tests if any(x is a for x in ast.walk(t))]
                if not g:
                    ok, why = False, 'the maximum is overwritten unconditionally (last predecessor wins)'
                else:
                    t = g[-1].test
                    if not (isinstance(t, ast.Compare) and len(t.ops) == 1 and (
                            (isinstance(t.ops[0], (ast.Gt, ast.GtE)) and affine(pc, t.left, wfr) == want
                             and isinstance(t.comparators[0], ast.Name) and t.comparators[0].id == mx) or
                            (isinstance(t.ops[0], (ast.Lt, ast.LtE)) and affine(pc, t.comparators[0], wfr) == want
                             and isinstance(t.left, ast.Name) and t.left.id == mx))):
                        ok, why = False, 'the update is not guarded by "arrival > current maximum"'
    if not ok:
        # any other spelling: the value returned, merged over the paths of the function, must be
        # max(0, max over the list of p.aft + io[p.id]/bandwidth - now)
        from ..norm import push_in
        from .common import returned_affine
        tgt = affine(pc, ast.parse('max([0] + [p__.aft + self.io[p__.id] / %s.bandwidth - %s.now for p__ in %s])' % (
            w.params[2], w.params[1], w.params[3]), mode='eval').body, wfr)
        got = returned_affine(pc, w, wfr)
        if got is not None and push_in(got) == tgt:
            ok = True
        elif got is not None and not lp:
            why = 'the wait is %s, not %s' % (short(repr(push_in(got)), 200), short(repr(tgt), 160))
    (res.ok if ok else res.bad)('C03.Q3', w, lp[0] if lp else None,
                                'wait = max over predecessors of p.aft + io[p.id]/machine.bandwidth - now',
                                'ok' if ok else why)
