"""C14 -- a generated plan is a faithful copy of the workflow graph.

G1 one task per node, in topological order, graph = relabel_nodes(graph, mapping)
G2 provenance of every Task(...) argument
G3 predecessor/successor queries agree with their roles
"""
import ast
import re

from ..index import AnalysisError, walk_no_nested
from ..norm import Canon, effects_of_event, effects_along
from ..paths import Frame
from .common import (bound_args, call_name, calls_to, enclosing_loops,
                     iteration_segments, short)

FLOORS = {'C14.G1': 4, 'C14.G2': 6, 'C14.G3': 2, 'C14.G4': 1, 'C14.G5': 10}

PRED_ROLE = {'predecessors', 'pred', 'in_edges'}
SUCC_ROLE = {'successors', 'succ', 'neighbors', 'adj', 'out_edges'}


def _stable_by_start(field, v):
    """sorted(tasks, key=lambda t: t.est): a stable sort on the planned start alone keeps a
    topological list topological (a predecessor never starts later than its successor, and ties
    keep the order given) -- accepted as the list itself"""
    if field == 'tasks' and isinstance(v, ast.Call) and isinstance(v.func, ast.Name) and v.func.id == 'sorted' \
            and len(v.args) == 1 and len(v.keywords) == 1 and v.keywords[0].arg == 'key':
        k = v.keywords[0].value
        if isinstance(k, ast.Lambda) and len(k.args.args) == 1 and isinstance(k.body, ast.Attribute) \
                and isinstance(k.body.value, ast.Name) and k.body.value.id == k.args.args[0].arg and k.body.attr == 'est':
            return v.args[0]
    return None


def check(repo, res, tier):
    canon = Canon(repo)
    res.rule('C14.G1', 'exactly one Task appended and one mapping entry per node of '
                       'topological_sort(graph); plan graph is relabel_nodes(graph, mapping)')
    res.rule('C14.G2', 'each Task(...) argument has the required provenance in the workflow graph')
    res.rule('C14.G3', 'get_task_predecessors/successors query the graph in their own role')
    res.assumptions += ['networkx DiGraph API: predecessors/successors/pred/nodes/relabel_nodes/'
                        'topological_sort have their documented meaning',
                        'SHADOWPlanning (needs the absent shadow library) is not analysed']
    f = repo.func('BatchPlanning.generate_plan')
    fr = Frame(f)
    res.analysed(f, 0)
    wp_calls = calls_to(f, lambda c: call_name(c) == 'WorkflowPlan')
    task_calls = calls_to(f, lambda c: call_name(c) == 'Task')
    if not wp_calls or not task_calls:
        raise AnalysisError('generate_plan no longer builds WorkflowPlan/Task directly')
    # ---- the node loop -------------------------------------------------
    tc = task_calls[0]
    loops = [l for l in enclosing_loops(f, tc) if isinstance(l, ast.For)]
    node_loop = None
    for l in loops:
        it = canon.p(l.iter, fr)
        m = re.fullmatch(r'(?:[\w.]+\.)?topological_sort\((.*)\)', it)
        if m and isinstance(l.target, ast.Name):
            node_loop, G = l, m.group(1)
            break
    if node_loop is None:
        lp = loops[0] if loops else None
        res.bad('C14.G1', f, lp or tc, 'tasks are not built in a loop over topological_sort(graph)',
                'the loop that builds the tasks iterates %s, not a topological sort of the '
                'workflow graph: tasks are not listed in topological order' % (
                    short(canon.p(lp.iter, fr)) if lp else 'nothing'))
        return
    NODE = 'elem(%s)' % canon.p(node_loop.iter, fr)

    def ab(s):
        return s.replace(NODE, 'NODE').replace(G, 'G')
    res.ok('C14.G1', f, node_loop, 'tasks are built in a loop over topological_sort(G)', ab(G))
    # ---- WorkflowPlan(...) arguments -----------------------------------
    for wp in wp_calls:
        a = bound_args(repo, 'WorkflowPlan.__init__', wp, fr)
        tasks_e, graph_e = a.get('tasks'), a.get('graph')
        if not isinstance(tasks_e, ast.Name):
            res.bad('C14.G1', f, wp, 'plan tasks is not the list built in the node loop',
                    'WorkflowPlan(tasks=%s)' % short(ast.unparse(tasks_e) if tasks_e else None))
            continue
        gp = canon.p(graph_e, fr) if graph_e is not None else 'None'
        m = None
        if isinstance(graph_e, ast.Name) or isinstance(graph_e, ast.Call):
            gcall = graph_e
            if isinstance(graph_e, ast.Name):
                defs = [n for n in ast.walk(f.node) if isinstance(n, ast.Assign) and any(
                    isinstance(t, ast.Name) and t.id == graph_e.id for t in n.targets)]
                gcall = defs[0].value if len(defs) == 1 else None
            if isinstance(gcall, ast.Call) and call_name(gcall) == 'relabel_nodes' and len(gcall.args) >= 2:
                if canon.p(gcall.args[0], fr) == G and isinstance(gcall.args[1], ast.Name):
                    m = gcall.args[1].id
                    copyflag = [k for k in gcall.keywords if k.arg == 'copy']
        if m is None:
            res.bad('C14.G1', f, wp, 'plan graph is not relabel_nodes(G, mapping)',
                    'the plan graph is %s: its edges are not those of the workflow graph '
                    'relabelled by the node->task mapping' % short(ab(gp)))
            continue
        res.ok('C14.G1', f, wp, 'plan graph = relabel_nodes(G, %s)' % m)
        # provenance form first: tasks = seq[T for topo(G)], mapping = map[node: T for topo(G)] with one
        # and the same Task(...) expression T -- however the two are put together
        topo = canon.p(node_loop.iter, fr)
        Pt = canon.p(tasks_e, fr)
        Pm = canon.p(ast.Name(id=m, ctx=ast.Load()), fr)
        from ..norm import split_seq
        st_ = split_seq(Pt)
        mm = re.fullmatch(r'map\[%s: (?P<v>.*) for %s\]' % (re.escape(NODE), re.escape(topo)), Pm)
        if st_ is not None and st_[1] == topo and not st_[2] and mm and mm.group('v') == st_[0] \
                and re.match(r'\{?(?:[\w.]+\.)?Task\(', st_[0]):
            res.ok('C14.G1', f, node_loop, 'one task per node: tasks = seq[Task(..) for topo(G)], mapping = map[node: Task(..)]',
                   short(ab(st_[0]), 80))
            res.ok('C14.G1', f, node_loop, 'task list in topological order, mapping keyed by the node')
            res.ok('C14.G1', f, node_loop, 'task list only appended to inside the node loop')
        else:
            check_node_loop(repo, canon, res, f, fr, node_loop, tasks_e.id, m, task_calls, ab, G, NODE)
    # ---- no value leaks from one node's iteration into the next ------------
    from .common import stale_reads
    st = stale_reads(f, node_loop)
    for name, node in st:
        res.bad('C14.G2', f, node, 'stale `%s` in the node loop' % name,
                'on some path through the node loop `%s` is read before it is assigned for this node (it is '
                'assigned only conditionally inside the loop): the value of a previous node leaks into this '
                'node\'s task' % name)
    if not st:
        res.ok('C14.G2', f, node_loop, 'every local read in the node loop is assigned for this node first')
    # ---- Task(...) arguments -------------------------------------------
    for tc in task_calls:
        check_task_args(repo, canon, res, f, fr, tc, node_loop, ab, G, NODE)
    # ---- G4: the workflow graph itself is what the file describes -----------------
    res.rule('C14.G4', 'the workflow graph is read with networkx node_link_graph from the file\'s "graph" entry (every node of '
                       'the file is a node of the graph, also one without edges)')
    for cand in repo.methods_named('_workflow_to_nx'):
        if not f.cls.is_subclass_of(cand.cls.name):
            continue
        wfr = Frame(cand)
        res.analysed(cand, 1)
        for r in [n for n in walk_no_nested(cand.node) if isinstance(n, ast.Return) and n.value is not None]:
            P = canon.p(r.value, wfr)
            if re.fullmatch(r"(?:[\w.]+\.)?node_link_graph\(.*json\.load\(.*\).*\['graph'\].*\)", P):
                res.ok('C14.G4', cand, r, 'graph <- node_link_graph(json.load(file)["graph"])')
            else:
                # a hand-made reader must add every node of the file, not only the end points of its edges
                adds_nodes = any(isinstance(x, ast.Call) and call_name(x) in ('add_node', 'add_nodes_from')
                                 for x in walk_no_nested(cand.node))
                if adds_nodes:
                    res.ok('C14.G4', cand, r, 'hand-made reader adds the nodes of the file (add_node/add_nodes_from)',
                           short(P, 80))
                else:
                    res.bad('C14.G4', cand, r, 'graph <- %s' % short(P, 80),
                            'the workflow graph is built as %s and no statement adds the nodes of the file as nodes '
                            '(set_node_attributes only touches nodes that exist): a node without edges is dropped and gets no '
                            'task' % short(P, 120))
    # ---- G5: the Task keeps what the plan gave it ---------------------------------
    from . import initial
    res.rule('C14.G5', 'Task.__init__ stores each planned value (id, demands, predecessors, edge volumes, graph node, window, '
                       'machine) exactly as it is given')
    initial.check_fields_from_params(
        repo, res, 'C14.G5', 'Task',
        {'id': 'tid', 'flops': 'flops', 'task_data': 'task_data', 'io': 'io', 'pred': 'predecessors', 'graph_id': 'gid',
         'est': 'est', 'eft': 'eft', 'allocated_machine_id': 'machine_id'},
        'the task no longer carries what the workflow graph says for its node (a truncated or swapped value changes its '
        'runtime, its transfer waits or its identity)')
    # ... and so does the plan: the task list in the order given (topological), the graph, the order
    initial.check_fields_from_params(
        repo, res, 'C14.G5', 'WorkflowPlan',
        {'tasks': 'tasks', 'exec_order': 'exec_order', 'graph': 'graph', 'id': 'id', 'est': 'est', 'eft': 'eft',
         'status': 'status', 'max_ingest': 'max_ingest'},
        'the plan no longer lists what the planner built in the order it built it (the task list is topological because '
        'the planner appends in topological order; re-sorting or filtering it in the constructor breaks that)',
        accept=_stable_by_start)
    # ---- G3 --------------------------------------------------------------
    for q, role, other in (('WorkflowPlan.get_task_predecessors', PRED_ROLE, SUCC_ROLE),
                           ('WorkflowPlan.get_task_successors', SUCC_ROLE, PRED_ROLE)):
        g = repo.func(q)
        res.analysed(g, 1)
        rets = [n for n in ast.walk(g.node) if isinstance(n, ast.Return) and n.value is not None]
        if not rets:
            res.bad('C14.G3', g, g.node, 'no value returned', '%s returns nothing' % q)
        for r in rets:
            prov = canon.p(r.value, Frame(g))
            used = set(re.findall(r'\.(\w+)', prov))
            on_graph = 'graph' in prov
            if used & other or not (used & role) or not on_graph:
                res.bad('C14.G3', g, r, 'return %s' % short(prov),
                        '%s answers with %s: p precedes t iff t succeeds p no longer holds' % (
                            q, short(prov)))
            else:
                res.ok('C14.G3', g, r, '%s queries graph.%s' % (q, sorted(used & role)[0]))


def check_node_loop(repo, canon, res, f, fr, loop, tasks_name, map_name, task_calls, ab, G, NODE):
    nodevar = loop.target.id
    segs = iteration_segments(f, loop)
    n_ok = 0
    for seg, how in segs:
        if how == 'raise':
            continue
        appends, stores, others = [], [], []
        for e, _efs in effects_along(canon, seg):
            for ef in _efs:
                if ef.loc == tasks_name:
                    (appends if ef.kind == 'append' else others).append(ef)
                elif ef.loc == map_name and ef.kind == 'store':
                    stores.append(ef)
                elif ef.loc == map_name and ef.kind not in ('assign',):
                    others.append(ef)
        line = seg[0].line if seg else loop.lineno
        if how != 'back':
            res.bad('C14.G1', f, loop, 'node loop left by %s' % how,
                    'an iteration of the node loop can end by %s: later nodes get no task' % how)
            continue
        if len(appends) != 1 or others:
            res.bad('C14.G1', f, loop, 'per node: %d append(s) to the task list' % len(appends),
                    'on some path through one iteration the task list receives %d tasks '
                    '(or is reordered): not exactly one task per graph node' % len(appends),
                    path=[repr(e) for e in seg if e.kind == 'test'])
            continue
        if len(stores) != 1 or stores[0].arg != nodevar:
            res.bad('C14.G1', f, loop, 'per node: mapping[node] set %d time(s)' % len(stores),
                    'the node->task mapping used for relabelling is not set exactly once '
                    'for the node of this iteration',
                    path=[repr(e) for e in seg if e.kind == 'test'])
            continue
        tv, mv = canon.p(appends[0].value, fr), canon.p(stores[0].value, fr)
        av = appends[0].value
        if isinstance(av, ast.Subscript) and isinstance(av.value, ast.Name) and av.value.id == map_name and isinstance(
                av.slice, ast.Name) and av.slice.id == nodevar:
            tv = mv          # the task appended is read back from the entry just stored for this node
        if tv != mv or not tv.startswith('Task('):
            res.bad('C14.G1', f, appends[0].node, 'appended task differs from mapped task',
                    'the task appended (%s) is not the Task mapped to the node (%s)' % (
                        short(ab(tv), 60), short(ab(mv), 60)))
            continue
        n_ok += 1
    if n_ok:
        res.ok('C14.G1', f, loop, 'every iteration: one append, one mapping[node] = the same Task',
               '%d iteration paths' % n_ok)
    # no mutation of the task list outside the loop
    inside = {id(n) for n in ast.walk(loop)}
    bad = []
    for n in ast.walk(f.node):
        if isinstance(n, ast.Call) and isinstance(n.func, ast.Attribute) and isinstance(
                n.func.value, ast.Name) and n.func.value.id == tasks_name and id(n) not in inside \
                and n.func.attr in ('sort', 'reverse', 'insert', 'pop', 'remove', 'clear',
                                    'extend', 'append'):
            bad.append(n)
        if isinstance(n, ast.Assign) and id(n) not in inside and any(
                isinstance(t, ast.Name) and t.id == tasks_name for t in n.targets) and not (
                isinstance(n.value, ast.List) and not n.value.elts):
            bad.append(n)
    if bad:
        res.bad('C14.G1', f, bad[0], 'task list changed outside the node loop',
                'the task list is reordered or changed after the node loop (%s)' % short(
                    ast.unparse(bad[0])))
    else:
        res.ok('C14.G1', f, loop, 'task list only appended to inside the node loop')


def check_task_args(repo, canon, res, f, fr, tc, loop, ab, G, NODE):
    a = bound_args(repo, 'Task.__init__', tc, fr)
    P = {k: canon.p(v, fr) for k, v in a.items()}

    def idcall(x):
        return r'[\w.]*_create_observation_task_id\(%s, observation, clock\)' % re.escape(x)
    preds_src = [G + '.predecessors(' + NODE + ')', G + '.pred[' + NODE + ']']

    def verdict(param, ok, want, why):
        got = short(ab(P.get(param, '<missing>')), 140)
        if ok:
            res.ok('C14.G2', f, tc, 'Task.%s <- %s' % (param, want), got)
        else:
            res.bad('C14.G2', f, tc, 'Task.%s <- %s' % (param, want),
                    'Task argument %s is %s; %s' % (param, got, why))
    # tid
    verdict('tid', re.fullmatch(idcall(NODE), P.get('tid', '')) is not None,
            'task id of this node', 'the task identifier is not derived from this node')
    # the id helper itself
    m = re.match(r'([\w.]*_create_observation_task_id)\(', P.get('tid', ''))
    helper = None
    for cand in repo.methods_named('_create_observation_task_id'):
        if f.cls.is_subclass_of(cand.cls.name):
            helper = cand
    if helper is not None:
        hfr = Frame(helper)
        rets = [n for n in ast.walk(helper.node) if isinstance(n, ast.Return) and n.value is not None]
        for r in rets:
            hp = canon.p(r.value, hfr)
            missing = [t for t in ('observation.name', 'clock', helper.params[1])
                       if re.search(r'(?<![\w.])%s(?![\w])' % re.escape(t), hp) is None]
            what = 'task id = observation name + clock + node'
            if missing or not _is_concat(r.value):
                res.bad('C14.G2', helper, r, what,
                        'the task identifier %s does not carry %s: identifiers are not unique '
                        'per node / do not carry the observation name' % (short(hp), missing or 'a concatenation'))
            else:
                res.ok('C14.G2', helper, r, what, short(hp))
        # the identifier is a function of (node, observation, clock) alone: no instance state
        # read or written (a cache keyed on less than all three gives one id to two tasks)
        state = []
        for n in ast.walk(helper.node):
            if isinstance(n, ast.Attribute) and isinstance(n.value, ast.Name) and n.value.id == 'self' \
                    and not repo.methods_named(n.attr):
                state.append(n)
        if state:
            n = state[0]
            res.bad('C14.G2', helper, n, 'task id is a function of its arguments only',
                    'the task identifier depends on instance state self.%s (%s): two tasks planned '
                    'through the same model can receive the same or a foreign identifier' % (
                        n.attr, 'written' if isinstance(n.ctx, ast.Store) else 'read'))
        else:
            res.ok('C14.G2', helper, helper.node, 'task id is a function of its arguments only')
        res.analysed(helper, 1)
    # predecessors
    okp = any(re.fullmatch(r'seq\[%s for %s\]' % (idcall('elem(%s)' % s), re.escape(s)),
                           P.get('predecessors', '')) for s in preds_src)
    verdict('predecessors', okp, 'ids of G.predecessors(NODE)',
            'the predecessor list is not the ids of exactly the graph predecessors of this node')
    verdict('flops', P.get('flops') == "%s.nodes[%s]['comp']" % (G, NODE), "G.nodes[NODE]['comp']",
            'the compute demand is not read from this node')
    td = "%s.nodes[%s]['task_data']" % (G, NODE)
    # the same statement in both arms of `if 'task_data' in G.nodes[NODE]` (a conditional default
    # spelled out): the literal 0 is right exactly where the node has no such attribute
    from ..index import guard_stack as _gs
    absent = False
    for g_ in (_gs(f.node, tc) or []):
        if g_[0] == 'if':
            t_, pol_ = g_[1], g_[2]
            while isinstance(t_, ast.UnaryOp) and isinstance(t_.op, ast.Not):
                t_, pol_ = t_.operand, not pol_
            if isinstance(t_, ast.Compare) and len(t_.ops) == 1 and isinstance(t_.ops[0], (ast.In, ast.NotIn)) \
                    and isinstance(t_.left, ast.Constant) and t_.left.value == 'task_data' \
                    and canon.p(t_.comparators[0], fr) == '%s.nodes[%s]' % (G, NODE):
                has = pol_ if isinstance(t_.ops[0], ast.In) else not pol_
                absent = not has
    verdict('task_data', P.get('task_data') in (td, '{0|%s}' % td, "%s.nodes[%s].get('task_data', 0)" % (G, NODE)) or (
        absent and P.get('task_data') == '0'),
            "G.nodes[NODE]['task_data'] (default 0)", 'the data demand is not read from this node')
    # io: the per-edge volumes, as a map built over the in-edges of this node
    io = a.get('io')
    P_io = canon.p(io, fr) if io is not None else '<missing>'
    ok = False
    why = 'the per-edge transfer volumes are not a map {id(p): volume of edge p->node} over the in-edges of this node'
    m = re.fullmatch(r'map\[(?P<k>.*): (?P<v>.*) for (?P<it>.*?)(?P<c> if .*)?\]', P_io)
    if m and not m.group('c'):
        it = m.group('it')
        if it in preds_src:
            E = 'elem(%s)' % it
            kk, vv = m.group('k'), m.group('v')
            wantv = ["%s.pred[%s][%s]['transfer_data']" % (G, NODE, E),
                     "%s[%s]['transfer_data']" % (it, E),
                     "%s[%s][%s]['transfer_data']" % (G, E, NODE),
                     "%s.edges[%s, %s]['transfer_data']" % (G, E, NODE),
                     "%s.edges[(%s, %s)]['transfer_data']" % (G, E, NODE)]
            if re.fullmatch(idcall(E), kk) is None:
                why = 'edge cost key %s is not the id of the predecessor' % short(ab(kk))
            elif vv not in wantv:
                why = 'edge cost value %s is not the transfer volume of the edge pred->node' % short(ab(vv))
            else:
                ok = True
        else:
            why = 'edge costs are collected over %s, not over the in-edges of this node' % short(ab(it))
    elif m:
        why = 'an incoming edge can be skipped when collecting transfer volumes (%s)' % short(ab(m.group('c')))
    # the container must be created for each node (not shared between nodes)
    if ok and isinstance(io, ast.Name):
        defs = [n for n in ast.walk(f.node) if isinstance(n, ast.Assign) and any(
            isinstance(t, ast.Name) and t.id == io.id for t in n.targets)]
        inside = {id(n) for n in ast.walk(loop)}
        if not defs or not all(id(n) in inside for n in defs):
            ok, why = False, 'the edge-cost dictionary is not created for each node (values of other nodes leak in)'
    P['io'] = P_io
    verdict('io', ok, "{id(p): G.pred[NODE][p]['transfer_data']}", why)


def _is_concat(v):
    return isinstance(v, (ast.BinOp, ast.JoinedStr)) or (
        isinstance(v, ast.Call) and isinstance(v.func, ast.Attribute) and v.func.attr in ('join', 'format'))
