"""C06 -- task runtime equals work over machine speed, at least one step.

W1 runtime formula (affine/floor normal form) and its use in do_work
W2 time effect of do_work: (sum of waits after ast) + (aft - now) == max(1, total)
W3 total comes only from the delay model applied to the duration, or the duration
W4 ingest tasks: duration = observation.duration, no work, no delay model
"""
import ast

from ..index import AnalysisError, walk_no_nested
from ..norm import (Affine, Canon, Lit, Logic, ProvCanon, affine, distribute_const, lit_lt,
                    minmax_term)
from ..paths import Frame, cached_paths
from .common import bound_args, call_name, iteration_segments, path_must, returned_affine, short

FLOORS = {'C06.W1': 2, 'C06.W2': 1, 'C06.W3': 3, 'C06.W4': 3}

FORMULA = 'max(int(self.flops / machine.cpu), int(self.task_data / machine.bandwidth))'


def check(repo, res, tier):
    canon = ProvCanon(repo)
    logic = Logic(canon)
    res.rule('C06.W1', 'calculate_runtime(machine) == max(floor(flops/cpu), floor(task_data/bandwidth)); '
                       'do_work recomputes the duration on the machine it was given')
    res.rule('C06.W2', 'on every path of do_work: waits after the recorded start + (aft - now) == total '
                       'when total >= 1, == 1 when total < 1')
    res.rule('C06.W3', '_calc_task_delay returns delay.generate_delay(self.duration) or self.duration')
    res.rule('C06.W4', 'ingest tasks: flops = task_data = 0, no delay model, duration = observation.duration')
    from . import c14
    from .common import borrow
    res.rule('C06.W5', 'adopted C14.G2: the compute and data demand a task carries are those of its own workflow node')
    borrow(repo, res, tier, c14, {'C14.G2', 'C14.G5'}, 'C06.W5')
    from . import c16
    res.rule('C06.W6', 'adopted C16.K2: machine speed and bandwidth are scaled to the configured timestep like every other rate')
    borrow(repo, res, tier, c16, {'C16.K2'}, 'C06.W6')
    res.assumptions += ['demands and speeds are non-negative, so int(a/b) == floor(a/b)',
                        'SimPy: a process resumes exactly timeout units after yielding env.timeout(t)']
    # ---- W1 ----------------------------------------------------------------
    f = repo.func('Task.calculate_runtime')
    fr = Frame(f)
    res.analysed(f, 1)
    want_expr = ast.parse(FORMULA.replace('machine', f.params[1]), mode='eval').body
    want = affine(canon, want_expr, fr)
    rets = [n for n in walk_no_nested(f.node) if isinstance(n, ast.Return) and n.value is not None]
    if not rets:
        res.bad('C06.W1', f, f.node, 'no return', 'calculate_runtime returns nothing')
    merged = returned_affine(canon, f, fr)
    if merged is not None and merged == want and rets:
        res.ok('C06.W1', f, rets[0], 'calculate_runtime == max(floor(flops/cpu), floor(data/bandwidth))',
               '%r (merged over the paths of the function)' % merged)
        rets = []
    for r in rets:
        got = affine(canon, r.value, fr)
        (res.ok if got == want else res.bad)(
            'C06.W1', f, r, 'calculate_runtime == max(floor(flops/cpu), floor(data/bandwidth))',
            repr(got) if got == want else 'the runtime is %s, not %s' % (short(repr(got), 150), repr(want)))
    d = repo.func('Task.do_work')
    dfr = Frame(d)
    dpaths = cached_paths(d)
    res.analysed(d, len(dpaths))
    mparam = d.params[2]
    recomputes = [n for n in walk_no_nested(d.node) if isinstance(n, ast.Assign) and any(
        isinstance(t, ast.Attribute) and t.attr == 'duration' and isinstance(t.value, ast.Name)
        and t.value.id == 'self' for t in n.targets)]
    ok_rec = False
    for n in recomputes:
        v = n.value
        if isinstance(v, ast.Call) and call_name(v) == 'calculate_runtime' and v.args and \
                isinstance(v.args[0], ast.Name) and v.args[0].id == mparam:
            ok_rec = True
            res.ok('C06.W1', d, n, 'do_work: duration = calculate_runtime(<the machine given>)')
        else:
            res.bad('C06.W1', d, n, short(ast.unparse(n)),
                    'do_work sets the duration to %s, not the runtime on the machine it runs on' % short(ast.unparse(v)))
    if not ok_rec and not recomputes:
        res.bad('C06.W1', d, d.node, 'duration not recomputed', 'do_work no longer computes the '
                'runtime from the work and the speed of its machine')
    # the recompute happens whenever there is work: its guard is (flops > 0) or (task_data > 0)
    work = {lit_lt(0, 'Task.flops'), lit_lt(0, 'Task.task_data')}
    for n in recomputes:
        for p in dpaths:
            idx = [i for i, e in enumerate(p.events) if e.node is n]
            if not idx:
                continue
            tests = [e for e in p.events[:idx[0]] if e.kind == 'test' and any(
                x is n for x in ast.walk(e.extra)) and e.pol]
            for t in tests:
                alts = logic.dnf(t.node, t.frame, True)
                if not all(set(a) & work for a in alts):
                    res.bad('C06.W4', d, t.node, 'recompute guard %s' % short(ast.unparse(t.node)),
                            'the duration is recomputed also for tasks without work: an ingest task '
                            'would lose its observation duration')
            break
    # tasks WITH work must take the recompute: paths skipping it have no-work literals
    for p in dpaths:
        if recomputes and not any(e.node is recomputes[0] for e in p.events):
            must = path_must(logic, p)
            if not ({w.neg() for w in work} <= must):
                res.bad('C06.W1', d, recomputes[0], 'recompute skipped',
                        'a task with work can skip the runtime computation', path=p.describe())
                break
    else:
        if recomputes:
            res.ok('C06.W1', d, recomputes[0], 'every path without the recompute has flops <= 0 and task_data <= 0')
    # ---- W2 ----------------------------------------------------------------
    total = Affine({'Task._calc_task_delay()': 1})
    one = Affine({}, 1)
    seen = {}
    for p in dpaths:
        started = False
        X = Affine()
        k = None
        node_aft = None
        lenv = {}
        for e in p.events:
            if e.kind != 'stmt':
                continue
            n = e.node
            if isinstance(n, ast.Assign) and len(n.targets) == 1 and isinstance(n.targets[0], ast.Name):
                nm_ = n.targets[0].id
                if sum(1 for x in walk_no_nested(d.node) if isinstance(x, ast.Assign) and any(
                        isinstance(t, ast.Name) and t.id == nm_ for t in x.targets)) > 1:
                    lenv[nm_] = affine(canon, n.value, dfr, lenv)
            if isinstance(n, ast.Assign) and len(n.targets) == 1 and canon.c(n.targets[0], dfr) == 'Task.ast':
                if canon.c(n.value, dfr) != 'env.now':
                    res.bad('C06.W2', d, n, short(ast.unparse(n)), 'the recorded start is not the current time')
                started, X = True, Affine()
            elif isinstance(n, ast.Assign) and len(n.targets) == 1 and canon.c(n.targets[0], dfr) == 'Task.aft':
                k = affine(canon, n.value, dfr) - Affine({'env.now': 1})
                node_aft = n
            for y in ast.walk(n):
                if isinstance(y, ast.Yield) and started and k is None:
                    v = y.value
                    if isinstance(v, ast.Call) and call_name(v) == 'timeout' and v.args:
                        X = X + affine(canon, v.args[0], dfr, lenv or None)
                    else:
                        raise AnalysisError('do_work waits on %s, which the time-effect rule cannot sum' % (
                            ast.unparse(y)))
        if p.exit == 'raise':
            continue
        if not started or k is None:
            res.bad('C06.W2', d, d.node, 'path without start/finish record',
                    'a path of do_work does not record ast and aft', path=p.describe())
            continue
        eff = distribute_const(X + k)
        must = path_must(logic, p)
        small = lit_lt('Task._calc_task_delay()', 1)
        if small in must:
            exp, case = one, 'total < 1'
        elif small.neg() in must:
            exp, case = total, 'total >= 1'
        else:
            exp, case = minmax_term('max', [one, total]), 'unguarded'
        key = (repr(eff), case)
        if key in seen:
            continue
        seen[key] = True
        what = 'aft - ast on paths with %s' % case
        if eff == exp:
            res.ok('C06.W2', d, node_aft, what, '= %r' % eff)
        else:
            res.bad('C06.W2', d, node_aft, what,
                    'a task with %s occupies its machine for %r timesteps (recorded aft - ast), '
                    'expected %r' % (case, eff, exp), path=p.describe())
    # ---- W3 ----------------------------------------------------------------
    g = repo.func('Task._calc_task_delay')
    gfr = Frame(g)
    res.analysed(g, 2)
    allowed = {'Task.delay.generate_delay(Task.duration)', 'Task.duration'}
    for r in [n for n in walk_no_nested(g.node) if isinstance(n, ast.Return)]:
        P = canon.p(r.value, gfr) if r.value is not None else 'None'
        (res.ok if P in allowed else res.bad)(
            'C06.W3', g, r, 'total <- delay model applied to the duration, or the duration',
            P if P in allowed else 'the actual duration is %s: lengthened or shortened by something '
            'other than the delay model' % short(P))
    # ... and the plain duration is the answer only when there is no delay model (whatever else the
    # path has tested -- a runtime below one step, a zero demand -- the model is still asked)
    plg = Logic(ProvCanon(repo))
    for p in cached_paths(g):
        rets = [e for e in p.events if e.kind == 'stmt' and isinstance(e.node, ast.Return)]
        if p.exit != 'return' or not rets or rets[0].node.value is None:
            continue
        if canon.p(rets[0].node.value, gfr) != 'Task.duration':
            continue
        must = {(l.atom, l.pol) for l in path_must(plg, p)}
        if ('None == Task.delay', True) in must or ('truthy(Task.delay)', False) in must:
            res.ok('C06.W3', g, rets[0].node, 'the plain duration is returned only without a delay model')
        else:
            res.bad('C06.W3', g, rets[0].node, 'the plain duration is returned only without a delay model',
                    '_calc_task_delay answers with the plain duration on a path where the task HAS a delay model (the path only '
                    'establishes %s): the model is not asked and a delay it would add is lost' % (
                        short(' & '.join('%s%s' % ('' if pol else 'not ', a) for a, pol in sorted(must)) or 'nothing', 120)),
                    path=p.describe())
    # total in do_work must be that call, unmodified
    tot_names = [n for n in walk_no_nested(d.node) if isinstance(n, ast.Assign) and isinstance(
        n.value, ast.Call) and call_name(n.value) == '_calc_task_delay']
    if not tot_names:
        res.bad('C06.W3', d, d.node, 'total not from _calc_task_delay', 'do_work does not ask the delay model')
    # the delay is applied to the duration on THIS machine: the recompute precedes the delay call
    okorder = True
    for p in dpaths:
        ir = [i for i, e in enumerate(p.events) if any(e.node is r for r in recomputes)]
        it = [i for i, e in enumerate(p.events) if any(e.node is t for t in tot_names)]
        if ir and it and min(it) < max(ir):
            okorder = False
    if tot_names and recomputes:
        (res.ok if okorder else res.bad)(
            'C06.W3', d, tot_names[0], 'the duration is recomputed for the actual machine before the delay model is applied',
            'ok' if okorder else 'the total duration is taken from the delay model BEFORE the duration is recomputed for the '
            'machine the task really runs on: a task moved to a faster (slower) machine still runs its planned duration')
    # ---- W4 ----------------------------------------------------------------
    ig = repo.func('Cluster._generate_ingest_tasks')
    ifr = Frame(ig)
    res.analysed(ig, 0)
    tcalls = [n for n in walk_no_nested(ig.node) if isinstance(n, ast.Call) and call_name(n) == 'Task']
    if not tcalls:
        raise AnalysisError('_generate_ingest_tasks builds no Task')
    for tc in tcalls:
        a = bound_args(repo, 'Task.__init__', tc, ifr)
        for prm, want_v in (('flops', '0'), ('task_data', '0'), ('delay', 'None')):
            got = canon.p(a[prm], ifr) if prm in a else repr(
                ast.literal_eval(repo.func('Task.__init__').defaults[prm])) if prm in repo.func(
                'Task.__init__').defaults else '?'
            (res.ok if got == want_v else res.bad)(
                'C06.W4', ig, tc, 'ingest Task.%s == %s' % (prm, want_v),
                got if got == want_v else 'ingest tasks are built with %s=%s: do_work would recompute '
                'or delay them' % (prm, got))
    from .common import enclosing_loops
    loops = enclosing_loops(ig, tcalls[0])
    if loops:
        okd = True
        segs = iteration_segments(ig, loops[-1])
        for seg, how in segs:
            sets = [e.node for e in seg if e.kind == 'stmt' and isinstance(e.node, ast.Assign) and any(
                isinstance(t, ast.Attribute) and t.attr == 'duration' for t in e.node.targets)]
            if how != 'back' or len(sets) != 1 or canon.p(sets[0].value, ifr) != 'observation.duration' \
                    or canon.p(sets[0].targets[0].value, ifr) != canon.p(tcalls[0], ifr):
                okd = False
        (res.ok if okd else res.bad)(
            'C06.W4', ig, loops[-1], 'every ingest task gets duration = observation.duration',
            'ok' if okd else 'an ingest task can be created without duration = observation.duration')
    else:
        res.bad('C06.W4', ig, tcalls[0], 'ingest tasks not built in a loop', 'unexpected shape')
