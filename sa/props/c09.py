"""C09 -- batch reservations are exclusive, bounded and released.

R1 every machine BatchProcessing proposes comes from cluster.get_idle_resources(plan.id), under `provision`
R2 provisioning happens once per observation, bounded: not already provisioned AND live reservations <
   partitions AND size >= minimum; the size is floor(machines / partitions) capped by availability, or the
   per-observation split (never below its minimum)
R3 exclusivity (adopted): foreign-reserved machines are refused (C01.N5), ingest draws from `available`
   only (C01.N3), a reserved machine leaves `available` (C02.P2)
R4 owner return: a finished task's machine goes back to idle[obs] while the reservation exists
R5 release at workflow end (C05.L3) and the reservation count follows the idle table (C02.P4)
"""
import ast

from ..index import AnalysisError, walk_no_nested
from ..norm import Affine, Canon, Lit, Logic, ProvCanon, affine, effects_of_event, path_effects, lit_le, lit_lt, minmax_term
from ..paths import Frame, cached_paths, expanded_paths, feasible
from ..skel import outcomes
from . import cluster_units as CU
from .c17 import map_stores, returned_map_name
from .common import bound_args, borrow, call_name, enclosing_loops, path_must, reaching_value, short, stmt_contains

FLOORS = {'C09.R1': 2, 'C09.R2': 5, 'C09.R4': 1, 'C09.R7': 1}

IDLE = "Cluster._resources['idle']"


def check(repo, res, tier):
    canon = Canon(repo)
    pc = ProvCanon(repo)
    logic = Logic(canon)
    plogic = Logic(pc)
    res.rule('C09.R1', 'allocations[t] <- cluster.get_idle_resources(workflow_plan.id)[i], only when provisioned')
    res.rule('C09.R2', 'provision_batch_resources is called only if not provisioned, partitions free and size >= minimum; '
                       'size = int(len(cluster)/partitions) capped by availability, or min(available, max) when available >= min')
    res.rule('C09.R3', 'exclusivity: adopted from C01.N3, C01.N5, C02.P2')
    res.rule('C09.R4', '_set_machine_available returns the machine to idle[obs] while obs is still reserved')
    res.rule('C09.R5', 'release at workflow end and reservation count: adopted from C05.L3, C02.P4')
    r1(repo, res, canon, pc, logic)
    r2(repo, res, canon, pc, logic, plogic)
    r4(repo, res, canon, logic)
    r7(repo, res, canon)
    from . import c01, c02, c05
    borrow(repo, res, tier, c01, {'C01.N3', 'C01.N5'}, 'C09.R3')
    borrow(repo, res, tier, c02, {'C02.P2', 'C02.P4'}, 'C09.R3')
    borrow(repo, res, tier, c05, {'C05.L3'}, 'C09.R5')
    from . import c04
    res.rule('C09.R6', 'adopted C04.T2: a task is FINISHED only once the cluster has taken its machine back -- reported '
                       'earlier, the algorithm releases the reservation while a reserved machine is still busy, the entry '
                       'survives the release and is never dropped')
    borrow(repo, res, tier, c04, {'C04.T2'}, 'C09.R6')
    res.rule('C09.R8', 'adopted C04.T3: the list of remaining tasks the algorithm sees holds exactly the unfinished tasks (an '
                       'unfinished task missing from it makes the plan look complete: the reservation is released while that '
                       'task still runs on a reserved machine)')
    borrow(repo, res, tier, c04, {'C04.T3'}, 'C09.R8')


def r1(repo, res, canon, pc, logic):
    f = repo.func('BatchProcessing.run')
    fr = Frame(f)
    paths = cached_paths(f)
    res.analysed(f, len(paths))
    m = returned_map_name(f)
    if m is None:
        raise AnalysisError('BatchProcessing.run does not return a named allocation map')
    stores, others = map_stores(f, m)
    plan = f.params[3]
    src = "%s[%s.id]" % (IDLE, plan)
    # locals that hold the verdict of _provision_resources (whatever they are called)
    ldefs = {}
    for n in walk_no_nested(f.node):
        if isinstance(n, ast.Assign):
            for t in n.targets:
                if isinstance(t, ast.Name):
                    ldefs.setdefault(t.id, []).append(n)
    flags = set()
    for nm, ds in ldefs.items():
        real_ = [d for d in ds if not isinstance(d.value, ast.Constant)]
        if real_ and all(isinstance(d.value, ast.Call) and call_name(d.value) == '_provision_resources' for d in real_) \
                and all(d.value.value in (False, None) for d in ds if isinstance(d.value, ast.Constant)):
            flags.add(nm)
    if not stores:
        res.bad('C09.R1', f, None, 'no allocation store', 'BatchProcessing never proposes an allocation')
    for n, k, v in stores:
        V = pc.p(v, fr)
        # an element of the reserved list: src[i] or src.pop(i); "src or an empty list" has the same elements
        V2 = V.replace('{%s|[]}' % src, src).replace('{[]|%s}' % src, src)
        ok = (V2.startswith(src + '[') and V2.endswith(']')) or (V2.startswith(src + '.pop(') and V2.endswith(')'))
        what = 'allocations[t] at line %d <- reserved machines of this workflow' % n.lineno
        if not ok:
            res.bad('C09.R1', f, n, what, 'BatchProcessing proposes %s, which is not one of the machines reserved for '
                    'this observation (%s): the task can run outside its reservation' % (short(V, 120), src))
            continue
        # under `provision` (the result of _provision_resources)
        okp = True
        for p in paths:
            for i, e in enumerate(p.events):
                if e.node is n:
                    must = path_must(logic, p, i, depth=0)
                    if not any(l.pol and l.atom.startswith('truthy(') and (
                            l.atom[7:-1] in flags or '._provision_resources(' in l.atom) for l in must):
                        okp = False
        (res.ok if okp else res.bad)('C09.R1', f, n, what, short(V, 100) if okp else
                                     'the allocation is made on a path that has not established that the observation is provisioned')
    # `provision` is the verdict of _provision_resources
    real = [d for nm in sorted(flags) for d in ldefs[nm] if not isinstance(d.value, ast.Constant)]
    okd = bool(flags)
    (res.ok if okd else res.bad)('C09.R1', f, real[0] if real else None, '`provision` is the verdict of _provision_resources',
                                 'ok' if okd else 'the provisioned flag no longer comes from _provision_resources')


def r2(repo, res, canon, pc, logic, plogic):
    f = repo.func('BatchProcessing._provision_resources')
    fr = Frame(f)
    paths = cached_paths(f)
    res.analysed(f, len(paths))
    plan = f.params[2]
    calls = [n for n in walk_no_nested(f.node) if isinstance(n, ast.Call) and call_name(n) == 'provision_batch_resources']
    if not calls:
        res.bad('C09.R2', f, None, 'no provisioning call', '_provision_resources never reserves machines')
        return
    c = calls[0]
    a = bound_args(repo, 'Cluster.provision_batch_resources', c, fr)
    size = a.get('size')
    name = pc.p(a.get('name'), fr)
    need = {
        'not already provisioned': lambda must: any(
            (not l.pol) and l.atom in ('truthy(Cluster.is_observation_provisioned(%s.id))' % plan,
                                       '%s.id in %s' % (plan, IDLE)) for l in must),
        'a partition is free': lambda must: lit_lt('Cluster.num_provisioned_obs', 'BatchProcessing.max_resources_split') in must,
        'size >= per-workflow minimum': lambda must: lit_lt(
            pc.p(size, fr), 'BatchProcessing.min_resource_per_workflow').neg() in must,
    }
    for label, test in need.items():
        ok = True
        wp = None
        for p in paths:
            for i, e in enumerate(p.events):
                if stmt_contains(e, lambda x: x is c):
                    must = path_must(plogic, p, i, depth=0)
                    if not test(must):
                        ok, wp = False, p
        what = 'provision_batch_resources called only if %s' % label
        (res.ok if ok else res.bad)('C09.R2', f, c, what, 'ok' if ok else
                                    'machines are reserved on a path that has not established "%s": more reservations, '
                                    'or smaller ones, than configured' % label, **({} if ok else {'path': wp.describe()}))
    okn = name == '%s.id' % plan
    (res.ok if okn else res.bad)('C09.R2', f, c, 'the reservation is keyed by workflow_plan.id',
                                 'ok' if okn else 'the reservation is keyed by %s' % name)
    # already provisioned -> True without provisioning again
    g = repo.func('Cluster.is_observation_provisioned')
    outs = outcomes(logic, g)
    res.analysed(g, len(outs))
    o = g.params[1]
    okp = all((Lit('%s in %s' % (o, IDLE), True) in x.lits) == (x.result == 'T') for x in outs) and bool(outs)
    (res.ok if okp else res.bad)('C09.R2', g, None, 'is_observation_provisioned(o) <=> o is a key of the idle table',
                                 'ok' if okp else 'an observation whose reserved machines are all busy (or none idle) '
                                 'is reported as not provisioned and is provisioned a second time')
    # ---- size -------------------------------------------------------------
    h = repo.func('BatchProcessing._max_resource_provision')
    hfr = Frame(h)
    hp = cached_paths(h)
    res.analysed(h, len(hp))
    cl = h.params[1]
    avail = "len(Cluster._resources['available'])"
    okb = True
    why = ''
    n_ret = 0
    for p in hp:
        if p.exit == 'raise':
            continue
        rets = [(i, e.node) for i, e in enumerate(p.events) if e.kind == 'stmt' and isinstance(e.node, ast.Return)]
        if not rets:
            continue
        i, r = rets[-1]
        must = path_must(plogic, p, i, depth=0)
        split = Lit('truthy(BatchProcessing.resource_split)', True) in must
        v = r.value
        from .common import path_affine_env
        A = affine(pc, v, p.events[i].frame, path_affine_env(pc, p, p.events[i].frame, i))
        n_ret += 1
        if A.is_const() and A.const == 0:
            continue
        if split:
            mn = 'BatchProcessing.resource_split[%s.id][0]' % h.params[2]
            # non-zero result: available >= the observation's own minimum, result = min(available, max)
            ge_min = lit_lt(avail, mn).neg() in must
            mxl = 'BatchProcessing.resource_split[%s.id][1]' % h.params[2]
            shape = A == minmax_term('min', [Affine({avail: 1}), Affine({mxl: 1})])
            if not ge_min:
                okb, why = False, ('with a per-observation split a non-zero reservation is returned without having '
                                   'established available >= the observation\'s own minimum')
            elif not shape:
                okb, why = False, 'the split reservation is %r, not min(available, the observation\'s maximum)' % A
        else:
            mx = 'int((len(Cluster.machines))/(BatchProcessing.max_resources_split))'
            s = repr(A)
            allowed_max = {'floor((len(Cluster.machines))/(BatchProcessing.max_resources_split))',
                           'floor((len(Cluster))/(BatchProcessing.max_resources_split))',
                           'floor((len(%s))/(BatchProcessing.max_resources_split))' % cl}
            if any(A == minmax_term('min', [Affine({avail: 1}), Affine({m_: 1})]) for m_ in allowed_max):
                pass      # min(available, floor(machines/partitions)) says the same in one expression
            elif s == avail:
                # capped by availability: must be below the partition size
                if not any(lit_lt(avail, m_) in must for m_ in allowed_max):
                    okb, why = False, 'the reservation equals all available machines without being below floor(machines/partitions)'
            elif s not in allowed_max:
                okb, why = False, 'the reservation size is %s, not floor(machines / partitions) capped by availability' % s
    (res.ok if okb and n_ret else res.bad)('C09.R2', h, None,
                                           'reservation size = floor(machines/partitions) capped by availability, or the per-observation split',
                                           'ok' if okb and n_ret else why or 'no size returned')
    # Cluster.__len__ is the machine count
    ln = repo.func('Cluster.__len__')
    okl = any(isinstance(n, ast.Return) and canon.c(n.value, Frame(ln)) == 'len(Cluster.machines)'
              for n in walk_no_nested(ln.node))
    (res.ok if okl else res.bad)('C09.R2', ln, None, 'len(cluster) is the number of machines', 'ok' if okl else 'len(cluster) changed')
    # provision_batch_resources takes at most `size` machines from available
    pb = repo.func('Cluster.provision_batch_resources')
    pfr = Frame(pb)
    adds = [n for n in walk_no_nested(pb.node) if isinstance(n, ast.Call) and call_name(n) == '_add_idle_resource']
    loops = [l for l in (enclosing_loops(pb, adds[0]) if adds else []) if isinstance(l, ast.For)]
    oks = False
    if loops:
        # how many machines: the loop runs over range(N), over [free[i] for i in range(N)] or over free[:N]
        from ..paths import assigned_names
        from .common import path_affine_env

        def count_of(it, d=0):
            if d > 4:
                return None
            if isinstance(it, ast.Name):
                defs = assigned_names(pb).get(it.id, [])
                if len(defs) == 1 and isinstance(defs[0], ast.Assign):
                    return count_of(defs[0].value, d + 1)
                return None
            if isinstance(it, ast.Call) and call_name(it) == 'range' and it.args:
                if len(it.args) == 1 or (len(it.args) == 2 and isinstance(it.args[0], ast.Constant) and it.args[0].value == 0):
                    return it.args[-1]
                return None
            if isinstance(it, ast.Call) and call_name(it) in ('list', 'tuple') and len(it.args) == 1:
                return count_of(it.args[0], d + 1)
            if isinstance(it, (ast.ListComp, ast.GeneratorExp)) and len(it.generators) == 1 and not it.generators[0].ifs:
                return count_of(it.generators[0].iter, d + 1)
            if isinstance(it, ast.Subscript) and isinstance(it.slice, ast.Slice) and it.slice.lower is None \
                    and it.slice.step is None and it.slice.upper is not None:
                return it.slice.upper
            return None
        cnt = count_of(loops[-1].iter)
        size_p = pb.params[1]
        av = "len(Cluster._resources['available'])"
        if cnt is not None:
            oks = True
            seen = 0
            for p in cached_paths(pb):
                idx = [i for i, e in enumerate(p.events) if e.kind == 'for' and e.node is loops[-1]]
                if not idx:
                    continue
                seen += 1
                efr = p.events[idx[0]].frame
                env = path_affine_env(pc, p, efr, idx[0])
                N = affine(pc, cnt, efr, env)
                must = path_must(plogic, p, idx[0], depth=0)
                if N == Affine({size_p: 1}):
                    continue
                if N == Affine({av: 1}) and lit_lt(av, size_p) in must:
                    continue      # fewer free than asked for: all of them
                if N == minmax_term('min', [Affine({size_p: 1}), Affine({av: 1})]):
                    continue      # the same, spelled min(size, free)
                oks = False
            oks = oks and seen > 0
    (res.ok if oks else res.bad)('C09.R2', pb, loops[0] if loops else None, 'provision_batch_resources reserves `size` machines',
                                 'ok' if oks else 'the number of machines reserved is not the requested size')


def r7(repo, res, canon):
    """The count of live reservations (the number the partition bound is tested against) moves
    with the reservation table: +1 exactly where a provisioning succeeds, -1 exactly where a key
    of the table is dropped."""
    res.rule('C09.R7', 'num_provisioned_obs is +1 on every successful provisioning and -1 with every key dropped from the '
                       'reservation table (so "partitions free" compares the true number of live reservations)')
    CNT = 'Cluster.num_provisioned_obs'
    cl = repo.cls('Cluster')
    n_inc = n_dec = 0
    for name, f in sorted(cl.methods.items()):
        if name == '__init__' or getattr(f, 'inlined', False):
            continue
        touches = False
        for p in cached_paths(f):
            if p.exit == 'raise':
                continue
            effs = path_effects(canon, p.events)
            incs = [ef for ef in effs if ef.loc == CNT and ef.kind == 'aug+']
            decs = [ef for ef in effs if ef.loc == CNT and ef.kind == 'aug-']
            other = [ef for ef in effs if ef.loc == CNT and ef.kind not in ('aug+', 'aug-')]
            drops = [ef for ef in effs if ef.loc == IDLE and ef.kind in ('pop', 'del', 'popitem', 'clear')]
            if not (incs or decs or other or drops):
                continue
            touches = True
            for ef in other:
                res.bad('C09.R7', f, ef.node, short(ast.unparse(ef.node)),
                        'the reservation count is overwritten instead of moved by one with the reservation table')
            if any(ef.value is None or ast.unparse(ef.value) != '1' for ef in incs + decs):
                res.bad('C09.R7', f, (incs + decs)[0].node, 'count moved by something else than 1',
                        'the reservation count changes by %s' % short(ast.unparse((incs + decs)[0].node)))
            if len(decs) != len(drops):
                res.bad('C09.R7', f, (decs + drops)[0].node, '%d key(s) dropped, count lowered %d time(s)' % (len(drops), len(decs)),
                        'on a path of %s the reservation table loses %d key(s) while the reservation count is lowered %d '
                        'time(s): the partition bound is tested against a wrong number (too many or too few concurrent '
                        'reservations are admitted)' % (f.qual, len(drops), len(decs)), path=p.describe())
            else:
                n_dec += len(decs)
            if name == 'provision_batch_resources':
                rets = [e.node for e in p.events if e.kind == 'stmt' and isinstance(e.node, ast.Return)]
                truthy = bool(rets) and isinstance(rets[-1].value, ast.Constant) and rets[-1].value.value is True
                if truthy and len(incs) != 1:
                    res.bad('C09.R7', f, rets[-1], 'successful provisioning counts %d reservation(s)' % len(incs),
                            'provision_batch_resources reports success on a path that raises the reservation count %d times: '
                            'the bound on concurrent reservations is no longer enforced' % len(incs), path=p.describe())
                elif not truthy and incs:
                    res.bad('C09.R7', f, incs[0].node, 'count raised on a refusing path',
                            'the reservation count is raised although provisioning is refused')
                elif truthy:
                    n_inc += 1
            elif incs:
                res.bad('C09.R7', f, incs[0].node, 'count raised outside provision_batch_resources',
                        'the reservation count is raised in %s, where no reservation is made' % f.qual)
        if touches:
            res.analysed(f, len(cached_paths(f)))
    from . import initial
    initial.check_cluster_counters(repo, res, 'C09.R7', only={'Cluster.num_provisioned_obs'})
    if n_inc and n_dec:
        res.ok('C09.R7', cl.methods['provision_batch_resources'], None,
               'reservation count +1 per successful provisioning, -1 per dropped key', '%d/%d path(s)' % (n_inc, n_dec))
    elif not n_inc:
        res.bad('C09.R7', cl.methods['provision_batch_resources'], None, 'no successful provisioning path counts the reservation',
                'the reservation count is never raised: the bound on concurrent reservations is never reached')
    else:
        res.bad('C09.R7', cl.methods['provision_batch_resources'], None, 'the reservation count is never lowered',
                'no release lowers the reservation count: after max_resource_partitions workflows nothing can be provisioned')


def r4_blocks(repo, res, canon, logic):
    """R4 when the hand-back is not a method of its own (inlined into the allocation loop): judged
    on the atomic blocks of the Cluster that take a machine out of the occupied pool."""
    occ = [k for k, v in CU.POOLS.items() if v == 'occupied'][0]
    ok = True
    why = ''
    n = 0
    f0 = None
    for u in CU.dedupe(CU.units(repo)):
        effs = u.all_effects()
        rem = [ef for ef in effs if ef.loc == occ and ef.kind == 'remove']
        if not rem or CU.raises(u):
            continue
        f0 = u.func
        m = rem[0].arg
        apps = [ef for ef in effs if ef.kind == 'append' and ef.arg == m and CU.pool_of(ef.loc) in ('idle', 'available')]
        must = set()
        for e in u.events:
            if e.kind == 'test':
                must |= logic.must(e.node, e.frame, e.pol)
        res_l = [l for l in must if l.atom.endswith(' in ' + IDLE)]
        if len(apps) != 1:
            ok, why = False, 'a machine leaving the occupied pool is appended to %d free pools' % len(apps)
            continue
        n += 1
        dest = CU.pool_of(apps[0].loc)
        if not res_l:
            ok, why = False, 'the machine is returned without testing whether the observation holds a reservation'
        elif res_l[0].pol and not (dest == 'idle' and apps[0].loc == '%s[%s]' % (IDLE, res_l[0].atom[:-len(' in ' + IDLE)])):
            ok, why = False, ('a machine whose observation still holds a reservation is returned to %s, not to that '
                              'observation\'s idle list: another workflow or ingest can take it' % apps[0].loc)
        elif not res_l[0].pol and dest != 'available':
            ok, why = False, 'a machine of an unreserved observation is returned to %s' % apps[0].loc
    f0 = f0 or repo.func('Cluster.allocate_task_to_cluster')
    (res.ok if ok and n else res.bad)('C09.R4', f0, None, 'machine returns to idle[obs] while obs is reserved, else to available',
                                      'ok' if ok and n else why or 'no block returns a machine from the occupied pool')


def r4(repo, res, canon, logic):
    if not repo.has_func('Cluster._set_machine_available'):
        return r4_blocks(repo, res, canon, logic)
    f = repo.func('Cluster._set_machine_available')
    fr = Frame(f)
    paths = cached_paths(f)
    res.analysed(f, len(paths))
    m, o = f.params[1], f.params[2]
    ok = True
    why = ''
    n = 0
    for p in paths:
        must = path_must(logic, p)
        apps = [ef for ef in path_effects(canon, p.events) if ef.kind == 'append' and ef.arg == m]
        reserved = Lit('%s in %s' % (o, IDLE), True) in must
        notres = Lit('%s in %s' % (o, IDLE), False) in must
        if len(apps) != 1:
            ok, why = False, 'the machine is appended %d times' % len(apps)
            continue
        n += 1
        dest = CU.pool_of(apps[0].loc)
        if reserved and not (dest == 'idle' and apps[0].loc == '%s[%s]' % (IDLE, o)):
            ok, why = False, ('a machine whose observation still holds a reservation is returned to %s, not to that '
                              'observation\'s idle list: another workflow or ingest can take it' % apps[0].loc)
        if notres and dest != 'available':
            ok, why = False, 'a machine of an unreserved observation is returned to %s' % apps[0].loc
        if not reserved and not notres:
            ok, why = False, 'the machine is returned without testing whether the observation holds a reservation'
    (res.ok if ok and n else res.bad)('C09.R4', f, None, 'machine returns to idle[obs] while obs is reserved, else to available',
                                      'ok' if ok and n else why)
