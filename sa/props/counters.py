"""Counter coupling (C02.P4 = C12.M4): in every atomic block of the Cluster the
usage counters move exactly with the containers they mirror."""
import ast

from ..norm import Canon
from . import cluster_units as CU
from .common import short


def check_coupling(repo, res, rule, canon=None):
    canon = canon or Canon(repo)
    us = CU.dedupe(CU.units(repo))
    n_units = 0
    reported = set()
    abs_reported = set()
    touched = set()
    for u in us:
        if CU.raises(u):
            continue
        eff = u.all_effects()
        if not eff:
            continue
        d_len = {'running': 0, 'ingest': 0, 'occupied': 0}
        d_cnt = {'running_tasks': 0, 'finished_tasks': 0, 'ingest': 0, 'available': 0}
        fin_true = 0
        relevant = False
        for ef in eff:
            pool = CU.pool_of(ef.loc)
            if ef.loc == CU.RUNNING:
                relevant = True
                d_len['running'] += {'append': 1, 'remove': -1, 'pop': -1}.get(ef.kind, 0)
            elif pool in ('ingest', 'occupied'):
                relevant = True
                d_len[pool] += {'append': 1, 'remove': -1, 'pop': -1}.get(ef.kind, 0)
            elif ef.kind == 'assign' and ef.loc.startswith(CU.FINISHED + '[') and ef.arg == 'True':
                relevant = True
                fin_true += 1
            elif ef.loc.startswith(CU.USAGE_PREFIX):
                relevant = True
                key = ef.loc[len(CU.USAGE_PREFIX):].strip("']")
                if ef.kind in ('aug+', 'aug-') and ef.arg == '1':
                    if key in d_cnt:
                        d_cnt[key] += 1 if ef.kind == 'aug+' else -1
                        touched.add(key)
                elif ef.kind in ('assign',) or ef.kind.startswith('aug'):
                    k = (u.func.qual, id(ef.node))
                    if k not in abs_reported:
                        abs_reported.add(k)
                        res.bad(rule, u.func, ef.node, 'counter %s set by `%s`' % (key, short(ast.unparse(ef.node), 60)),
                                'the usage counter "%s" is overwritten instead of moved by +/-1 with its '
                                'container; with overlapping ingests the first to end (or the cluster loop) '
                                'makes the reported number wrong while machines are still busy' % key)
        if not relevant:
            continue
        n_units += 1
        eqs = [
            ('running_tasks', d_cnt['running_tasks'], d_len['running'], 'len(tasks.running)'),
            ('finished_tasks', d_cnt['finished_tasks'], fin_true, 'tasks marked finished'),
            ('ingest', d_cnt['ingest'], d_len['ingest'], 'len(resources.ingest)'),
            ('available', d_cnt['available'], -(d_len['ingest'] + d_len['occupied']),
             '-(len(ingest) + len(occupied))'),
        ]
        for name, dc, dl, mirror in eqs:
            if dc != dl:
                k = (u.func.qual, name, dc, dl, tuple(sorted(u.world.items())))
                if k in reported:
                    continue
                reported.add(k)
                node = next((ef.node for ef in eff), u.func.node)
                res.bad(rule, u.func, node,
                        'counter %s moves %+d while %s moves %+d in %s' % (name, dc, mirror, dl, u.label),
                        'in one atomic block of %s the reported number "%s" changes by %+d but %s changes '
                        'by %+d: the per-timestep table no longer reports the true state' % (
                            u.label, name, dc, mirror, dl), path=u.path.describe())
    if not reported and not abs_reported:
        res.ok(rule, repo.func('Cluster.allocate_task_to_cluster'), None,
               'usage counters move with their containers in every atomic block',
               '%d blocks with pool/counter effects; counters seen: %s' % (n_units, sorted(touched)))
    res.extra.setdefault('atomic_blocks', len(us))
    return n_units
