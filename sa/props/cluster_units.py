"""Atomic blocks of the Cluster: the units at which other processes can observe
pool and counter state (E5).  Shared by C02 (conservation, counters), C12.M4, C01.

A unit is the piece of one path between two yields of a Cluster entry point,
with Cluster/Machine helpers and spawned Cluster children (first segment)
inlined.  Generators are analysed from their entry AND from each loop head in
steady state; the facts that hold at a loop head (e.g. `task in tasks.running`)
are inferred as the intersection of the membership facts at every back edge.
"""
import ast

from ..index import AnalysisError, is_spawn, walk_no_nested
from ..norm import Canon, Lit, Logic, effects_of_event, track_path_consts
from ..paths import (Ev, Frame, Path, _stmt, contains_yield, expand, feasible, feasible_consts,
                     function_paths, world_frame)
from .common import reaching_value

POOLS = {"Cluster._resources['available']": 'available',
         "Cluster._resources['ingest']": 'ingest',
         "Cluster._resources['occupied']": 'occupied'}
IDLE_PREFIX = "Cluster._resources['idle']"
RUNNING = "Cluster._tasks['running']"
FINISHED = "Cluster._tasks['finished']"
USAGE_PREFIX = "Cluster._usage_data["
PROV = 'Cluster.num_provisioned_obs'


def pool_of(loc):
    if loc in POOLS:
        return POOLS[loc]
    if loc is not None and loc.startswith(IDLE_PREFIX + '['):
        return 'idle'
    return None


class Unit:
    def __init__(self, func, world, label, events, path, kind, effects, facts_in, facts_out=None):
        self.func = func
        self.world = world
        self.label = label
        self.events = events
        self.path = path
        self.kind = kind          # entry / steady / call
        self.effects = effects    # [(event, [Effect])] path-sensitive
        self.facts_in = facts_in
        self.facts_out = facts_out or {}

    def all_effects(self):
        return [ef for _, efs in self.effects for ef in efs]


def inline_cluster_only(cal, call, spawned):
    return cal.cls is not None and cal.cls.name in ('Cluster', 'Machine')


def none_attr_infeasible(path, top=True):
    """`x.attr` tested while the last assignment to x on this path (in the same
    activation, followed from its entry) is the constant None: the path would
    raise AttributeError.  top=False: only inlined activations are complete
    from their entry (steady-state paths start at a loop head)."""
    for i, e in enumerate(path.events):
        if e.kind != 'test' or (e.frame.depth == 0 and not top):
            continue
        for n in ast.walk(e.node):
            if isinstance(n, ast.Attribute) and isinstance(n.value, ast.Name):
                rv = reaching_value(_SameFrame(path, e.frame), i, n.value.id)
                if isinstance(rv, ast.Constant) and rv.value is None:
                    return True
    return False


class _SameFrame:
    def __init__(self, path, frame):
        self.events = [x if x.frame is frame else Ev('skip', None, x.frame) for x in path.events]


class Walker:
    """follows one path: path-sensitive constants, effects, membership facts"""

    def __init__(self, canon, logic):
        self.canon = canon
        self.logic = logic
        from ..norm import ProvCanon
        self.pcanon = ProvCanon(canon.repo)

    def run(self, events, facts):
        """returns (feasible, [(event, effects)], facts at each event index, end facts)"""
        canon = self.canon
        saved = canon.penv
        canon.penv = {}
        facts = dict(facts)
        out = []
        snap = []
        ok = True
        try:
            for e in events:
                snap.append(dict(facts))
                if e.kind == 'test':
                    alts = self.logic.dnf(e.node, e.frame, e.pol, depth=1)
                    live = [a for a in alts if not self._contradicts(a, facts)]
                    if alts and not live:
                        ok = False
                        break
                    if live:
                        common = set(live[0])
                        for a in live[1:]:
                            common &= set(a)
                        for l in common:
                            k = self._mem_key(l)
                            if k and k[0] == '<nonempty>':
                                facts[('<empty>', k[1])] = not l.pol
                            elif k:
                                facts[k] = l.pol
                    out.append((e, []))
                else:
                    if e.kind in ('for', 'for0'):
                        it = self.pcanon.p(e.node.iter, e.frame)
                        k = ('<empty>', it)
                        want = e.kind == 'for0'
                        if k in facts and facts[k] != want:
                            ok = False
                            break
                        facts[k] = want
                    efs = effects_of_event(canon, e)
                    for ef in efs:
                        if ef.kind in ('append', 'remove', 'pop', 'clear', 'extend', 'insert', 'assign', 'del'):
                            facts.pop(('<empty>', ef.loc), None)
                            if ef.kind == 'append':
                                facts[('<empty>', ef.loc)] = False
                        if ef.kind == 'append' and ef.arg is not None:
                            facts[(ef.arg, ef.loc)] = True
                        elif ef.kind == 'remove' and ef.arg is not None:
                            facts[(ef.arg, ef.loc)] = False
                        elif ef.kind in ('pop', 'clear', 'assign', 'del', 'extend', 'insert'):
                            for k in [k for k in facts if k[1] == ef.loc or k[1].startswith(ef.loc + '[')]:
                                facts.pop(k)
                    out.append((e, efs))
                    track_path_consts(canon, e)
                    if e.kind == 'stmt' and contains_yield(e.node):
                        # other processes run now: only what is known about this process's own
                        # task / machine survives
                        keep = _own_facts(facts)
                        facts.clear()
                        facts.update(keep)
        finally:
            canon.penv = saved
        return ok, out, snap, facts

    @staticmethod
    def _mem_key(l):
        if l.atom.startswith('empty(') and l.atom.endswith(')'):
            return ('<empty>', l.atom[6:-1])
        if l.atom.startswith('truthy(') and l.atom.endswith(')'):
            return ('<nonempty>', l.atom[7:-1])
        if ' in ' in l.atom and not l.atom.startswith(('forall', 'exists')):
            x, _, loc = l.atom.partition(' in ')
            return (x, loc)
        return None

    def _contradicts(self, lits, facts):
        for l in lits:
            k = self._mem_key(l)
            if k and k[0] == '<nonempty>':
                k, pol = ('<empty>', k[1]), not l.pol
            else:
                pol = l.pol
            if k and k in facts and facts[k] != pol:
                return True
            if l.atom.startswith('const:') and (l.atom == 'const:True') != l.pol:
                return True
        return False


def _split(pairs):
    """cut [(event, effects)] at top-frame yields"""
    segs, cur = [], []
    for e, efs in pairs:
        cur.append((e, efs))
        if e.kind == 'stmt' and e.frame.depth == 0 and contains_yield(e.node):
            segs.append(cur)
            cur = []
    if cur:
        segs.append(cur)
    return segs


def loop_paths(func, frame, loop):
    """paths of one iteration starting at the head of `loop` (steady state)"""
    out = []
    for ev, o in _stmt(loop, frame, [0]):
        ev = list(ev)
        kind = {'R': 'return', 'X': 'raise', 'C': 'cycle', 'N': 'fall'}.get(o, 'fall')
        ev.append(Ev('exit', None, frame, extra=kind))
        out.append(Path(ev, kind))
    return out


_UNITS_CACHE = {}


_OWN = [()]     # parameters of the process being analysed (its own task / machine)


def _own_facts(facts):
    """facts that can be loop invariants across the yields of a cluster process: membership of the
    process's OWN task / machine (its parameters) in the cluster's containers -- no other process moves
    them.  What a test said about anything else (a process handle's .triggered, the shared ingest
    flag, whether a pool is empty) may have changed by the next time the loop head is reached, because
    other processes run at every yield."""
    return {k: v for k, v in facts.items() if isinstance(k, tuple) and len(k) == 2 and isinstance(k[1], str)
            and k[1].startswith('Cluster._') and k[0] != '<empty>' and k[0] in _OWN[0]}


def units(repo, depth=2):
    key = id(repo)
    if key in _UNITS_CACHE:
        return _UNITS_CACHE[key]
    canon = Canon(repo)
    logic = Logic(canon)
    W = Walker(canon, logic)
    cl = repo.cls('Cluster')
    out = []
    alloc = repo.func('Cluster.allocate_task_to_cluster')
    ingest_param = 'ingest' if 'ingest' in alloc.params else None
    plan = []
    for name, f in sorted(cl.methods.items()):
        if name.startswith('_') or name in ('to_df', 'finished_task_time_data'):
            continue        # private helpers are judged where they are inlined
        if f is alloc and ingest_param:
            plan.append((f, {ingest_param: False}, False))
            plan.append((f, {ingest_param: True}, True))
        else:
            plan.append((f, {}, False))
    for f, world, skip_entry_segment in plan:
        _OWN[0] = tuple(f.params)
        wl = '[%s]' % ','.join('%s=%s' % kv for kv in world.items()) if world else ''
        fr = world_frame(f, world)
        back_facts = None
        # ---- entry paths ---------------------------------------------------
        for p0 in function_paths(f, fr):
            if not feasible_consts(p0) or none_attr_infeasible(p0):
                continue
            for p in expand(repo, p0, depth, inline_cluster_only):
                if not (feasible(p) and feasible_consts(p)) or none_attr_infeasible(p):
                    continue
                ok, pairs, snap, endf = W.run(p.events, {})
                if not ok:
                    continue
                # facts at back edges of top-frame loops (loop invariants, round 0)
                for i, (e, _) in enumerate(pairs):
                    if e.kind == 'back' and e.frame.depth == 0 and isinstance(e.node, ast.While):
                        f_at = _own_facts(snap[i])
                        back_facts = dict(f_at) if back_facts is None else {
                            k: v for k, v in back_facts.items() if f_at.get(k) == v}
                segs = _split(pairs) if f.is_generator else [pairs]
                for i, seg in enumerate(segs):
                    if skip_entry_segment and i == 0:
                        continue
                    out.append(Unit(f, world, '%s%s entry path, segment %d' % (f.qual, wl, i),
                                    [e for e, _ in seg], p, 'entry' if i == 0 else 'later', seg, {}, endf))
        # ---- steady state from each top-level while loop --------------------
        if f.is_generator:
            loops = [n for n in walk_no_nested(f.node) if isinstance(n, ast.While)]
            inv = back_facts or {}
            for lp in loops:
                for _round in range(4):
                    new_inv = dict(inv)
                    produced = []
                    for p0 in loop_paths(f, fr, lp):
                        if not feasible_consts(p0):
                            continue
                        for p in expand(repo, p0, depth, inline_cluster_only):
                            if not (feasible(p) and feasible_consts(p)) or none_attr_infeasible(p, top=False):
                                continue
                            ok, pairs, snap, endf = W.run(p.events, inv)
                            if not ok:
                                continue
                            for i, (e, _) in enumerate(pairs):
                                if e.kind == 'back' and e.node is lp:
                                    new_inv = {k: v for k, v in new_inv.items() if _own_facts(snap[i]).get(k) == v}
                            produced.append((p, pairs, endf))
                    if new_inv == inv:
                        break
                    inv = new_inv
                for p, pairs, endf in produced:
                    for i, seg in enumerate(_split(pairs)):
                        out.append(Unit(f, world, '%s%s steady-state iteration, segment %d' % (f.qual, wl, i),
                                        [e for e, _ in seg], p, 'steady', seg, dict(inv), endf))
    _UNITS_CACHE[key] = out
    return out


def dedupe(us):
    seen = set()
    out = []
    for u in us:
        key = (u.func.qual, tuple(sorted(u.world.items())),
               tuple((id(e.node), e.kind, e.pol) for e in u.events))
        if key not in seen:
            seen.add(key)
            out.append(u)
    return out


def raises(u):
    return any(e.kind == 'exit' and e.extra == 'raise' for e in u.events)
