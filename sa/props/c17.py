"""C17 -- plan-following scheduling keeps every task on its planned machine.

S1 every machine the plan-following algorithm proposes for task t is
   cluster.get_machine_from_id(t.allocated_machine_id) for the same t
S2 the planned machine of a task is written only by Task itself, and
   re-planning (update_allocation) is requested only by the scheduler, with
   the machine the algorithm named
S3 the (task, machine) pair travels unchanged: scheduler -> cluster -> do_work
"""
import ast
import re

from ..index import AnalysisError, is_spawn, walk_no_nested
from ..norm import Canon
from ..paths import Frame
from .common import bound_args, call_name, short

FLOORS = {'C17.S1': 1, 'C17.S2': 2, 'C17.S3': 3, 'C17.S4': 1}


def returned_map_name(f):
    names = set()
    for n in walk_no_nested(f.node):
        if isinstance(n, ast.Return) and n.value is not None:
            v = n.value.elts[0] if isinstance(n.value, ast.Tuple) and n.value.elts else n.value
            if isinstance(v, ast.Name):
                names.add(v.id)
            else:
                return None
    return names.pop() if len(names) == 1 else None


def map_stores(f, name):
    stores, others = [], []
    for n in walk_no_nested(f.node):
        if isinstance(n, ast.Assign):
            for t in n.targets:
                if isinstance(t, ast.Subscript) and isinstance(t.value, ast.Name) and t.value.id == name:
                    stores.append((n, t.slice, n.value))
        if isinstance(n, ast.Call) and isinstance(n.func, ast.Attribute) and isinstance(
                n.func.value, ast.Name) and n.func.value.id == name and n.func.attr in (
                'update', 'setdefault', '__setitem__'):
            others.append(n)
    return stores, others


def s4(repo, res):
    """the id -> machine table of the cluster maps every machine's id to that machine"""
    from ..norm import ProvCanon
    res.rule('C17.S4', 'Cluster.get_machine_from_id(i) returns the machine whose id is i: the lookup table is '
                       'map[m.id: m for m in machines]')
    pc = ProvCanon(repo)
    g = repo.func('Cluster.get_machine_from_id')
    gfr = Frame(g)
    res.analysed(g, 1)
    rets = [n for n in walk_no_nested(g.node) if isinstance(n, ast.Return) and n.value is not None]
    idp = g.params[1]
    tables = set()
    ok = bool(rets)
    for r in rets:
        P = pc.p(r.value, gfr)
        m_ = re.fullmatch(r'(Cluster\.\w+)\[%s\]' % re.escape(idp), P)
        if m_:
            tables.add(m_.group(1).split('.', 1)[1])
        else:
            ok = False
            res.bad('C17.S4', g, r, 'get_machine_from_id returns %s' % short(P, 60),
                    'the machine for a planned id is looked up as %s, not in the id table' % short(P, 80))
    init = repo.func('Cluster.__init__')
    ifr = Frame(init)
    for t in sorted(tables):
        stores = [n for n in ast.walk(init.node) if isinstance(n, ast.Assign) and any(
            isinstance(x, ast.Attribute) and x.attr == t and isinstance(x.value, ast.Name) and x.value.id == 'self'
            for x in n.targets)]
        for n in stores:
            P = pc.p(n.value, ifr)
            want = re.fullmatch(r'map\[elem\((?P<M>Cluster\.\w+)\)\.id: elem\((?P=M)\) for (?P=M)\]', P)
            if want:
                res.ok('C17.S4', init, n, 'Cluster.%s = {m.id: m for m in %s}' % (t, want.group('M')))
            else:
                res.bad('C17.S4', init, n, 'Cluster.%s = %s' % (t, short(P, 70)),
                        'the id table is built as %s, not as {m.id: m for every machine m}: a planned machine id can '
                        'resolve to a different machine, and the task runs there' % short(P, 140))
        if not stores:
            res.bad('C17.S4', init, init.node, 'Cluster.%s never built' % t, 'the id table is never built')


def check(repo, res, tier):
    canon = Canon(repo)
    res.rule('C17.S1', 'allocations[t] = cluster.get_machine_from_id(t.allocated_machine_id), same t')
    res.rule('C17.S2', 'allocated_machine_id written only in Task.__init__/update_allocation; '
                       'update_allocation called only by the scheduler with the proposed machine')
    res.rule('C17.S3', 'scheduler passes (t, schedule[t]) to the cluster; the cluster runs t on that machine')
    s4(repo, res)
    from . import c02
    from .common import borrow
    res.rule('C17.S5', 'adopted C02.P2: a machine leaves a busy pool only by its own identity (the finishing task\'s '
                       'machine, not "the oldest entry") -- else the planned machine of a waiting task is handed out '
                       'while ingest still runs on it')
    borrow(repo, res, tier, c02, {'C02.P2'}, 'C17.S5')
    f = repo.func('DynamicSchedulingFromPlan.run')
    fr = Frame(f)
    res.analysed(f, 0)
    m = returned_map_name(f)
    if m is None:
        raise AnalysisError('DynamicSchedulingFromPlan.run does not return a named allocation map')
    stores, others = map_stores(f, m)
    for n in others:
        res.bad('C17.S1', f, n, ast.unparse(n), 'allocation map filled by %s: machine provenance '
                'cannot be established' % short(ast.unparse(n)))
    if not stores:
        res.bad('C17.S1', f, f.node, 'no allocation store', 'the plan-following algorithm never '
                'proposes an allocation')
    for n, k, v in stores:
        K, V = canon.p(k, fr), canon.p(v, fr)
        want = 'Cluster.get_machine_from_id(%s.allocated_machine_id)' % K
        # (the cluster name may be spelled out when it is the default anyway)
        wants = {want}
        g_ = repo.func('Cluster.get_machine_from_id')
        for pn, dv in g_.defaults.items():
            if isinstance(dv, ast.Constant):
                wants.add('%s, %r)' % (want[:-1], dv.value))
                wants.add('%s, %s=%r)' % (want[:-1], pn, dv.value))
        what = 'allocations[t] <- planned machine of t'
        if V in wants:
            res.ok('C17.S1', f, n, what, short(V, 160))
        else:
            res.bad('C17.S1', f, n, what,
                    'task %s may be proposed on %s, which is not (only) its planned machine' % (
                        short(K, 60), short(V, 200)))
    g = repo.func('Cluster.get_machine_from_id')
    rets = [x for x in walk_no_nested(g.node) if isinstance(x, ast.Return)]
    okg = len(rets) == 1 and canon.c(rets[0].value, Frame(g)) == 'Cluster.machine_ids[%s]' % g.params[1]
    (res.ok if okg else res.bad)(
        'C17.S1', g, g.node, 'get_machine_from_id(id) = machine_ids[id]',
        'ok' if okg else 'get_machine_from_id no longer returns the machine with the given id')
    # ---- S2 who writes the planned machine ------------------------------
    writers = []
    for fn in repo.all_functions():
        for n in walk_no_nested(fn.node):
            if isinstance(n, ast.Attribute) and n.attr == 'allocated_machine_id' and isinstance(
                    n.ctx, (ast.Store, ast.Del)):
                writers.append((fn, n))
    for fn, n in writers:
        what = 'write to .allocated_machine_id'
        if fn.qual in ('Task.__init__', 'Task.update_allocation'):
            res.ok('C17.S2', fn, n, what, 'inside Task')
        else:
            res.bad('C17.S2', fn, n, what, '%s rewrites a task\'s planned machine' % fn.qual)
    sites = repo.call_sites({'Task.update_allocation'})
    for fn, call, spawned, exact in sites:
        what = 'call of Task.update_allocation'
        if fn.qual != 'Scheduler._process_current_schedule':
            res.bad('C17.S2', fn, call, what, '%s re-plans a task outside the scheduler' % fn.qual)
        else:
            res.ok('C17.S2', fn, call, what, 'in the scheduler')
    # ---- S3 pair travels unchanged ---------------------------------------
    s = repo.func('Scheduler._process_current_schedule')
    sf = Frame(s)
    res.analysed(s, 0)
    spawns = [n for n in walk_no_nested(s.node) if is_spawn(n)
              and call_name(n.args[0]) == 'allocate_task_to_cluster']
    if not spawns:
        res.bad('C17.S3', s, s.node, 'no allocation spawn', 'the scheduler never submits allocations')
    for sp in spawns:
        a = bound_args(repo, 'Cluster.allocate_task_to_cluster', sp.args[0], sf)
        T, M = canon.p(a.get('task'), sf), canon.p(a.get('machine'), sf)
        sched = s.params[1]
        ok = M == '%s[%s]' % (sched, T)
        what = 'spawn allocate_task_to_cluster(t, schedule[t])'
        if ok:
            res.ok('C17.S3', s, sp, what, short(M))
        else:
            res.bad('C17.S3', s, sp, what, 'task %s is submitted on %s, not on the machine the '
                    'algorithm named for it' % (short(T, 50), short(M, 120)))
        for u in [c for c in walk_no_nested(s.node) if isinstance(c, ast.Call)
                  and call_name(c) == 'update_allocation']:
            um = canon.p(u.args[0], sf) if u.args else '?'
            ut = canon.p(u.func.value, sf) if isinstance(u.func, ast.Attribute) else '?'
            ok = um == M and ut == T
            (res.ok if ok else res.bad)(
                'C17.S2', s, u, 'update_allocation(t, schedule[t])',
                short(um) if ok else 're-planning records %s for %s, not the machine it is submitted on' % (
                    short(um), short(ut)))
    # the scheduler core adds nothing to what the algorithm proposed: no (task, machine) pair is written into a
    # schedule by any Scheduler method (it only removes the pairs it has submitted)
    n_core = 0
    for m_ in sorted(repo.cls('Scheduler').methods.values(), key=lambda x: x.qual):
        if m_.name == '__init__':
            continue
        n_core += 1
        for n in walk_no_nested(m_.node):
            tgt = None
            if isinstance(n, (ast.Assign, ast.AugAssign, ast.AnnAssign)):
                for t in (n.targets if isinstance(n, ast.Assign) else [n.target]):
                    if isinstance(t, ast.Subscript) and isinstance(t.value, ast.Name):
                        tgt = t.value.id
            elif isinstance(n, ast.Call) and isinstance(n.func, ast.Attribute) and n.func.attr in ('update', 'setdefault', '__setitem__') \
                    and isinstance(n.func.value, ast.Name):
                tgt = n.func.value.id
            if tgt is None:
                continue
            # is that local a schedule: handed to _process_current_schedule / returned next to the plan / got from the algorithm
            is_sched = False
            for x in walk_no_nested(m_.node):
                if isinstance(x, ast.Call) and call_name(x) == '_process_current_schedule' and any(
                        isinstance(a_, ast.Name) and a_.id == tgt for a_ in x.args[:1]):
                    is_sched = True
                if isinstance(x, ast.Assign) and isinstance(x.value, ast.Call) and call_name(x.value) in ('run', '_generate_current_schedule'):
                    for t in x.targets:
                        names = [e.id for e in (t.elts if isinstance(t, (ast.Tuple, ast.List)) else [t]) if isinstance(e, ast.Name)]
                        if tgt in names:
                            is_sched = True
            if tgt == (s.params[1] if m_ is s else None):
                is_sched = True
            if is_sched:
                res.bad('C17.S3', m_, n, 'the scheduler core adds no pair to the schedule the algorithm proposed',
                        '%s writes a (task, machine) pair into the schedule `%s` itself (%s): a task is submitted on a machine '
                        'the plan-following algorithm did not name for it' % (m_.qual, tgt, short(ast.unparse(n), 60)))
    res.ok('C17.S3', s, None, 'the scheduler core adds no pair to the schedule the algorithm proposed', '%d methods' % n_core)
    c = repo.func('Cluster.allocate_task_to_cluster')
    cf = Frame(c)
    res.analysed(c, 0)
    mp = c.params[2]
    n_exec = 0
    for n in walk_no_nested(c.node):
        if isinstance(n, ast.Call) and call_name(n) == 'do_work':
            a = bound_args(repo, 'Task.do_work', n, cf)
            ok = canon.p(a.get('machine'), cf) == mp and canon.p(n.func.value, cf) == c.params[1]
            n_exec += 1
            (res.ok if ok else res.bad)('C17.S3', c, n, 'do_work(task, machine) with the allocated pair',
                                        'ok' if ok else 'the cluster runs %s on %s' % (
                                            canon.p(n.func.value, cf), canon.p(a.get('machine'), cf)))
        if isinstance(n, ast.Call) and isinstance(n.func, ast.Attribute) and n.func.attr == 'run' \
                and canon.p(n.func.value, cf) == mp:
            a = bound_args(repo, 'Machine.run', n, cf)
            ok = canon.p(a.get('task'), cf) == c.params[1]
            n_exec += 1
            (res.ok if ok else res.bad)('C17.S3', c, n, 'machine.run(task) with the allocated pair',
                                        'ok' if ok else 'machine runs another task')
    # rebinding of the machine/task parameters inside the cluster method
    for n in walk_no_nested(c.node):
        if isinstance(n, (ast.Assign, ast.AugAssign)):
            tg = n.targets if isinstance(n, ast.Assign) else [n.target]
            for t in tg:
                for x in ast.walk(t):
                    if isinstance(x, ast.Name) and x.id in (mp, c.params[1]) and isinstance(x.ctx, ast.Store):
                        res.bad('C17.S3', c, n, 'parameter %s rebound' % x.id,
                                'allocate_task_to_cluster rebinds %s: the task may run elsewhere' % x.id)
    if not n_exec:
        res.bad('C17.S3', c, c.node, 'no executor call', 'the cluster no longer starts do_work')
    mr = repo.func('Machine.run')
    mf = Frame(mr)
    for n in walk_no_nested(mr.node):
        if isinstance(n, ast.Call) and call_name(n) == 'do_work':
            a = bound_args(repo, 'Task.do_work', n, mf)
            ok = canon.p(a.get('machine'), mf) in ('Machine', 'self') and canon.p(n.func.value, mf) == mr.params[1]
            (res.ok if ok else res.bad)('C17.S3', mr, n, 'Machine.run: do_work(task, self)',
                                        'ok' if ok else 'Machine.run executes on %s' % canon.p(a.get('machine'), mf))
