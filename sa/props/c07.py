"""C07 -- buffer space is conserved (conservation clauses; numeric bounds undecided).

B1 deposit pairing: every ingest step takes `rate` from the hot tier's free space and adds the
   same `rate` to the observation's data size
B2 iteration count: the countdown idiom performs the deposit `duration` times (and its sibling
   in Scheduler.allocate_ingest counts the same way)
B3 free = deposited: HotBuffer.remove frees observation.total_data_size and moves the observation
   scheduled -> finished, only on the path that returns True
B4 rate limit: the decrement is dominated by the max-ingest-rate refusal
B5 ownership: current_capacity is written only inside the tier classes; total_data_size only in
   Observation.__init__ and the ingest loop
B6 admission only if the whole volume fits (shared with C08.A5)
"""
import ast

from ..index import AnalysisError, is_spawn, walk_no_nested
from ..norm import Affine, Canon, Lit, Logic, ProvCanon, affine, effects_of_event, path_effects, lit_le, lit_lt, effects_along
from ..paths import Frame, cached_paths, contains_yield, expanded_paths
from ..skel import outcomes
from .common import (bound_args, call_name, enclosing_loops, iteration_segments, path_must, short,
                     stmt_contains)
from . import c08

FLOORS = {'C07.B1': 1, 'C07.B2': 2, 'C07.B3': 2, 'C07.B4': 1, 'C07.B5': 10, 'C07.B6': 2}

HOTCAP = 'HotBuffer.current_capacity'


def check(repo, res, tier):
    canon = Canon(repo)
    pc = ProvCanon(repo)
    logic = Logic(canon)
    plogic = Logic(pc)
    res.rule('C07.B1', 'each ingest step: hot.current_capacity -= rate and observation.total_data_size += rate, same rate, once')
    res.rule('C07.B2', 'countdown idiom: starts at duration - 1, decrements by 1 under `> 0`, otherwise stores and breaks: '
                       'the deposit runs `duration` times; Scheduler.allocate_ingest counts identically')
    res.rule('C07.B3', 'HotBuffer.remove: current_capacity += total_data_size, scheduled -> finished, exactly on the True path')
    res.rule('C07.B4', 'process_incoming_data_stream raises when rate > max_ingest_data_rate before changing the capacity')
    res.rule('C07.B5', 'who writes current_capacity / total_data_size')
    res.rule('C07.B6', 'check_buffer_capacity true => hot and cold have room for rate*duration')
    res.assumptions += ['0 <= free <= capacity at all times and "full at the end" are values and not decided',
                        'an observation admitted while another is still streaming is checked against current free space only (DESIGN.md section 6)']
    b1_b2(repo, res, canon, pc, logic)
    b3(repo, res, canon, logic)
    from . import c16 as _c16
    from .common import borrow as _b16
    res.rule('C07.B10', 'adopted C16.K2: the rate limit the hot tier enforces is the configured one times the unit factor '
                        '(a limit rounded up accepts ingest above the maximum)')
    _b16(repo, res, tier, _c16, {'C16.K2'}, 'C07.B10')
    from . import c04 as _c04
    res.rule('C07.B11', 'adopted C04.T14: the scheduler actor lives for the whole run and asks the buffer for a ready observation in '
                        'every round (an observation it never picks up keeps its data in the hot tier for ever: the buffers do not '
                        'return to full free capacity)')
    _b16(repo, res, tier, _c04, {'C04.T14'}, 'C07.B11')
    from . import initial
    res.rule('C07.B9', 'initial state: an observation holds no data, nothing is pending between the tiers')
    initial.check_values(repo, res, 'C07.B9', [('Observation', 'total_data_size', 0), ('Buffer', '_data_left_to_transfer', 0)],
                         {('Observation', 'total_data_size'): 'removing the observation frees more than was ever deposited',
                          ('Buffer', '_data_left_to_transfer'): 'the hot tier looks fuller than it is from the first step on'})
    b4(repo, res, canon, logic)
    b5(repo, res, canon)
    # B6
    f = repo.func('Buffer.check_buffer_capacity')
    outs = outcomes(plogic, f, depth=0)
    res.analysed(f, len(outs))
    o = f.params[1]
    size = '(%s.duration)*(%s.ingest_data_rate)' % (o, o)
    req = [('hot tier has room for the whole volume',
            [lit_le(size, HOTCAP),
             Lit('truthy(HotBuffer.has_capacity_for((%s.ingest_data_rate * %s.duration)))' % (o, o), True)]),
           ('cold tier has room for the whole volume',
            [Lit('truthy(ColdBuffer.has_capacity_for((%s.ingest_data_rate * %s.duration)))' % (o, o), True),
             lit_le(size, 'ColdBuffer.current_capacity')])]
    c08.judge(res, 'C07.B6', f, outs, req)
    # B7: tier moves change the hot tier's free space too -- their mirror arithmetic is C18's
    from . import c18
    from .common import borrow
    res.rule('C07.B7', 'tier moves keep used space = resident data: C18.V1/V3 (same rate, mirror arithmetic), V4 (the receiver files the observation it was handed) and V5 (a refused move leaves both tiers as they were) adopted')
    borrow(repo, res, tier, c18, {'C18.V1', 'C18.V3', 'C18.V4', 'C18.V5'}, 'C07.B7')
    # B8: the ingest loop runs while the observation is RUNNING; it may be marked FINISHED only at ast + duration
    g = repo.func('Observation.is_finished')
    outs = outcomes(logic, g)
    res.rule('C07.B8', 'an observation is marked finished (ending its ingest loop) only when now >= ast + duration')
    c08.judge(res, 'C07.B8', g, outs, [('ast + duration reached', [lit_le(
        Affine({'Observation.ast': 1, 'Observation.duration': 1}), g.params[1])])])


def b1_b2(repo, res, canon, pc, logic):
    f = repo.func('Buffer.ingest_data_stream')
    fr = Frame(f)
    res.analysed(f, len(cached_paths(f)))
    obs = f.params[1]
    rate = '%s.ingest_data_rate' % obs
    loops = [n for n in walk_no_nested(f.node) if isinstance(n, ast.While)]
    if len(loops) != 1:
        res.bad('C07.B1', f, None, '%d loops in ingest_data_stream' % len(loops), 'unexpected shape of the ingest loop')
        return
    lp = loops[0]
    # iteration paths with the callee inlined
    segs = []
    for p in expanded_paths(repo, f, 1, lambda cal, call, sp: cal.name == 'process_incoming_data_stream'):
        evs = p.events
        for i, e in enumerate(evs):
            if e.kind == 'loop' and e.node is lp:
                j = i + 1
                while j < len(evs) and not (evs[j].kind == 'back' and evs[j].node is lp) and evs[j].kind != 'exit':
                    j += 1
                segs.append((evs[i + 1:j], evs[j].kind if j < len(evs) else 'end', p))
    ok = True
    why = ''
    wp = None
    n = 0
    for seg, end, p in segs:
        if any(e.kind == 'exit' and e.extra == 'raise' for e in seg) or (end == 'exit' and p.exit == 'raise'):
            continue
        if end != 'back' and not any(_efs for _e, _efs in effects_along(canon, seg)):
            # leaves the loop having changed nothing: this is the loop's exit test written as
            # `while True: if not cond: break`, not an ingest step
            continue
        dec = inc = Affine()
        ndec = ninc = 0
        first_ctl = None
        for k, (e, _efs) in enumerate(effects_along(canon, seg)):
            for ef in _efs:
                if ef.loc == HOTCAP:
                    if ef.kind == 'aug-':
                        dec = dec + affine(canon, ef.value, e.frame)
                        ndec += 1
                    else:
                        ok, why, wp = False, 'hot capacity changed by `%s` in the ingest step' % short(ast.unparse(ef.node)), p
                elif ef.loc == '%s.total_data_size' % obs:
                    if ef.kind == 'aug+':
                        inc = inc + affine(canon, ef.value, e.frame)
                        ninc += 1
                    else:
                        ok, why, wp = False, 'data size changed by `%s`' % short(ast.unparse(ef.node)), p
        n += 1
        want = Affine({rate: 1})
        if ndec != 1 or dec != want:
            ok, why, wp = False, ('an ingest step takes %r from the hot tier\'s free space (%d time(s)), '
                                  'not exactly the data rate' % (dec, ndec)), p
        elif ninc != 1 or inc != want:
            ok, why, wp = False, ('an ingest step adds %r to the observation\'s data size (%d time(s)) while the hot '
                                  'tier loses %r: used space no longer equals resident data' % (inc, ninc, dec)), p
    (res.ok if ok and n else res.bad)('C07.B1', f, lp, 'every ingest step: capacity -= rate, total_data_size += rate (once each)',
                                      '%d iteration path(s)' % n if ok else why, **({} if ok or wp is None else {'path': wp.describe()}))
    # ---- B2 countdown --------------------------------------------------------
    for g, dur in ((f, '%s.duration' % obs), (repo.func('Scheduler.allocate_ingest'), None)):
        countdown(repo, res, canon, g, dur)
    # stored exactly when the countdown ends, in the hot tier
    stored = "HotBuffer.observations['stored']"
    okst = True
    for seg, end, p in segs:
        apps = [ef for ef in path_effects(canon, seg) if ef.loc == stored and ef.kind == 'append']
        ends = end != 'back'
        if any(e.kind == 'exit' and e.extra == 'raise' for e in seg):
            continue
        if ends and p.exit != 'raise' and not any(_efs for _e, _efs in effects_along(canon, seg)):
            continue          # the loop's exit test (`while True: if not cond: break`), not a step
        if ends and len(apps) != 1 and p.exit != 'raise':
            okst = False      # the last step (the loop is left) must store the observation, once
        if not ends and apps:
            okst = False
    (res.ok if okst else res.bad)('C07.B2', f, lp, 'the observation is stored in the hot tier exactly when its last step is deposited',
                                  'ok' if okst else 'the observation is stored before its ingest is complete, or not at all')


def countdown(repo, res, canon, g, dur):
    """path-based: the loop continues exactly while counter > 0, decrementing by one and sleeping
    one step per cycle, and the counter starts at duration - 1"""
    logic = Logic(canon)
    fr = Frame(g)
    obsname = g.params[1]
    dur = dur or '%s.duration' % obsname
    loops = [n for n in walk_no_nested(g.node) if isinstance(n, ast.While)]
    what = '%s: countdown from duration - 1' % g.qual
    if not loops:
        res.bad('C07.B2', g, None, what, 'no loop')
        return
    lp = loops[0]
    inside = {id(n) for n in ast.walk(lp)}
    # loop variants: locals stepped by one (down or up) inside the loop
    cands = {}
    for p in cached_paths(g):
        for e in p.events:
            if e.node is not None and id(e.node) in inside:
                for ef in effects_of_event(canon, e):
                    if ef.kind in ('aug-', 'aug+') and ef.arg == '1' and ef.loc.isidentifier():
                        cands[ef.loc] = -1 if ef.kind == 'aug-' else 1
    if not cands:
        res.bad('C07.B2', g, lp, what, 'the loop has no countdown: its number of steps is not tied to the duration')
        return
    want = Affine({dur: 1}, -1)          # continuing cycles: duration - 1 (the last deposit leaves the loop)
    best_why = ''

    def guard_of(seg, cname):
        """[(normalised op with the variant on the left, bound Affine, test dump)] of the tests of the
        variant on this segment, polarity applied"""
        out = []
        for e in seg:
            if e.kind != 'test':
                continue
            t, pol = e.node, bool(e.pol)
            while isinstance(t, ast.UnaryOp) and isinstance(t.op, ast.Not):
                t, pol = t.operand, not pol
            if not (isinstance(t, ast.Compare) and len(t.ops) == 1):
                continue
            l, r = t.left, t.comparators[0]
            op = {ast.Lt: '<', ast.LtE: '<=', ast.Gt: '>', ast.GtE: '>='}.get(type(t.ops[0]))
            if op is None:
                continue
            if isinstance(r, ast.Name) and r.id == cname and not (isinstance(l, ast.Name) and l.id == cname):
                l, r = r, l
                op = {'<': '>', '<=': '>=', '>': '<', '>=': '<='}[op]
            if not (isinstance(l, ast.Name) and l.id == cname):
                continue
            if not pol:
                op = {'<': '>=', '<=': '>', '>': '<=', '>=': '<'}[op]
            out.append((op, affine(canon, r, fr)))
        return out
    for cname in sorted(cands):
        step = cands[cname]
        aug = 'aug-' if step < 0 else 'aug+'
        ok = True
        why = ''
        inits = [n for n in walk_no_nested(g.node) if isinstance(n, ast.Assign) and any(
            isinstance(t, ast.Name) and t.id == cname for t in n.targets) and id(n) not in inside]
        A0 = affine(canon, inits[0].value, fr) if len(inits) == 1 else None
        if A0 is None:
            ok, why = False, 'the loop variant %s is initialised %d times' % (cname, len(inits))
        n_back = n_exit = 0
        for seg, how in iteration_segments(g, lp):
            if how == 'raise':
                continue
            guards = guard_of(seg, cname)
            decs = sum(1 for ef in path_effects(canon, seg)
                       if ef.loc == cname and ef.kind == aug and ef.arg == '1')
            other = [ef for ef in path_effects(canon, seg)
                     if ef.loc == cname and not (ef.kind == aug and ef.arg == '1')]
            if other:
                ok, why = False, 'the countdown is changed by `%s`' % short(ast.unparse(other[0].node))
            # the guard under which a cycle continues, and the number of continuing cycles it allows
            cont = [(op, B) for op, B in guards if (step < 0 and op in ('>', '>=')) or (step > 0 and op in ('<', '<='))]
            if how == 'back':
                n_back += 1
                if decs and not cont:
                    ok, why = False, 'a cycle steps the countdown without having tested it against its bound'
                elif decs > 1 or (cont and decs != 1):
                    ok, why = False, 'a continuing cycle decrements the countdown %d times' % decs
                elif cont and A0 is not None:
                    op, B = cont[0]
                    count = (A0 - B) if step < 0 else (B - A0)
                    if op in ('>=', '<='):
                        count = count + Affine({}, 1)
                    if count != want:
                        ok, why = False, ('the countdown allows %r continuing cycles, not duration - 1: the deposit runs a '
                                          'different number of times' % count)
                ys = [y for e in seg if e.kind == 'stmt' for y in ast.walk(e.node) if isinstance(y, ast.Yield)]
                if len(ys) != 1 or not (isinstance(ys[0].value, ast.Call) and call_name(ys[0].value) == 'timeout' and
                                        canon.c(ys[0].value.args[0], fr) in ('1', 'TIMESTEP')):
                    ok, why = False, 'a cycle of the loop does not sleep exactly one timestep'
            else:
                n_exit += 1
                if guards and cont:
                    # leaving by the countdown must be on the negated guard
                    ok, why = False, 'the loop is left while the countdown has not run out'
        if not n_back:
            ok, why = False, 'the loop never cycles'
        if ok:
            res.ok('C07.B2', g, lp, what, 'counter %s' % cname)
            res.analysed(g, 1)
            return
        best_why = why
    res.bad('C07.B2', g, lp, what, best_why)
    res.analysed(g, 1)


def b3(repo, res, canon, logic):
    f = repo.func('HotBuffer.remove')
    fr = Frame(f)
    paths = cached_paths(f)
    res.analysed(f, len(paths))
    obs = f.params[1]
    ok = True
    why = ''
    nt = 0
    for p in paths:
        ret = [e.node for e in p.events if e.kind == 'stmt' and isinstance(e.node, ast.Return)]
        val = ret[-1].value.value if ret and isinstance(ret[-1].value, ast.Constant) else None
        effs = path_effects(canon, p.events)
        cap = [ef for ef in effs if ef.loc == HOTCAP]
        sched_rm = [ef for ef in effs if ef.loc == "HotBuffer.observations['scheduled']" and ef.kind == 'remove' and ef.arg == obs]
        fin_app = [ef for ef in effs if ef.loc == "HotBuffer.observations['finished']" and ef.kind == 'append' and ef.arg == obs]
        if val is True:
            nt += 1
            if len(cap) != 1 or cap[0].kind != 'aug+' or cap[0].arg != '%s.total_data_size' % obs:
                ok, why = False, ('removing an observation frees %s, not exactly the data it deposited '
                                  '(observation.total_data_size)' % (', '.join('%s %s' % (c.kind, c.arg) for c in cap) or 'nothing'))
            elif len(sched_rm) != 1:
                ok, why = False, 'the observation is not taken off the scheduled list: its space can be freed twice'
            must = path_must(logic, p)
            if Lit('%s in HotBuffer.observations[\'scheduled\']' % obs, True) not in must:
                ok, why = False, 'space is freed for an observation that is not resident (not in the scheduled list)'
        elif effs:
            ok, why = False, 'the refusing path of remove changes state'
    (res.ok if ok and nt else res.bad)('C07.B3', f, None, 'remove frees exactly total_data_size, once, for a resident observation',
                                       'ok' if ok and nt else why or 'remove never succeeds')
    g = repo.func('Buffer.mark_observation_finished')
    gfr = Frame(g)
    calls = [n for n in walk_no_nested(g.node) if isinstance(n, ast.Call) and call_name(n) == 'remove']
    okm = len(calls) == 1 and canon.c(calls[0].func.value, gfr) == 'HotBuffer' and canon.c(calls[0].args[0], gfr) == g.params[1]
    (res.ok if okm else res.bad)('C07.B3', g, calls[0] if calls else None,
                                 'mark_observation_finished frees the observation in the hot tier, once',
                                 'ok' if okm else 'the finished observation\'s space is not freed in the hot tier (or freed twice)')
    res.analysed(g, 1)


def b4(repo, res, canon, logic):
    f = repo.func('HotBuffer.process_incoming_data_stream')
    fr = Frame(f)
    paths = cached_paths(f)
    res.analysed(f, len(paths))
    r = f.params[1]
    ok = True
    nd = 0
    limit_lits = {lit_le(r, 'HotBuffer.max_ingest_data_rate'), lit_le('int(%s)' % r, 'HotBuffer.max_ingest_data_rate')}
    for p in paths:
        for i, (e, _efs) in enumerate(effects_along(canon, p.events)):
            for ef in _efs:
                if ef.loc == HOTCAP:
                    nd += 1
                    must = path_must(logic, p, i)
                    if not (must & limit_lits):
                        ok = False
    raises = any(p.exit == 'raise' for p in paths)
    (res.ok if ok and nd and raises else res.bad)(
        'C07.B4', f, None, 'capacity is decremented only when rate <= max_ingest_data_rate; otherwise an error is raised',
        'ok' if ok and nd and raises else 'ingest above the buffer\'s maximum ingest rate is no longer rejected before the '
        'buffer is charged')


def b5(repo, res, canon):
    n = 0
    for f in repo.all_functions():
        if f.module.name.startswith(('topsim.utils', 'topsim.recipes')):
            continue
        for x in walk_no_nested(f.node):
            tg = []
            if isinstance(x, ast.Assign):
                tg = x.targets
            elif isinstance(x, ast.AugAssign):
                tg = [x.target]
            for t in tg:
                if not isinstance(t, ast.Attribute):
                    continue
                if t.attr == 'current_capacity':
                    n += 1
                    inside = f.cls is not None and f.cls.name in ('HotBuffer', 'ColdBuffer') and \
                        isinstance(t.value, ast.Name) and t.value.id == 'self'
                    (res.ok if inside else res.bad)(
                        'C07.B5', f, x, 'write to current_capacity in %s' % f.qual,
                        'ok' if inside else '%s changes a tier\'s free space directly, outside the tier\'s own '
                        'deposit/free/transfer arithmetic' % f.qual)
                elif t.attr == 'total_data_size':
                    okw = f.qual in ('Observation.__init__', 'Buffer.ingest_data_stream')
                    (res.ok if okw else res.bad)(
                        'C07.B5', f, x, 'write to total_data_size in %s' % f.qual,
                        'ok' if okw else '%s rewrites an observation\'s deposited data size: what is freed later no '
                        'longer equals what was deposited' % f.qual)
