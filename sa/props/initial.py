"""Initial-state rules: what the constructors put into the counters and flags the other rules
only follow step by step (a counter that moves correctly from a wrong start is wrong for ever).

The state of an object right after `__init__` is read off the constructor's top-level
assignments (`self.X = v`, dict displays key by key, later statements overriding earlier ones);
a counter is compared with the *size of the container it mirrors as initialised in the same
constructor* (symbolically: an empty display has size 0, a copy of `self.machines` has size
`len(Cluster.machines)`), a flag or plain counter with the value the rule table names.
Nothing is executed."""
import ast

from ..index import AnalysisError
from ..norm import Canon, copy_source, resolve_object
from ..paths import Frame
from .common import short


def init_state(repo, canon, cls_name):
    """{location string: value ast} after `cls.__init__` (straight-line top-level statements and
    both arms of top-level ifs whose assignments agree are followed; anything else about a
    location makes it unknown = absent)"""
    f = repo.func('%s.__init__' % cls_name)
    fr = Frame(f)
    state = {}
    unknown = set()

    def put(loc, v):
        state[loc] = v
        unknown.discard(loc)
        if isinstance(v, ast.Dict):
            for k, x in zip(v.keys, v.values):
                if isinstance(k, ast.Constant):
                    put('%s[%r]' % (loc, k.value), x)

    env = {}

    def block(stmts, cond):
        for st in stmts:
            if isinstance(st, ast.Assign) and len(st.targets) == 1 and isinstance(st.targets[0], (ast.Tuple, ast.List)) \
                    and isinstance(st.value, (ast.Tuple, ast.List)) and len(st.targets[0].elts) == len(st.value.elts):
                # a, self.b = x, y : pairwise (the right-hand sides are evaluated first, which matters only
                # when one reads a target of the same statement -- such a pair is left unknown)
                written = {ast.unparse(t) for t in st.targets[0].elts}
                pairs_ = list(zip(st.targets[0].elts, st.value.elts))
                if not any(ast.unparse(x) in written for _t, v_ in pairs_ for x in ast.walk(v_)
                           if isinstance(x, (ast.Name, ast.Attribute))):
                    block([ast.copy_location(ast.Assign(targets=[t_], value=v_, type_comment=None), st) for t_, v_ in pairs_], cond)
                    continue
            if isinstance(st, ast.Assign):
                val = resolve_object(st.value, env)
                for t in st.targets:
                    if isinstance(t, ast.Name):
                        if cond:
                            env.pop(t.id, None)
                        else:
                            env[t.id] = val
                    if isinstance(t, (ast.Attribute, ast.Subscript)):
                        loc = canon.c(t, fr)
                        if cond:
                            unknown.add(loc)
                            state.pop(loc, None)
                        else:
                            put(loc, val)
                            if isinstance(t, ast.Attribute) and isinstance(t.value, ast.Name) and t.value.id == 'self':
                                env['self.' + t.attr] = val
            elif isinstance(st, ast.AugAssign) and isinstance(st.target, (ast.Attribute, ast.Subscript)):
                loc = canon.c(st.target, fr)
                unknown.add(loc)
                state.pop(loc, None)
            elif isinstance(st, (ast.If, ast.For, ast.While, ast.With, ast.Try)):
                for field in ('body', 'orelse', 'finalbody'):
                    block(getattr(st, field, []) or [], True)
                for h in getattr(st, 'handlers', []) or []:
                    block(h.body, True)
    block(f.node.body, False)
    return f, fr, state, unknown


def size_of(canon, fr, state, v, d=0):
    """symbolic size of the container value v: an int, a string 'len(<loc>)', or None"""
    if d > 6 or v is None:
        return None
    v = resolve_object(v, {})          # {'a': X}['a'] is X
    if isinstance(v, (ast.List, ast.Tuple, ast.Set)) and not any(isinstance(x, ast.Starred) for x in v.elts):
        return len(v.elts)
    if isinstance(v, ast.Dict) and all(k is not None for k in v.keys):
        return len(v.keys)
    if isinstance(v, ast.Call) and isinstance(v.func, ast.Name) and v.func.id in ('list', 'dict', 'set', 'deque') and not v.args:
        return 0
    src = copy_source(v)
    if src is not None:
        loc = canon.c(src, fr)
        if loc in state and state[loc] is not v:
            s = size_of(canon, fr, state, state[loc], d + 1)
            if s is not None:
                return s
        return 'len(%s)' % loc
    if isinstance(v, (ast.Attribute, ast.Subscript, ast.Name)):
        loc = canon.c(v, fr)
        if loc in state:
            return size_of(canon, fr, state, state[loc], d + 1)
        return 'len(%s)' % loc
    return None


def number_of(canon, fr, state, v, d=0):
    """symbolic value of a counter initialiser: int, 'len(<loc>)' or None"""
    if d > 6 or v is None:
        return None
    if isinstance(v, ast.Constant) and isinstance(v.value, (int, float)) and not isinstance(v.value, bool):
        return v.value
    if isinstance(v, ast.Call) and isinstance(v.func, ast.Name) and v.func.id == 'len' and len(v.args) == 1:
        return size_of(canon, fr, state, v.args[0], d + 1)
    if isinstance(v, (ast.Attribute, ast.Subscript)):
        loc = canon.c(v, fr)
        if loc in state:
            return number_of(canon, fr, state, state[loc], d + 1)
    return None


# counter location -> the container it mirrors (Cluster)
CLUSTER_PAIRS = {
    "Cluster._usage_data['available']": ["Cluster._resources['available']"],
    "Cluster._usage_data['ingest']": ["Cluster._resources['ingest']"],
    "Cluster._usage_data['occupied']": ["Cluster._resources['occupied']"],
    "Cluster._usage_data['running_tasks']": ["Cluster._tasks['running']"],
    "Cluster._usage_data['finished_tasks']": ["Cluster._tasks['finished']"],
    "Cluster.num_provisioned_obs": ["Cluster._resources['idle']"],
}


def check_cluster_counters(repo, res, rule, only=None):
    canon = Canon(repo)
    f, fr, state, unknown = init_state(repo, canon, 'Cluster')
    n = 0
    for cnt, conts in sorted(CLUSTER_PAIRS.items()):
        if only is not None and cnt not in only:
            continue
        if cnt not in state:
            if cnt.endswith("['occupied']"):
                continue          # (not every layout keeps this one)
            res.bad(rule, f, None, '%s has no plain initial value' % cnt,
                    'the constructor does not give %s a value that can be compared with the container it mirrors' % cnt)
            continue
        n += 1
        cv = number_of(canon, fr, state, state[cnt])
        sizes = [size_of(canon, fr, state, state.get(c)) for c in conts]
        want = sizes[0]
        what = '%s starts as the size of %s' % (cnt, ' + '.join(conts))
        if cv is not None and want is not None and cv == want:
            res.ok(rule, f, state[cnt], what, str(cv))
        else:
            res.bad(rule, f, state[cnt], what,
                    'after Cluster.__init__ %s is %s while %s holds %s element(s): the reported number is wrong from the first '
                    'timestep on (the other rules only follow its changes)' % (
                        cnt, short(ast.unparse(state[cnt]), 40), conts[0],
                        want if want is not None else 'an unknown number of'))
    if not n:
        raise AnalysisError('no cluster counter found in Cluster.__init__ (%s anchor moved)' % rule)


def check_values(repo, res, rule, table, why):
    """table: [(class, attribute location suffix, expected python constant)]"""
    canon = Canon(repo)
    n = 0
    for cls_name, attr, expected in table:
        f, fr, state, unknown = init_state(repo, canon, cls_name)
        cn = canon.class_name(cls_name)
        loc = '%s.%s' % (cn, attr)
        if loc not in state:
            res.bad(rule, f, None, '%s has no plain initial value' % loc,
                    'the constructor of %s does not give %s a plain value%s' % (
                        cls_name, attr, ' (assigned under a condition)' if loc in unknown else ''))
            continue
        n += 1
        v = state[loc]
        _missing = object()
        got = v.value if isinstance(v, ast.Constant) else (number_of(canon, fr, state, v) or _missing)
        what = '%s starts as %r' % (loc, expected)
        if got is not _missing and got == expected and type(got) == type(expected):
            res.ok(rule, f, v, what)
        else:
            res.bad(rule, f, v, what, 'after %s.__init__ %s is %s, not %r: %s' % (
                cls_name, attr, short(ast.unparse(v), 40), expected, why[(cls_name, attr)]))
    if not n:
        raise AnalysisError('no initial value found (%s anchor moved)' % rule)


def check_fields_from_params(repo, res, rule, cls_name, table, why, accept=None):
    """table: {field: constructor parameter}; the field must be initialised with exactly that
    argument (a copy idiom of it is accepted for containers)"""
    canon = Canon(repo)
    f, fr, state, unknown = init_state(repo, canon, cls_name)
    cn = canon.class_name(cls_name)
    n = 0
    for field, param in sorted(table.items()):
        loc = '%s.%s' % (cn, field)
        if param not in f.params:
            continue
        if loc not in state:
            res.bad(rule, f, None, '%s is not initialised from `%s`' % (loc, param),
                    'the constructor of %s does not store its argument `%s` in %s%s' % (
                        cls_name, param, field, ' unconditionally' if loc in unknown else ''))
            continue
        n += 1
        v = state[loc]
        src = copy_source(v)
        if src is None and accept is not None:
            src = accept(field, v)
        got = src if src is not None else v
        what = '%s.%s <- constructor argument %s' % (cls_name, field, param)
        if isinstance(got, ast.Name) and got.id == param:
            res.ok(rule, f, v, what)
        else:
            res.bad(rule, f, v, what, 'after %s.__init__ %s is %s, not the argument `%s` as given: %s' % (
                cls_name, field, short(ast.unparse(v), 50), param, why))
    if not n:
        raise AnalysisError('no field of %s initialised from a parameter found (%s anchor moved)' % (cls_name, rule))
