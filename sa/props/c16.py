"""C16 -- timestep units rescale every time-dependent quantity consistently.

K1 the three multiplier ladders agree in every world (minutes, hours, int n, other)
K2 scaling-direction table: each constructor argument / returned value is the
   right configuration key scaled up, down, or left alone.
Both are decided by evaluating every path of the three parse functions in each
world with a concrete interpreter for the ladder tests and affine forms for the
scaled quantities.
"""
import ast
from fractions import Fraction

from ..ceval import Unknown, ceval
from ..index import AnalysisError
from ..norm import Affine, Canon, affine
from ..paths import Frame, cached_paths
from .common import bound_args, call_name, short

FLOORS = {'C16.K2': 40}

# world name -> (value of Config.timestep_unit, expected multiplier)
# unusual spellings: no particular factor is demanded, only agreement of the three sections
SPELLINGS = [('"Minutes"', 'Minutes', None), ('"HOURS"', 'HOURS', None), ('"hours "', 'hours ', None),
             ('" minutes"', ' minutes', None), ('True', True, None), ('2.5', 2.5, None)]

WORLDS = [('minutes', 'minutes', 60), ('hours', 'hours', 3600), ('int-7', 7, 7),
          ('int-90', 90, 90), ('seconds', 'seconds', 1), ('other', 'fortnights', 1)]

UP, DOWN, SAME = 'x m', '/ m', 'unscaled'

# function -> constructor -> {param: (config key, direction)}
TABLE = {
    'Config.parse_cluster_config': {
        'Machine': {'cpu': ('flops', UP), 'bandwidth': ('compute_bandwidth', UP)},
        '<return>': {1: ('system_bandwidth', UP)},
    },
    'Config.parse_instrument_config': {
        'Observation': {'start': ('start', DOWN), 'duration': ('duration', DOWN),
                        'data_rate': ('data_product_rate', UP),
                        'demand': ('instrument_demand', SAME)},
        '<return>': {0: ('total_arrays', SAME), 1: ('pipelines', SAME),
                     3: ('max_ingest_resources', SAME)},
    },
    'Config.parse_buffer_config': {
        'HotBuffer': {'capacity': ("hot']['capacity", SAME),
                      'max_ingest_data_rate': ("hot']['max_ingest_rate", UP)},
        'ColdBuffer': {'capacity': ("cold']['capacity", SAME),
                       'max_data_rate': ("cold']['max_data_rate", UP)},
    },
}


def unwrap(e):
    while isinstance(e, ast.Call) and isinstance(e.func, ast.Name) and \
            e.func.id in ('round', 'int', 'float') and len(e.args) >= 1:
        e = e.args[0]
    return e


def check(repo, res, tier):
    canon = Canon(repo)
    res.rule('C16.K2', 'in each world (minutes=60, hours=3600, int n=n, other=1) and on every feasible path each scaled quantity is <its config key> x m, / m, or unscaled, per the table')
    res.assumptions += ['quantities are whole multiples of the unit (float rounding of round() not decided)',
                        'worlds: minutes, hours, two custom integers, seconds, an unknown spelling']
    agree = {}
    rounded = set()
    from ..ceval import package_helpers
    helpers = package_helpers(repo)       # a unit chain moved into a module-level function is interpreted per world
    for q, tab in TABLE.items():
        f = repo.func(q)
        paths = cached_paths(f)
        res.analysed(f, len(paths))
        fr = Frame(f)
        # sites: constructor calls and the return tuple
        for wname, unit, m in WORLDS + SPELLINGS:
            seen_sites = {}
            for p in paths:
                env = {'self.timestep_unit': unit, '__funcs__': helpers}
                aenv = {}       # local name -> Affine, evaluated where it is assigned (flow-sensitive)
                lists = {}      # local name -> [Affine per component] for a list of tuples built by a comprehension
                tuples = {}     # local name -> [Affine per component] for a name bound to one such tuple
                feasible = True
                mine = []

                def sub(expr):
                    """spec[1] of a known tuple -> a placeholder local carrying that component"""
                    import copy as _copy

                    class T(ast.NodeTransformer):
                        def visit_Subscript(self, node):
                            self.generic_visit(node)
                            if isinstance(node.value, ast.Name) and node.value.id in tuples and isinstance(
                                    node.slice, ast.Constant) and isinstance(node.slice.value, int) \
                                    and 0 <= node.slice.value < len(tuples[node.value.id]):
                                ph = '__tuple_%s_%d' % (node.value.id, node.slice.value)
                                aenv[ph] = tuples[node.value.id][node.slice.value]
                                return ast.copy_location(ast.Name(id=ph, ctx=ast.Load()), node)
                            return node
                    return T().visit(_copy.deepcopy(expr)) if tuples else expr
                for e in p.events:
                    if e.kind == 'for' and isinstance(e.node.iter, ast.Name) and e.node.iter.id in lists:
                        comps = lists[e.node.iter.id]
                        if isinstance(e.node.target, ast.Name):
                            tuples[e.node.target.id] = comps
                        elif isinstance(e.node.target, (ast.Tuple, ast.List)) and len(e.node.target.elts) == len(comps):
                            for t_, c_ in zip(e.node.target.elts, comps):
                                if isinstance(t_, ast.Name):
                                    aenv[t_.id] = c_
                    if e.kind == 'test':
                        try:
                            v = bool(ceval(e.node, env))
                        except Unknown:
                            continue
                        if v != e.pol:
                            feasible = False
                            break
                    elif e.kind == 'stmt':
                        n = e.node
                        if isinstance(n, ast.Assign) and len(n.targets) == 1 and isinstance(
                                n.targets[0], ast.Name):
                            nm = n.targets[0].id
                            try:
                                env[nm] = ceval(n.value, env)
                            except Unknown:
                                env.pop(nm, None)
                            lists.pop(nm, None)
                            tuples.pop(nm, None)
                            v_ = n.value
                            if isinstance(v_, (ast.ListComp, ast.GeneratorExp)) and len(v_.generators) == 1 and isinstance(
                                    v_.elt, ast.Tuple):
                                lists[nm] = [affine(canon, unwrap(x), fr, dict(aenv, **num_env(env))) for x in v_.elt.elts]
                            elif isinstance(v_, ast.Tuple):
                                tuples[nm] = [affine(canon, unwrap(x), fr, dict(aenv, **num_env(env))) for x in v_.elts]
                            aenv[nm] = affine(canon, unwrap(sub(n.value)), fr, dict(aenv, **num_env(env)))
                        elif isinstance(n, ast.AugAssign) and isinstance(n.target, ast.Name):
                            env.pop(n.target.id, None)
                        for site, param, expr, key, direction in sites_in(repo, fr, n, tab):
                            a = affine(canon, unwrap(sub(expr)), fr, dict(aenv, **num_env(env)))
                            if direction == DOWN and unwrap(expr) is not expr and m not in (None, 1) and (
                                    site, param) not in rounded:
                                # a time divided by the factor and then rounded is no longer that time
                                rounded.add((site, param))
                                res.bad('C16.K2', f, n, '%s %s is rounded after the division' % (site, param),
                                        '%s.%s is %s: a start time or duration that is not a whole number of timesteps is moved '
                                        '(an observation can begin before its planned start, or last another time than '
                                        'configured) -- only multiplied quantities may be rounded' % (
                                            site, param, short(ast.unparse(expr), 60)))
                            mine.append(((site, param, key, direction, id(n)), (a, n, p)))
                if not feasible:
                    continue
                for k, v in mine:
                    seen_sites.setdefault(k, []).append(v)
            if m is None:
                # unusual spelling: no expected factor, but all three sections must agree
                for (site, param, key, direction, _), vals in seen_sites.items():
                    if direction != UP:
                        continue
                    for a, n, p in vals:
                        cs = sorted(set(a.terms.values()))
                        agree.setdefault(wname, {}).setdefault(q, set()).update(cs)
                continue
            for (site, param, key, direction, _), vals in sorted(
                    seen_sites.items(), key=lambda kv: (kv[0][0], str(kv[0][1]))):
                want = {UP: Fraction(m), DOWN: Fraction(1, m), SAME: Fraction(1)}[direction]
                what = '%s %s <- %s %s [world %s: m=%s]' % (site, param, key, direction, wname, m)
                bad = None
                for a, n, p in vals:
                    terms = [(t, c) for t, c in a.terms.items()]
                    ok = (len(terms) == 1 and a.const == 0 and terms[0][1] == want
                          and terms[0][0].endswith("['%s']" % key))
                    if not ok:
                        bad = (a, n, p)
                        break
                if bad:
                    a, n, p = bad
                    res.bad('C16.K2', f, n, '%s %s <- %s %s' % (site, param, key, direction),
                            'with timestep unit %r (factor %s) %s.%s is %s, expected %s * <%s>' % (
                                unit, m, site, param, short(repr(a)), want, key),
                            path=p.describe(), what=what)
                else:
                    res.ok('C16.K2', f, vals[0][1], what, '%d path(s)' % len(vals))
            # every table row must have been seen
            for site, rows in tab.items():
                for param, (key, direction) in rows.items():
                    if not any(k[0] == site and k[1] == param for k in seen_sites):
                        res.bad('C16.K2', f, f.node, '%s %s <- %s %s' % (site, param, key, direction),
                                'no feasible path in world %s passes %s.%s' % (wname, site, param))
    spelling_agreement(repo, res, agree)


def _finish(repo, res, agree):
    spelling_agreement(repo, res, agree)


def num_env(env):
    return {k: Affine({}, Fraction(v)) for k, v in env.items()
            if isinstance(v, (int, float)) and not isinstance(v, bool) and k.isidentifier()}


def spelling_agreement(repo, res, agree):
    f0 = repo.func('Config.parse_instrument_config')
    for wname, per in sorted(agree.items()):
        facs = {q: tuple(sorted(v)) for q, v in per.items()}
        what = 'unit spelling %s: the three sections use the same factor' % wname
        if len(set(facs.values())) <= 1 and all(len(v) == 1 for v in facs.values()):
            res.ok('C16.K2', f0, None, what, str(next(iter(facs.values()))))
        else:
            res.bad('C16.K2', f0, None, 'sections disagree for unit %s' % wname,
                    'for the timestep spelling %s the configuration sections scale by different factors (%s): '
                    'rates, speeds and times are no longer rescaled by the same factor' % (
                        wname, ', '.join('%s: %s' % (q.split('.')[-1], [str(x) for x in v]) for q, v in sorted(facs.items()))),
                    what=what)


def sites_in(repo, fr, stmt, tab):
    """(site, param, expr, key, direction) for table rows realised in stmt."""
    out = []
    for n in ast.walk(stmt):
        if isinstance(n, ast.Call) and call_name(n) in tab:
            cname = call_name(n)
            a = bound_args(repo, cname + '.__init__', n, fr)
            for param, (key, direction) in tab[cname].items():
                if param in a:
                    out.append((cname, param, a[param], key, direction))
    if isinstance(stmt, ast.Return) and '<return>' in tab and stmt.value is not None:
        elts = stmt.value.elts if isinstance(stmt.value, ast.Tuple) else [stmt.value]
        for idx, (key, direction) in tab['<return>'].items():
            if idx < len(elts):
                out.append(('<return>', idx, elts[idx], key, direction))
    return out
